use std::panic::{catch_unwind, AssertUnwindSafe};

pub fn hex(b: &[u8]) -> String {
    if b.is_empty() {
        return "-".to_string();
    }
    const D: &[u8; 16] = b"0123456789abcdef";
    let mut s = String::with_capacity(b.len() * 2);
    for &x in b {
        s.push(D[(x >> 4) as usize] as char);
        s.push(D[(x & 15) as usize] as char);
    }
    s
}

pub fn unhex(s: &str) -> Option<Vec<u8>> {
    if s == "-" {
        return Some(vec![]);
    }
    let b = s.as_bytes();
    if b.len() % 2 != 0 {
        return None;
    }
    let v = |c: u8| -> Option<u8> {
        match c {
            b'0'..=b'9' => Some(c - b'0'),
            b'a'..=b'f' => Some(c - b'a' + 10),
            _ => None,
        }
    };
    let mut out = Vec::with_capacity(b.len() / 2);
    for i in 0..b.len() / 2 {
        out.push(v(b[2 * i])? * 16 + v(b[2 * i + 1])?);
    }
    Some(out)
}

/// Run `f`, turning a panic into `Err(message)`.
pub fn guarded<T>(f: impl FnOnce() -> T) -> Result<T, String> {
    IN_GUARD.with(|g| g.set(g.get() + 1));
    let r = catch_unwind(AssertUnwindSafe(f));
    IN_GUARD.with(|g| g.set(g.get() - 1));
    match r {
        Ok(v) => Ok(v),
        Err(e) => {
            let msg = if let Some(s) = e.downcast_ref::<&str>() {
                s.to_string()
            } else if let Some(s) = e.downcast_ref::<String>() {
                s.clone()
            } else {
                "panic".to_string()
            };
            let loc = LAST_PANIC_LOC.with(|l| l.borrow().clone());
            Err(format!("{} @ {}", msg, loc))
        }
    }
}

thread_local! {
    static IN_GUARD: std::cell::Cell<u32> = const { std::cell::Cell::new(0) };
    pub static LAST_PANIC_LOC: std::cell::RefCell<String> = std::cell::RefCell::new(String::new());
}

pub fn install_quiet_panic_hook() {
    std::panic::set_hook(Box::new(|info| {
        let loc = info
            .location()
            .map(|l| format!("{}:{}", l.file(), l.line()))
            .unwrap_or_default();
        // a panic outside a guarded call is a bug of the harness itself: say where
        if IN_GUARD.with(|g| g.get()) == 0 {
            eprintln!("harness panic (not inside a guarded call) at {}: {}", loc, info);
        }
        LAST_PANIC_LOC.with(|l| *l.borrow_mut() = loc);
    }));
}

/// first `head` and last `tail` characters of a long string (never cuts inside a character)
pub fn shorten(s: &str, head: usize, tail: usize) -> String {
    let n = s.chars().count();
    if n <= head + tail + 1 {
        return s.to_string();
    }
    let h: String = s.chars().take(head).collect();
    let t: String = s.chars().skip(n - tail).collect();
    format!("{}…{}", h, t)
}

/// upper bound on the number of `update` calls any driver loop of the harness makes for an input of `len` bytes (the
/// decoder needs at most a handful of calls per byte: C07); beyond it the loop stops and reports `SPIN`
pub fn spin_budget(len: usize) -> usize {
    16 * len + 4096
}

/// Leaves the case that is about to run in the file named by `VERIF_BREADCRUMB` (set by `./check`), so that a run the operating system or the
/// allocator ABORTS — which no `catch_unwind` can intercept — can still be reported with the case that was running.
pub fn breadcrumb(case: &crate::json::J) {
    if let Ok(p) = std::env::var("VERIF_BREADCRUMB") {
        let _ = std::fs::write(p, case.to_string());
    }
}
