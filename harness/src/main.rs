#![allow(dead_code, unused_imports)]
//! Correspondence harness for the Lean model of image-png (see /verif/DESIGN.md, section 5).
mod alloc;
mod canon;
mod corpus;
mod iowrap;
mod json;
mod model;
mod props;
mod refpng;
mod report;
mod rng;
mod rops;
mod util;
mod watchdog;

use json::J;
use report::{Ctx, Report, Tier};

#[global_allocator]
static GLOBAL: alloc::Counting = alloc::Counting;

fn usage() -> ! {
    eprintln!("usage: pngharness <property> [--tier quick|thorough] [--seed N] --out <result.json> [--replay <file>]");
    std::process::exit(2)
}

fn main() {
    let args: Vec<String> = std::env::args().collect();
    if args.len() < 2 {
        usage();
    }
    let prop = args[1].clone();
    let mut tier = Tier::Quick;
    let mut seed = 1u64;
    let mut out = None;
    let mut replay = None;
    let mut i = 2;
    while i < args.len() {
        match args[i].as_str() {
            "--tier" => {
                tier = if args[i + 1] == "thorough" { Tier::Thorough } else { Tier::Quick };
                i += 2;
            }
            "--seed" => {
                seed = args[i + 1].parse().unwrap_or(1);
                i += 2;
            }
            "--out" => {
                out = Some(args[i + 1].clone());
                i += 2;
            }
            "--replay" => {
                replay = Some(args[i + 1].clone());
                i += 2;
            }
            _ => usage(),
        }
    }
    util::install_quiet_panic_hook();
    watchdog::start(&prop, out.as_deref(), tier == Tier::Thorough);
    let mut ctx = Ctx {
        rng: rng::Rng::new(seed, &prop),
        tier,
        seed,
        rep: Report::new(&prop, tier, seed),
        hooks: cfg!(png_verif),
    };
    let t0 = std::time::Instant::now();
    if let Some(path) = replay {
        let text = std::fs::read_to_string(&path).unwrap_or_else(|e| {
            eprintln!("cannot read replay {}: {}", path, e);
            std::process::exit(2)
        });
        let j = json::parse(&text).unwrap_or(J::Null);
        props::replay(&prop, &mut ctx, &j);
    } else {
        // a panic of the harness's own code while it digests the implementation's answers is reported, not swallowed
        let known = std::panic::catch_unwind(std::panic::AssertUnwindSafe(|| props::run(&prop, &mut ctx)));
        match known {
            Ok(true) => {}
            Ok(false) => {
                eprintln!("unknown property {}", prop);
                std::process::exit(2);
            }
            Err(_) => {
                let loc = util::LAST_PANIC_LOC.with(|l| l.borrow().clone());
                ctx.rep.violation("oracle", "harness-crash", &format!("the harness itself panicked at {} while processing the implementation's output (unexpected output shape)", loc), J::obj().set("kind", J::s("harness-crash")).set("at", J::s(&loc)));
            }
        }
    }
    let timeouts = model::TIMEOUTS.load(std::sync::atomic::Ordering::Relaxed);
    if timeouts > 0 {
        ctx.rep.notes.push(format!("{} model line(s) exceeded the driver time limit and were not compared", timeouts));
    }
    let mut j = ctx.rep.to_json();
    j.put("harness_wall_s", J::Num(t0.elapsed().as_secs_f64()));
    j.put("hooks", J::Bool(ctx.hooks));
    let text = j.to_string();
    match out {
        Some(p) => std::fs::write(&p, text).expect("write result"),
        None => println!("{}", text),
    }
}
