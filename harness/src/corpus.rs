//! File sources: reference-built files, mutated copies, the upstream fuzz corpus, the crate's test images.
use crate::refpng::*;
use crate::rng::Rng;

#[derive(Clone)]
pub struct TestFile {
    pub bytes: Vec<u8>,
    pub source: String,
    /// true when implementation = model is enforced (builder output with valid framing and streams)
    pub model_domain: bool,
}

fn repo() -> String {
    std::env::var("PNG_REPO").unwrap_or_else(|_| "/repo".into())
}

pub fn dir_files(rel: &str, ext: Option<&str>) -> Vec<Vec<u8>> {
    let mut out = vec![];
    let mut stack = vec![std::path::PathBuf::from(repo()).join(rel)];
    let mut paths = vec![];
    while let Some(d) = stack.pop() {
        if let Ok(rd) = std::fs::read_dir(&d) {
            for e in rd.flatten() {
                let p = e.path();
                if p.is_dir() {
                    stack.push(p);
                } else if ext.map(|x| p.extension().map(|e| e == x).unwrap_or(false)).unwrap_or(true) {
                    paths.push(p);
                }
            }
        }
    }
    paths.sort();
    for p in paths {
        if let Ok(b) = std::fs::read(&p) {
            if b.len() <= 2_000_000 {
                out.push(b);
            }
        }
    }
    out
}

/// recompute every CRC of a well-framed file (returns None if the framing is broken)
pub fn repair_crcs(file: &[u8]) -> Option<Vec<u8>> {
    if file.len() < 8 {
        return None;
    }
    let mut out = file.to_vec();
    let mut p = 8usize;
    while p + 12 <= out.len() {
        let len = u32::from_be_bytes([out[p], out[p + 1], out[p + 2], out[p + 3]]) as usize;
        if p + 12 + len > out.len() {
            return None;
        }
        let crc = crc32(&out[p + 4..p + 8 + len]);
        out[p + 8 + len..p + 12 + len].copy_from_slice(&crc.to_be_bytes());
        p += 12 + len;
    }
    if p == out.len() { Some(out) } else { None }
}

pub fn built_still(rng: &mut Rng, max_dim: u32, decorate: bool) -> TestFile {
    let s = random_still(rng, max_dim);
    let (mut cs, _) = still_chunks(&s, rng);
    if decorate {
        let anc = random_ancillary(rng, s.img.color, s.img.depth);
        let at = if s.img.color == 3 { 2 } else { 1 };
        for (k, c) in anc.into_iter().enumerate() {
            // tRNS for indexed must follow PLTE; everything here goes right before the first IDAT
            cs.insert(at + k, c);
        }
    }
    TestFile { bytes: serialize(&cs), source: "built-still".into(), model_domain: true }
}

/// Every chunk kind the decoder parses, with a well-formed body, and that body cut to EVERY prefix length (CRC correct): a parser that
/// indexes a field it has not checked for (text chunks: keyword NUL flag method NUL NUL text; fcTL / acTL / pHYs ... of fixed layout)
/// fails exactly at one of these lengths.  One file per (kind, length), the chunk in front of IDAT (and behind it for the kinds allowed there).
pub fn truncated_body_files(rng: &mut Rng) -> Vec<TestFile> {
    let mut out = vec![];
    let img = Img::random(rng, 3, 8, 4, 3);
    let (raw, _) = scanlines(&img, false, &Filters::Uniform(0), rng);
    let z = zlib_stream(&raw, &Deflater::Level(6));
    let zt = zlib_stream(b"compressed text", &Deflater::Level(6));
    let mut itxt_c = b"Title\0\x01\0en\0Titel\0".to_vec();
    itxt_c.extend_from_slice(&zt);
    let mut ztxt = b"Comment\0\0".to_vec();
    ztxt.extend_from_slice(&zt);
    let mut iccp = b"icc\0\0".to_vec();
    iccp.extend_from_slice(&zlib_stream(&[1, 2, 3, 4, 5, 6, 7, 8], &Deflater::Stored(100)));
    let mut fctl = vec![0u8; 26];
    fctl[4..8].copy_from_slice(&4u32.to_be_bytes());
    fctl[8..12].copy_from_slice(&3u32.to_be_bytes());
    fctl[22..24].copy_from_slice(&1u16.to_be_bytes());
    let bodies: Vec<(&[u8; 4], Vec<u8>)> = vec![
        (b"tEXt", b"Title\0some text".to_vec()),
        (b"zTXt", ztxt),
        (b"iTXt", b"Title\0\0\0en\0Titel\0plain text".to_vec()),
        (b"iTXt", itxt_c),
        (b"iCCP", iccp),
        (b"gAMA", vec![0, 1, 134, 160]),
        (b"cHRM", (0..32u8).collect()),
        (b"sRGB", vec![1]),
        (b"pHYs", vec![0, 0, 11, 19, 0, 0, 11, 19, 1]),
        (b"sBIT", vec![5, 6, 5]),
        (b"bKGD", vec![2]),
        (b"tRNS", vec![0, 128, 255]),
        (b"cICP", vec![9, 16, 0, 1]),
        (b"mDCV", (0..24u8).collect()),
        (b"cLLI", vec![0, 0, 3, 232, 0, 0, 0, 200]),
        (b"eXIf", vec![0x4d, 0x4d, 0, 42, 0, 0, 0, 8]),
        (b"acTL", vec![0, 0, 0, 1, 0, 0, 0, 0]),
        (b"fcTL", fctl),
        (b"PLTE", (0..12u8).collect()),
        (b"IHDR", ihdr(4, 3, 8, 3, 0).data),
    ];
    for (ty, body) in &bodies {
        for n in 0..=body.len() {
            let cut = RawChunk::new(ty, body[..n].to_vec());
            let mut cs = vec![];
            if *ty == b"IHDR" {
                cs.push(cut.clone());
            } else {
                cs.push(ihdr(4, 3, 8, 3, 0));
            }
            if *ty == b"acTL" || *ty == b"fcTL" {
                cs.push(cut.clone());
                if *ty == b"fcTL" {
                    cs.insert(1, actl(1, 0));
                }
            }
            if *ty != b"PLTE" && *ty != b"IHDR" {
                if matches!(*ty, b"tRNS" | b"bKGD") {
                    cs.push(RawChunk::new(b"PLTE", (0..12u8).collect()));
                    cs.push(cut.clone());
                } else if *ty != b"acTL" && *ty != b"fcTL" {
                    cs.push(cut.clone());
                    cs.push(RawChunk::new(b"PLTE", (0..12u8).collect()));
                } else {
                    cs.push(RawChunk::new(b"PLTE", (0..12u8).collect()));
                }
            } else if *ty == b"PLTE" {
                cs.push(cut.clone());
            } else {
                cs.push(RawChunk::new(b"PLTE", (0..12u8).collect()));
            }
            cs.push(RawChunk::new(b"IDAT", z.clone()));
            if matches!(*ty, b"tEXt" | b"zTXt" | b"iTXt" | b"eXIf") {
                cs.push(cut.clone());
            }
            cs.push(RawChunk::new(b"IEND", vec![]));
            out.push(TestFile { bytes: serialize(&cs), source: "truncated-chunk-body".into(), model_domain: false });
        }
    }
    out
}

pub fn built_anim(rng: &mut Rng, max_dim: u32) -> TestFile {
    let a = random_anim(rng, max_dim, 4);
    let (cs, _) = anim_chunks(&a, rng);
    TestFile { bytes: serialize(&cs), source: "built-apng".into(), model_domain: true }
}

pub fn mutate(rng: &mut Rng, f: &[u8]) -> Vec<u8> {
    let mut b = f.to_vec();
    if b.is_empty() {
        return b;
    }
    match rng.below(5) {
        0 => {
            let i = rng.usize(0, b.len() - 1);
            b[i] ^= 1 << rng.below(8);
        }
        1 => {
            for _ in 0..rng.usize(1, 4) {
                let i = rng.usize(0, b.len() - 1);
                b[i] = rng.byte();
            }
        }
        2 => {
            let n = rng.usize(0, b.len());
            b.truncate(n);
        }
        3 => {
            let i = rng.usize(0, b.len() - 1);
            let j = rng.usize(i, b.len());
            let piece: Vec<u8> = b[i..j.min(i + 40)].to_vec();
            let at = rng.usize(0, b.len());
            for (k, x) in piece.into_iter().enumerate() {
                b.insert((at + k).min(b.len()), x);
            }
        }
        _ => {
            let i = rng.usize(0, b.len() - 1);
            let j = (i + rng.usize(1, 30)).min(b.len());
            b.drain(i..j);
        }
    }
    b
}

/// `nbuilt` valid builder files, `nmut` mutated ones (CRCs repaired on half of them), up to `ncorpus` corpus files
pub fn mixed_files(rng: &mut Rng, nbuilt: usize, nmut: usize, ncorpus: usize) -> Vec<TestFile> {
    let mut out = vec![];
    for i in 0..nbuilt {
        let mut r = rng.fork(i as u64);
        out.push(if i % 3 == 2 { built_anim(&mut r, 12) } else { built_still(&mut r, if i % 10 == 0 { 120 } else { 20 }, i % 2 == 0) });
    }
    for i in 0..nmut {
        let mut r = rng.fork(10_000 + i as u64);
        let base = &out[r.usize(0, nbuilt.max(1) - 1)].bytes.clone();
        let mut m = mutate(&mut r, base);
        let mut src = "mutated";
        if r.bool() {
            if let Some(fixed) = repair_crcs(&m) {
                m = fixed;
                src = "mutated+crc-repaired";
            }
        }
        out.push(TestFile { bytes: m, source: src.into(), model_domain: false });
    }
    let mut corpus: Vec<(Vec<u8>, &str)> = vec![];
    for b in dir_files("tests", Some("png")) {
        corpus.push((b, "tests"));
    }
    for b in dir_files("fuzz/corpus", None) {
        corpus.push((b, "fuzz-corpus"));
    }
    // deterministic subsample
    let total = corpus.len();
    let mut idx: Vec<usize> = (0..total).collect();
    rng.shuffle(&mut idx);
    for &k in idx.iter().take(ncorpus) {
        let (b, s) = &corpus[k];
        out.push(TestFile { bytes: b.clone(), source: s.to_string(), model_domain: false });
        if k % 4 == 0 {
            if let Some(fixed) = repair_crcs(b) {
                if &fixed != b {
                    out.push(TestFile { bytes: fixed, source: format!("{}+crc-repaired", s), model_domain: false });
                }
            }
        }
    }
    out
}
