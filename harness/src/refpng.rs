//! Reference PNG/APNG builder.  Shares no code with image-png: own CRC table, own Adler-32, own
//! filters, own Adam7 interlacer, own stored-block deflate emitter (flate2/miniz for compressed
//! streams).  Also returns the expected pixels computed from the pixel source (not by decoding).
use crate::rng::Rng;
use std::io::Write;

pub const SIG: [u8; 8] = [137, 80, 78, 71, 13, 10, 26, 10];

pub fn crc32(data: &[u8]) -> u32 {
    static TABLE: std::sync::OnceLock<[u32; 256]> = std::sync::OnceLock::new();
    let t = TABLE.get_or_init(|| {
        let mut t = [0u32; 256];
        for n in 0..256u32 {
            let mut c = n;
            for _ in 0..8 {
                c = if c & 1 == 1 { 0xEDB88320 ^ (c >> 1) } else { c >> 1 };
            }
            t[n as usize] = c;
        }
        t
    });
    let mut c = 0xFFFF_FFFFu32;
    for &b in data {
        c = t[((c ^ b as u32) & 0xFF) as usize] ^ (c >> 8);
    }
    c ^ 0xFFFF_FFFF
}

pub fn adler32(data: &[u8]) -> u32 {
    let (mut a, mut b) = (1u32, 0u32);
    for &x in data {
        a = (a + x as u32) % 65521;
        b = (b + a) % 65521;
    }
    (b << 16) | a
}

#[derive(Clone, Debug, PartialEq, Eq)]
pub struct RawChunk {
    pub ty: [u8; 4],
    pub data: Vec<u8>,
    /// None = correct CRC; Some(x) = store x instead
    pub crc_override: Option<u32>,
}

impl RawChunk {
    pub fn new(ty: &[u8; 4], data: Vec<u8>) -> RawChunk {
        RawChunk { ty: *ty, data, crc_override: None }
    }
    pub fn ty_str(&self) -> String {
        self.ty.iter().map(|&b| b as char).collect()
    }
    pub fn bytes(&self) -> Vec<u8> {
        let mut out = Vec::with_capacity(self.data.len() + 12);
        out.extend_from_slice(&(self.data.len() as u32).to_be_bytes());
        out.extend_from_slice(&self.ty);
        out.extend_from_slice(&self.data);
        let crc = self.crc_override.unwrap_or_else(|| crc32(&out[4..]));
        out.extend_from_slice(&crc.to_be_bytes());
        out
    }
}

pub fn serialize(chunks: &[RawChunk]) -> Vec<u8> {
    let mut out = SIG.to_vec();
    for c in chunks {
        out.extend_from_slice(&c.bytes());
    }
    out
}

pub fn samples(color: u8) -> usize {
    match color {
        0 | 3 => 1,
        2 => 3,
        4 => 2,
        6 => 4,
        _ => 0,
    }
}

pub const LEGAL_PAIRS: [(u8, u8); 15] = [
    (0, 1), (0, 2), (0, 4), (0, 8), (0, 16),
    (2, 8), (2, 16),
    (3, 1), (3, 2), (3, 4), (3, 8),
    (4, 8), (4, 16),
    (6, 8), (6, 16),
];

#[derive(Clone, Debug)]
pub struct Img {
    pub color: u8,
    pub depth: u8,
    pub w: u32,
    pub h: u32,
    /// packed rows, `row_bytes()` each, padding bits zero
    pub pixels: Vec<u8>,
}

impl Img {
    pub fn bits_pp(&self) -> usize {
        samples(self.color) * self.depth as usize
    }
    pub fn row_bytes_w(&self, w: u32) -> usize {
        (w as usize * self.bits_pp() + 7) / 8
    }
    pub fn row_bytes(&self) -> usize {
        self.row_bytes_w(self.w)
    }
    pub fn filter_bpp(&self) -> usize {
        (self.bits_pp() / 8).max(1)
    }
    /// random image; pixel source chosen by `rng` (random, constants, ramps, long-period)
    pub fn random(rng: &mut Rng, color: u8, depth: u8, w: u32, h: u32) -> Img {
        let mut img = Img { color, depth, w, h, pixels: vec![] };
        let rb = img.row_bytes();
        let total = rb * h as usize;
        let mut px = match rng.below(5) {
            0 | 1 => rng.bytes(total),
            2 => rng.class_bytes(total),
            3 => {
                // long period: forces long match distances in real compressors
                let period = rng.usize(1, 40000.min(total.max(1)));
                let pat = rng.bytes(period);
                (0..total).map(|i| pat[i % period]).collect()
            }
            _ => {
                let mut v = Vec::with_capacity(total);
                for y in 0..h as usize {
                    v.extend(rng.class_bytes(rb).into_iter().map(|b| b.wrapping_add(y as u8)));
                }
                v
            }
        };
        // zero the padding bits at the end of each row
        let used = w as usize * img.bits_pp();
        if used % 8 != 0 && rb > 0 {
            let keep = (used % 8) as u32;
            let mask = !(0xFFu8 >> keep);
            for y in 0..h as usize {
                px[y * rb + rb - 1] &= mask;
            }
        }
        img.pixels = px;
        img
    }
    /// pixel value bits of pixel (x, y) as a little vector of bytes (sub-byte: one byte holding the value)
    pub fn get_px(&self, x: usize, y: usize) -> Vec<u8> {
        let bits = self.bits_pp();
        let rb = self.row_bytes();
        if bits >= 8 {
            let n = bits / 8;
            self.pixels[y * rb + x * n..y * rb + x * n + n].to_vec()
        } else {
            let bit = x * bits;
            let b = self.pixels[y * rb + bit / 8];
            vec![(b >> (8 - bit % 8 - bits)) & ((1u16 << bits) - 1) as u8]
        }
    }
}

pub const ADAM7: [(usize, usize, usize, usize); 7] = [
    (0, 0, 8, 8),
    (4, 0, 8, 8),
    (0, 4, 4, 8),
    (2, 0, 4, 4),
    (0, 2, 2, 4),
    (1, 0, 2, 2),
    (0, 1, 1, 2),
];

fn count(n: usize, off: usize, step: usize) -> usize {
    (0..n).filter(|x| *x >= off && (*x - off) % step == 0).count()
}

/// the reduced images of the seven passes (empty ones included with w or h = 0)
pub fn adam7_passes(img: &Img) -> Vec<Img> {
    let mut out = vec![];
    let bits = img.bits_pp();
    for &(xo, yo, xs, ys) in ADAM7.iter() {
        let pw = count(img.w as usize, xo, xs);
        let ph = count(img.h as usize, yo, ys);
        let mut p = Img { color: img.color, depth: img.depth, w: pw as u32, h: ph as u32, pixels: vec![] };
        let rb = p.row_bytes();
        p.pixels = vec![0u8; rb * ph];
        for l in 0..ph {
            for i in 0..pw {
                let v = img.get_px(i * xs + xo, l * ys + yo);
                if bits >= 8 {
                    let n = bits / 8;
                    p.pixels[l * rb + i * n..l * rb + i * n + n].copy_from_slice(&v);
                } else {
                    let bit = i * bits;
                    p.pixels[l * rb + bit / 8] |= v[0] << (8 - bit % 8 - bits);
                }
            }
        }
        out.push(p);
    }
    out
}

/// forward filter of one row (PNG spec 9.2), independent implementation
pub fn filter_row(ft: u8, bpp: usize, prev: &[u8], row: &[u8]) -> Vec<u8> {
    let mut out = vec![0u8; row.len()];
    for i in 0..row.len() {
        let a = if i >= bpp { row[i - bpp] as i32 } else { 0 };
        let b = if i < prev.len() { prev[i] as i32 } else { 0 };
        let c = if i >= bpp && i - bpp < prev.len() { prev[i - bpp] as i32 } else { 0 };
        let p = match ft {
            0 => 0,
            1 => a,
            2 => b,
            3 => (a + b) / 2,
            _ => {
                let p = a + b - c;
                let (pa, pb, pc) = ((p - a).abs(), (p - b).abs(), (p - c).abs());
                if pa <= pb && pa <= pc {
                    a
                } else if pb <= pc {
                    b
                } else {
                    c
                }
            }
        };
        out[i] = row[i].wrapping_sub(p as u8);
    }
    out
}

#[derive(Clone, Debug)]
pub enum Filters {
    Uniform(u8),
    Random,
    /// row k of every pass/image uses type k mod 5 starting at `start` (every type on a first row over 5 files)
    Cycle(u8),
}

impl Filters {
    fn pick(&self, rng: &mut Rng, row: usize) -> u8 {
        match self {
            Filters::Uniform(f) => *f,
            Filters::Random => rng.below(5) as u8,
            Filters::Cycle(s) => ((*s as usize + row) % 5) as u8,
        }
    }
}

/// filtered scanline stream (filter byte + filtered row, all rows; passes concatenated when interlaced).
/// Returns the stream and the list of filter types used.
pub fn scanlines(img: &Img, interlace: bool, filters: &Filters, rng: &mut Rng) -> (Vec<u8>, Vec<u8>) {
    let mut out = vec![];
    let mut used = vec![];
    let bpp = img.filter_bpp();
    let parts: Vec<Img> = if interlace { adam7_passes(img) } else { vec![img.clone()] };
    for p in parts.iter() {
        if p.w == 0 || p.h == 0 {
            continue;
        }
        let rb = p.row_bytes();
        let mut prev: Vec<u8> = vec![];
        for y in 0..p.h as usize {
            let row = &p.pixels[y * rb..(y + 1) * rb];
            let ft = filters.pick(rng, y);
            used.push(ft);
            out.push(ft);
            out.extend(filter_row(ft, bpp, &prev, row));
            prev = row.to_vec();
        }
    }
    (out, used)
}

#[derive(Clone, Debug)]
pub enum Deflater {
    /// stored blocks of at most this many bytes (1..=65535)
    Stored(usize),
    /// flate2 (miniz_oxide backend) level 0..=9
    Level(u32),
    /// fdeflate's fast compressor
    Fdeflate,
    /// own fixed-Huffman emitter: matches at exactly this distance where the data repeats with that period
    FixedDist(usize),
}

pub fn zlib_stream(data: &[u8], d: &Deflater) -> Vec<u8> {
    match d {
        Deflater::Stored(bs) => {
            let bs = (*bs).clamp(1, 65535);
            let mut out = vec![0x78, 0x01];
            if data.is_empty() {
                out.extend_from_slice(&[1, 0, 0, 0xFF, 0xFF]);
            }
            let mut i = 0;
            while i < data.len() {
                let n = bs.min(data.len() - i);
                let last = i + n == data.len();
                out.push(last as u8);
                out.extend_from_slice(&(n as u16).to_le_bytes());
                out.extend_from_slice(&(!(n as u16)).to_le_bytes());
                out.extend_from_slice(&data[i..i + n]);
                i += n;
            }
            out.extend_from_slice(&adler32(data).to_be_bytes());
            out
        }
        Deflater::Level(l) => {
            let mut e = flate2::write::ZlibEncoder::new(Vec::new(), flate2::Compression::new(*l));
            e.write_all(data).unwrap();
            e.finish().unwrap()
        }
        Deflater::Fdeflate => fdeflate::compress_to_vec(data),
        Deflater::FixedDist(d) => fixed_huffman_zlib(data, (*d).clamp(1, 32768), 258),
    }
}

pub fn random_deflater(rng: &mut Rng) -> Deflater {
    match rng.below(6) {
        0 => Deflater::Stored(*rng.pick(&[1usize, 7, 100, 4096, 65535])),
        1 => Deflater::Fdeflate,
        2 => Deflater::Level(0),
        _ => Deflater::Level(rng.range(1, 9) as u32),
    }
}

/// cut `data` into pieces according to a split style
#[derive(Clone, Debug)]
pub enum Split {
    One,
    /// k random cut points, possibly producing empty pieces
    Random(usize),
    EveryByte,
    Fixed(usize),
}

pub fn split(data: &[u8], s: &Split, rng: &mut Rng) -> Vec<Vec<u8>> {
    match s {
        Split::One => vec![data.to_vec()],
        Split::EveryByte => data.iter().map(|b| vec![*b]).collect(),
        Split::Fixed(n) => data.chunks((*n).max(1)).map(|c| c.to_vec()).collect(),
        Split::Random(k) => {
            let mut cuts: Vec<usize> = (0..*k).map(|_| rng.usize(0, data.len())).collect();
            cuts.sort();
            let mut out = vec![];
            let mut p = 0;
            for c in cuts {
                out.push(data[p..c].to_vec());
                p = c;
            }
            out.push(data[p..].to_vec());
            out
        }
    }
}

pub fn random_split(rng: &mut Rng, len: usize) -> Split {
    match rng.below(6) {
        0 | 1 => Split::One,
        2 => Split::Random(rng.usize(1, 6)),
        3 => {
            if len <= 300 {
                Split::EveryByte
            } else {
                Split::Fixed(rng.usize(1, 50))
            }
        }
        4 => Split::Fixed(*rng.pick(&[1usize, 3, 8192, 32768, 32769, 65536])),
        _ => Split::Random(rng.usize(6, 20)),
    }
}

pub fn ihdr(w: u32, h: u32, depth: u8, color: u8, interlace: u8) -> RawChunk {
    let mut d = vec![];
    d.extend_from_slice(&w.to_be_bytes());
    d.extend_from_slice(&h.to_be_bytes());
    d.extend_from_slice(&[depth, color, 0, 0, interlace]);
    RawChunk::new(b"IHDR", d)
}

#[derive(Clone, Debug, PartialEq, Eq)]
pub struct Fctl {
    pub seq: u32,
    pub w: u32,
    pub h: u32,
    pub x: u32,
    pub y: u32,
    pub delay_num: u16,
    pub delay_den: u16,
    pub dispose: u8,
    pub blend: u8,
}

impl Fctl {
    pub fn chunk(&self) -> RawChunk {
        let mut d = vec![];
        for v in [self.seq, self.w, self.h, self.x, self.y] {
            d.extend_from_slice(&v.to_be_bytes());
        }
        d.extend_from_slice(&self.delay_num.to_be_bytes());
        d.extend_from_slice(&self.delay_den.to_be_bytes());
        d.push(self.dispose);
        d.push(self.blend);
        RawChunk::new(b"fcTL", d)
    }
}

pub fn actl(frames: u32, plays: u32) -> RawChunk {
    let mut d = frames.to_be_bytes().to_vec();
    d.extend_from_slice(&plays.to_be_bytes());
    RawChunk::new(b"acTL", d)
}

pub fn random_palette(rng: &mut Rng, entries: usize) -> RawChunk {
    RawChunk::new(b"PLTE", rng.bytes(entries * 3))
}

/// Parameters of one still image file
#[derive(Clone, Debug)]
pub struct Still {
    pub img: Img,
    pub interlace: bool,
    pub filters: Filters,
    pub deflater: Deflater,
    pub split: Split,
}

/// data chunks (IDAT) for an image
pub fn idat_chunks(s: &Still, rng: &mut Rng) -> (Vec<RawChunk>, Vec<u8>) {
    let (raw, used) = scanlines(&s.img, s.interlace, &s.filters, rng);
    let z = zlib_stream(&raw, &s.deflater);
    (split(&z, &s.split, rng).into_iter().map(|p| RawChunk::new(b"IDAT", p)).collect(), used)
}

/// a complete minimal file: IHDR [PLTE] IDAT* IEND
pub fn still_chunks(s: &Still, rng: &mut Rng) -> (Vec<RawChunk>, Vec<u8>) {
    let mut cs = vec![ihdr(s.img.w, s.img.h, s.img.depth, s.img.color, s.interlace as u8)];
    if s.img.color == 3 {
        cs.push(random_palette(rng, 1usize << s.img.depth.min(8)));
    }
    let (idats, used) = idat_chunks(s, rng);
    cs.extend(idats);
    cs.push(RawChunk::new(b"IEND", vec![]));
    (cs, used)
}

pub fn random_dims(rng: &mut Rng, max: u32) -> (u32, u32) {
    let pick = |rng: &mut Rng| -> u32 {
        match rng.below(4) {
            0 => rng.range(1, 17) as u32,
            1 => *rng.pick(&[31u32, 32, 33, 63, 64, 65]),
            _ => rng.range(1, max as u64) as u32,
        }
        .min(max)
    };
    (pick(rng), pick(rng))
}

pub fn random_still(rng: &mut Rng, max_dim: u32) -> Still {
    let (color, depth) = *rng.pick(&LEGAL_PAIRS);
    let (w, h) = random_dims(rng, max_dim);
    let img = Img::random(rng, color, depth, w, h);
    let interlace = rng.bool();
    let filters = match rng.below(4) {
        0 => Filters::Uniform(rng.below(5) as u8),
        1 => Filters::Cycle(rng.below(5) as u8),
        _ => Filters::Random,
    };
    let deflater = random_deflater(rng);
    let split = random_split(rng, 1000);
    Still { img, interlace, filters, deflater, split }
}

/// One animation frame (or the default image): rectangle + pixels
#[derive(Clone, Debug)]
pub struct AnimFrame {
    pub x: u32,
    pub y: u32,
    pub img: Img,
    pub delay: (u16, u16),
    pub dispose: u8,
    pub blend: u8,
    pub filters: Filters,
    pub deflater: Deflater,
    pub split: Split,
}

#[derive(Clone, Debug)]
pub struct Anim {
    pub color: u8,
    pub depth: u8,
    pub w: u32,
    pub h: u32,
    pub interlace: bool,
    pub plays: u32,
    /// None: the IDAT image is the first animation frame; Some(img): separate default image (canvas size)
    pub default_image: Option<AnimFrame>,
    pub frames: Vec<AnimFrame>,
}

/// what successive `next_frame` calls are expected to deliver
#[derive(Clone, Debug)]
pub struct ExpectedFrame {
    pub fc: Option<Fctl>,
    pub w: u32,
    pub h: u32,
    pub pixels: Vec<u8>,
}

pub fn anim_chunks(a: &Anim, rng: &mut Rng) -> (Vec<RawChunk>, Vec<ExpectedFrame>) {
    let mut cs = vec![ihdr(a.w, a.h, a.depth, a.color, a.interlace as u8), actl(a.frames.len() as u32, a.plays)];
    if a.color == 3 {
        cs.push(random_palette(rng, 1usize << a.depth.min(8)));
    }
    let mut exp = vec![];
    let mut seq = 0u32;
    let mut first_data = true;
    let mut emit = |f: &AnimFrame, with_fc: bool, cs: &mut Vec<RawChunk>, exp: &mut Vec<ExpectedFrame>, seq: &mut u32, rng: &mut Rng, first_data: &mut bool| {
        let fc = if with_fc {
            let fc = Fctl { seq: *seq, w: f.img.w, h: f.img.h, x: f.x, y: f.y, delay_num: f.delay.0, delay_den: f.delay.1, dispose: f.dispose, blend: f.blend };
            *seq += 1;
            cs.push(fc.chunk());
            Some(fc)
        } else {
            None
        };
        let (raw, _) = scanlines(&f.img, a.interlace, &f.filters, rng);
        let z = zlib_stream(&raw, &f.deflater);
        for piece in split(&z, &f.split, rng) {
            if *first_data {
                cs.push(RawChunk::new(b"IDAT", piece));
            } else {
                let mut d = seq.to_be_bytes().to_vec();
                *seq += 1;
                d.extend_from_slice(&piece);
                cs.push(RawChunk::new(b"fdAT", d));
            }
        }
        *first_data = false;
        exp.push(ExpectedFrame { fc, w: f.img.w, h: f.img.h, pixels: f.img.pixels.clone() });
    };
    if let Some(d) = &a.default_image {
        emit(d, false, &mut cs, &mut exp, &mut seq, rng, &mut first_data);
    }
    for f in &a.frames {
        emit(f, true, &mut cs, &mut exp, &mut seq, rng, &mut first_data);
    }
    cs.push(RawChunk::new(b"IEND", vec![]));
    (cs, exp)
}

pub fn random_anim(rng: &mut Rng, max_dim: u32, max_frames: usize) -> Anim {
    let (color, depth) = *rng.pick(&LEGAL_PAIRS);
    let w = rng.range(1, max_dim as u64) as u32;
    let h = rng.range(1, max_dim as u64) as u32;
    let interlace = rng.chance(1, 3);
    let mk = |rng: &mut Rng, full: bool| -> AnimFrame {
        let (fw, fh, x, y) = if full {
            (w, h, 0, 0)
        } else {
            let fw = rng.range(1, w as u64) as u32;
            let fh = rng.range(1, h as u64) as u32;
            (fw, fh, rng.range(0, (w - fw) as u64) as u32, rng.range(0, (h - fh) as u64) as u32)
        };
        AnimFrame {
            x, y,
            img: Img::random(rng, color, depth, fw, fh),
            delay: (rng.below(100) as u16, rng.below(100) as u16),
            dispose: rng.below(3) as u8,
            blend: rng.below(2) as u8,
            filters: Filters::Random,
            deflater: random_deflater(rng),
            split: match rng.below(4) { 0 => Split::One, 1 => Split::Fixed(rng.usize(1, 9)), 2 => Split::Random(rng.usize(1, 4)), _ => Split::Fixed(1) },
        }
    };
    let separate_default = rng.chance(1, 3);
    let default_image = if separate_default { Some(mk(rng, true)) } else { None };
    let n = rng.usize(1, max_frames);
    let mut frames = vec![];
    for k in 0..n {
        // the IDAT frame of an animation must cover the canvas
        let full = (k == 0 && !separate_default) || rng.chance(1, 3);
        frames.push(mk(rng, full));
    }
    Anim { color, depth, w, h, interlace, plays: rng.below(3) as u32, default_image, frames }
}

/// ancillary chunks with valid contents for decorating files (position: before IDAT)
pub fn random_ancillary(rng: &mut Rng, color: u8, depth: u8) -> Vec<RawChunk> {
    let mut v = vec![];
    if rng.chance(1, 2) {
        v.push(RawChunk::new(b"gAMA", (rng.next() as u32).to_be_bytes().to_vec()));
    }
    if rng.chance(1, 3) {
        let mut d = vec![];
        for _ in 0..8 {
            d.extend_from_slice(&(rng.next() as u32).to_be_bytes());
        }
        v.push(RawChunk::new(b"cHRM", d));
    }
    if rng.chance(1, 3) {
        let mut d = (rng.next() as u32).to_be_bytes().to_vec();
        d.extend_from_slice(&(rng.next() as u32).to_be_bytes());
        d.push(rng.below(2) as u8);
        v.push(RawChunk::new(b"pHYs", d));
    }
    if rng.chance(1, 4) {
        v.push(RawChunk::new(b"sRGB", vec![rng.below(4) as u8]));
    }
    if rng.chance(1, 3) {
        let mut d = b"Title".to_vec();
        d.push(0);
        let n = rng.usize(0, 20);
        d.extend(rng.bytes(n).into_iter().map(|b| b.max(1)));
        v.push(RawChunk::new(b"tEXt", d));
    }
    if rng.chance(1, 4) {
        let n = rng.usize(1, 30);
        v.push(RawChunk::new(b"eXIf", rng.bytes(n)));
    }
    if rng.chance(1, 4) {
        let n = rng.usize(0, 40);
        v.push(RawChunk::new(b"prVt", rng.bytes(n)));
    }
    if rng.chance(1, 5) && (color == 0 || color == 2) {
        let n = if color == 0 { 2 } else { 6 };
        let d: Vec<u8> = (0..n).map(|i| if i % 2 == 0 && depth < 16 { 0 } else { rng.byte() }).collect();
        v.push(RawChunk::new(b"tRNS", d));
    }
    v
}

// ---------------------------------------------------------------------------------------------
// own fixed-Huffman deflate emitter with chosen match distances (RFC 1951 section 3.2.6)

struct BitWriter {
    out: Vec<u8>,
    acc: u64,
    n: u32,
}

impl BitWriter {
    fn bits(&mut self, v: u32, len: u32) {
        // LSB first
        self.acc |= (v as u64) << self.n;
        self.n += len;
        while self.n >= 8 {
            self.out.push(self.acc as u8);
            self.acc >>= 8;
            self.n -= 8;
        }
    }
    /// Huffman codes are packed most significant bit first
    fn code(&mut self, code: u32, len: u32) {
        let mut r = 0u32;
        for i in 0..len {
            if code & (1 << i) != 0 {
                r |= 1 << (len - 1 - i);
            }
        }
        self.bits(r, len);
    }
    fn litlen(&mut self, sym: u32) {
        match sym {
            0..=143 => self.code(0x30 + sym, 8),
            144..=255 => self.code(0x190 + (sym - 144), 9),
            256..=279 => self.code(sym - 256, 7),
            _ => self.code(0xC0 + (sym - 280), 8),
        }
    }
    fn finish(mut self) -> Vec<u8> {
        if self.n > 0 {
            self.out.push(self.acc as u8);
        }
        self.out
    }
}

const LEN_BASE: [u32; 29] = [3, 4, 5, 6, 7, 8, 9, 10, 11, 13, 15, 17, 19, 23, 27, 31, 35, 43, 51, 59, 67, 83, 99, 115, 131, 163, 195, 227, 258];
const LEN_EXTRA: [u32; 29] = [0, 0, 0, 0, 0, 0, 0, 0, 1, 1, 1, 1, 2, 2, 2, 2, 3, 3, 3, 3, 4, 4, 4, 4, 5, 5, 5, 5, 0];
const DIST_BASE: [u32; 30] = [1, 2, 3, 4, 5, 7, 9, 13, 17, 25, 33, 49, 65, 97, 129, 193, 257, 385, 513, 769, 1025, 1537, 2049, 3073, 4097, 6145, 8193, 12289, 16385, 24577];
const DIST_EXTRA: [u32; 30] = [0, 0, 0, 0, 1, 1, 2, 2, 3, 3, 4, 4, 5, 5, 6, 6, 7, 7, 8, 8, 9, 9, 10, 10, 11, 11, 12, 12, 13, 13];

/// An INVALID zlib stream (one fixed-Huffman block) that announces `total` bytes: the literal `first`, then matches at distance
/// `dist` although only one byte has been produced - a back-reference reaching before the start of the stream.  Every conforming
/// inflater refuses it; an inflater that is handed stale history (the previous frame's bytes) "decodes" it.
pub fn fixed_huffman_zlib_reach_back(first: u8, total: usize, dist: usize) -> Vec<u8> {
    let mut w = BitWriter { out: vec![0x78, 0x01], acc: 0, n: 0 };
    w.bits(1, 1);
    w.bits(1, 2);
    w.litlen(first as u32);
    let mut left = total.saturating_sub(1);
    while left > 0 {
        let l = if left >= 258 { 258 } else if left >= 3 { left.min(257) } else { 3 };
        let li = (0..29).rev().find(|&k| LEN_BASE[k] as usize <= l).unwrap();
        let li = if l == 258 { 28 } else if li == 28 { 27 } else { li };
        w.litlen(257 + li as u32);
        w.bits(l as u32 - LEN_BASE[li], LEN_EXTRA[li]);
        let di = (0..30).rev().find(|&k| DIST_BASE[k] as usize <= dist).unwrap();
        w.code(di as u32, 5);
        w.bits(dist as u32 - DIST_BASE[di], DIST_EXTRA[di]);
        left = left.saturating_sub(l);
    }
    w.litlen(256);
    let mut out = w.finish();
    out.extend_from_slice(&[0, 0, 0, 1]);
    out
}

/// zlib stream, one fixed-Huffman block: literals where no match at distance `dist` exists, otherwise matches of
/// up to `max_len` bytes at exactly that distance (1 <= dist <= 32768)
pub fn fixed_huffman_zlib(data: &[u8], dist: usize, max_len: usize) -> Vec<u8> {
    let mut w = BitWriter { out: vec![0x78, 0x01], acc: 0, n: 0 };
    w.bits(1, 1); // BFINAL
    w.bits(1, 2); // fixed Huffman
    let max_len = max_len.clamp(3, 258);
    let mut i = 0usize;
    while i < data.len() {
        let mut l = 0usize;
        if i >= dist {
            while l < max_len && i + l < data.len() && data[i + l] == data[i + l - dist] {
                l += 1;
            }
        }
        if l >= 3 {
            let li = (0..29).rev().find(|&k| LEN_BASE[k] as usize <= l).unwrap();
            // length 258 has its own code; lengths 227..257 use code 284 with extra bits
            let li = if l == 258 { 28 } else if li == 28 { 27 } else { li };
            let l = if li == 27 { l.min(257) } else { l };
            w.litlen(257 + li as u32);
            w.bits(l as u32 - LEN_BASE[li], LEN_EXTRA[li]);
            let di = (0..30).rev().find(|&k| DIST_BASE[k] as usize <= dist).unwrap();
            w.code(di as u32, 5);
            w.bits(dist as u32 - DIST_BASE[di], DIST_EXTRA[di]);
            i += l;
        } else {
            w.litlen(data[i] as u32);
            i += 1;
        }
    }
    w.litlen(256);
    let mut out = w.finish();
    out.extend_from_slice(&adler32(data).to_be_bytes());
    out
}
