//! Minimal JSON value + writer (no external crates).
use std::collections::BTreeMap;

#[derive(Clone, Debug)]
pub enum J {
    Null,
    Bool(bool),
    Int(i64),
    Num(f64),
    Str(String),
    Arr(Vec<J>),
    Obj(BTreeMap<String, J>),
}

impl J {
    pub fn obj() -> J {
        J::Obj(BTreeMap::new())
    }
    pub fn set(mut self, k: &str, v: J) -> J {
        if let J::Obj(m) = &mut self {
            m.insert(k.to_string(), v);
        }
        self
    }
    pub fn put(&mut self, k: &str, v: J) {
        if let J::Obj(m) = self {
            m.insert(k.to_string(), v);
        }
    }
    pub fn s(x: &str) -> J {
        J::Str(x.to_string())
    }
    pub fn i(x: impl TryInto<i64>) -> J {
        J::Int(x.try_into().ok().unwrap_or(i64::MAX))
    }
    pub fn write(&self, out: &mut String) {
        match self {
            J::Null => out.push_str("null"),
            J::Bool(b) => out.push_str(if *b { "true" } else { "false" }),
            J::Int(i) => out.push_str(&i.to_string()),
            J::Num(f) => {
                if f.is_finite() {
                    out.push_str(&format!("{}", f))
                } else {
                    out.push_str("null")
                }
            }
            J::Str(s) => {
                out.push('"');
                for c in s.chars() {
                    match c {
                        '"' => out.push_str("\\\""),
                        '\\' => out.push_str("\\\\"),
                        '\n' => out.push_str("\\n"),
                        '\r' => out.push_str("\\r"),
                        '\t' => out.push_str("\\t"),
                        c if (c as u32) < 0x20 => out.push_str(&format!("\\u{:04x}", c as u32)),
                        c => out.push(c),
                    }
                }
                out.push('"');
            }
            J::Arr(a) => {
                out.push('[');
                for (i, x) in a.iter().enumerate() {
                    if i > 0 {
                        out.push(',');
                    }
                    x.write(out);
                }
                out.push(']');
            }
            J::Obj(m) => {
                out.push('{');
                for (i, (k, v)) in m.iter().enumerate() {
                    if i > 0 {
                        out.push(',');
                    }
                    J::Str(k.clone()).write(out);
                    out.push(':');
                    v.write(out);
                }
                out.push('}');
            }
        }
    }
    pub fn to_string(&self) -> String {
        let mut s = String::new();
        self.write(&mut s);
        s
    }
}

/// Tiny JSON reader, enough for replay files written by this harness.
pub fn parse(s: &str) -> Option<J> {
    let b = s.as_bytes();
    let mut p = 0usize;
    let v = parse_val(b, &mut p)?;
    Some(v)
}
fn ws(b: &[u8], p: &mut usize) {
    while *p < b.len() && (b[*p] as char).is_whitespace() {
        *p += 1;
    }
}
fn parse_val(b: &[u8], p: &mut usize) -> Option<J> {
    ws(b, p);
    if *p >= b.len() {
        return None;
    }
    match b[*p] {
        b'{' => {
            *p += 1;
            let mut m = BTreeMap::new();
            loop {
                ws(b, p);
                if b[*p] == b'}' {
                    *p += 1;
                    break;
                }
                let k = match parse_val(b, p)? {
                    J::Str(s) => s,
                    _ => return None,
                };
                ws(b, p);
                if b[*p] != b':' {
                    return None;
                }
                *p += 1;
                let v = parse_val(b, p)?;
                m.insert(k, v);
                ws(b, p);
                if b[*p] == b',' {
                    *p += 1;
                }
            }
            Some(J::Obj(m))
        }
        b'[' => {
            *p += 1;
            let mut a = vec![];
            loop {
                ws(b, p);
                if b[*p] == b']' {
                    *p += 1;
                    break;
                }
                a.push(parse_val(b, p)?);
                ws(b, p);
                if b[*p] == b',' {
                    *p += 1;
                }
            }
            Some(J::Arr(a))
        }
        b'"' => {
            *p += 1;
            let mut s = String::new();
            while b[*p] != b'"' {
                if b[*p] == b'\\' {
                    *p += 1;
                    match b[*p] {
                        b'n' => s.push('\n'),
                        b'r' => s.push('\r'),
                        b't' => s.push('\t'),
                        b'u' => {
                            let h = std::str::from_utf8(&b[*p + 1..*p + 5]).ok()?;
                            s.push(char::from_u32(u32::from_str_radix(h, 16).ok()?)?);
                            *p += 4;
                        }
                        c => s.push(c as char),
                    }
                    *p += 1;
                } else {
                    let start = *p;
                    while b[*p] != b'"' && b[*p] != b'\\' {
                        *p += 1;
                    }
                    s.push_str(std::str::from_utf8(&b[start..*p]).ok()?);
                }
            }
            *p += 1;
            Some(J::Str(s))
        }
        b't' => {
            *p += 4;
            Some(J::Bool(true))
        }
        b'f' => {
            *p += 5;
            Some(J::Bool(false))
        }
        b'n' => {
            *p += 4;
            Some(J::Null)
        }
        _ => {
            let start = *p;
            while *p < b.len() && (b[*p] == b'-' || b[*p] == b'+' || b[*p] == b'.' || b[*p] == b'e' || b[*p] == b'E' || b[*p].is_ascii_digit()) {
                *p += 1;
            }
            let t = std::str::from_utf8(&b[start..*p]).ok()?;
            if let Ok(i) = t.parse::<i64>() {
                Some(J::Int(i))
            } else {
                t.parse::<f64>().ok().map(J::Num)
            }
        }
    }
}

impl J {
    pub fn get(&self, k: &str) -> Option<&J> {
        match self {
            J::Obj(m) => m.get(k),
            _ => None,
        }
    }
    pub fn as_str(&self) -> Option<&str> {
        match self {
            J::Str(s) => Some(s),
            _ => None,
        }
    }
    pub fn as_i64(&self) -> Option<i64> {
        match self {
            J::Int(i) => Some(*i),
            _ => None,
        }
    }
    pub fn as_arr(&self) -> Option<&Vec<J>> {
        match self {
            J::Arr(a) => Some(a),
            _ => None,
        }
    }
}
