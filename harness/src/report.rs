//! What a run covered and what it found; serialised for `./check`.
use crate::json::J;
use crate::rng::Rng;
use std::collections::{BTreeMap, HashSet};

#[derive(Clone, Copy, PartialEq, Eq, Debug)]
pub enum Tier {
    Quick,
    Thorough,
}

#[derive(Clone, Debug)]
pub struct Violation {
    /// stable key computed from observable facts of the failing case (matched against known findings)
    pub class_key: String,
    pub what: String,
    /// "oracle": the implementation fails the property's own predicate on this input;
    /// "model": implementation and model disagree inside the model domain (no oracle failure shown)
    pub kind: &'static str,
    pub case: J,
}

pub struct Report {
    pub prop: String,
    pub tier: Tier,
    pub seed: u64,
    pub evaluations: u64,
    distinct: HashSet<u64>,
    pub samples: Vec<J>,
    pub hist: BTreeMap<String, BTreeMap<String, u64>>,
    pub violations: Vec<Violation>,
    pub violation_counts: BTreeMap<String, u64>,
    pub model_disagreements: u64,
    pub oracle_failures: u64,
    pub model_gaps: u64,
    pub model_compared: u64,
    pub exhaustive: Vec<String>,
    pub rule: String,
    pub notes: Vec<String>,
}

impl Report {
    pub fn new(prop: &str, tier: Tier, seed: u64) -> Report {
        Report {
            prop: prop.to_string(),
            tier,
            seed,
            evaluations: 0,
            distinct: HashSet::new(),
            samples: vec![],
            hist: BTreeMap::new(),
            violations: vec![],
            violation_counts: BTreeMap::new(),
            model_disagreements: 0,
            oracle_failures: 0,
            model_gaps: 0,
            model_compared: 0,
            exhaustive: vec![],
            rule: String::new(),
            notes: vec![],
        }
    }
    /// one executed case; `nontrivial` by the property's stated rule; `key` = hash of the canonical case
    pub fn eval(&mut self, nontrivial: bool, key: u64) {
        crate::watchdog::tick();
        self.evaluations += 1;
        if nontrivial {
            self.distinct.insert(key);
        }
    }
    pub fn evals(&mut self, n: u64) {
        crate::watchdog::tick();
        self.evaluations += n;
    }
    pub fn distinct_add(&mut self, key: u64) {
        self.distinct.insert(key);
    }
    pub fn sample(&mut self, s: J) {
        if self.samples.len() < 8 {
            self.samples.push(s);
        }
    }
    pub fn count(&mut self, hist: &str, key: &str) {
        *self.hist.entry(hist.to_string()).or_default().entry(key.to_string()).or_default() += 1;
    }
    pub fn violation(&mut self, kind: &'static str, class_key: &str, what: &str, case: J) {
        match kind {
            "oracle" => self.oracle_failures += 1,
            "model" => self.model_disagreements += 1,
            _ => {}
        }
        let full_key = format!("{}:{}", kind, class_key);
        let c = self.violation_counts.entry(full_key).or_default();
        *c += 1;
        if *c == 1 {
            self.violations.push(Violation {
                class_key: class_key.to_string(),
                what: what.to_string(),
                kind,
                case,
            });
        }
    }
    pub fn to_json(&self) -> J {
        let mut hist = J::obj();
        for (h, m) in &self.hist {
            let mut o = J::obj();
            for (k, v) in m {
                o.put(k, J::i(*v));
            }
            hist.put(h, o);
        }
        let viols: Vec<J> = self
            .violations
            .iter()
            .map(|v| {
                J::obj()
                    .set("class_key", J::s(&v.class_key))
                    .set("what", J::s(&v.what))
                    .set("kind", J::s(v.kind))
                    .set(
                        "count",
                        J::i(*self.violation_counts.get(&format!("{}:{}", v.kind, v.class_key)).unwrap_or(&1)),
                    )
                    .set("case", v.case.clone())
            })
            .collect();
        J::obj()
            .set("property_id", J::s(&self.prop))
            .set("tier", J::s(if self.tier == Tier::Quick { "quick" } else { "thorough" }))
            .set("seed", J::i(self.seed))
            .set("evaluations", J::i(self.evaluations))
            .set("distinct_nontrivial", J::i(self.distinct.len() as u64))
            .set("rule", J::s(&self.rule))
            .set("samples", J::Arr(self.samples.clone()))
            .set("histograms", hist)
            .set("violations", J::Arr(viols))
            .set("model_disagreements", J::i(self.model_disagreements))
            .set("oracle_failures", J::i(self.oracle_failures))
            .set("model_gaps", J::i(self.model_gaps))
            .set("model_compared", J::i(self.model_compared))
            .set("exhaustive", J::Arr(self.exhaustive.iter().map(|s| J::s(s)).collect()))
            .set("notes", J::Arr(self.notes.iter().map(|s| J::s(s)).collect()))
    }
}

pub struct Ctx {
    pub rng: Rng,
    pub tier: Tier,
    pub seed: u64,
    pub rep: Report,
    /// true when /repo was built with `--cfg png_verif`
    pub hooks: bool,
}

impl Ctx {
    pub fn quick(&self) -> bool {
        self.tier == Tier::Quick
    }
    /// pick a count by tier
    pub fn n(&self, quick: usize, thorough: usize) -> usize {
        if self.quick() {
            quick
        } else {
            thorough
        }
    }
}
