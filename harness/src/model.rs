//! Talks to the compiled Lean driver `pngmodel` over the line protocol.
use std::io::{BufRead, BufReader, Write};
use std::process::{Command, Stdio};

pub fn model_path() -> String {
    std::env::var("PNGMODEL").unwrap_or_else(|_| "/verif/lean/.lake/build/bin/pngmodel".to_string())
}

/// Send all lines, get one answer per line.  Lines are split across `jobs` driver processes.
pub fn ask(lines: &[String]) -> Vec<String> {
    crate::watchdog::pause();
    let r = ask_inner(lines);
    crate::watchdog::resume();
    r
}

fn ask_inner(lines: &[String]) -> Vec<String> {
    let jobs = std::thread::available_parallelism().map(|n| n.get()).unwrap_or(4).min(16);
    if lines.len() < 64 || jobs == 1 {
        return ask_one_inner(lines);
    }
    let chunk = (lines.len() + jobs - 1) / jobs;
    let mut out: Vec<Vec<String>> = Vec::new();
    std::thread::scope(|s| {
        let hs: Vec<_> = lines.chunks(chunk).map(|c| s.spawn(move || ask_one(c))).collect();
        for h in hs {
            out.push(h.join().expect("model thread"));
        }
    });
    out.into_iter().flatten().collect()
}

/// seconds one line may take before the driver process is killed and the line answered `model-timeout`
const LINE_TIMEOUT_S: u64 = 120;
pub static TIMEOUTS: std::sync::atomic::AtomicU64 = std::sync::atomic::AtomicU64::new(0);

/// answers with which the executable model says "not compared" (cost guard in the driver, or killed after the time limit)
pub fn outside_domain(answer: &str) -> bool {
    answer == "model-timeout" || answer.split(' ').any(|t| t == "tooslow")
}

pub fn ask_one(lines: &[String]) -> Vec<String> {
    crate::watchdog::pause();
    let r = ask_one_inner(lines);
    crate::watchdog::resume();
    r
}

fn ask_one_inner(lines: &[String]) -> Vec<String> {
    let mut answers = Vec::with_capacity(lines.len());
    // a line on which the driver exceeds the time limit is answered `model-timeout`; the rest go to a fresh driver
    while answers.len() < lines.len() {
        let start = answers.len();
        let (got, timed_out) = ask_proc(&lines[start..]);
        let n = got.len();
        answers.extend(got);
        if timed_out {
            TIMEOUTS.fetch_add(1, std::sync::atomic::Ordering::Relaxed);
            eprintln!("model driver exceeded {} s on one line; killed, line answered model-timeout", LINE_TIMEOUT_S);
            answers.push("model-timeout".to_string());
        } else if n < lines.len() - start {
            eprintln!("model driver answered {} of {} lines (crashed?)", n, lines.len() - start);
            // the line it died on is reported with the case attached; the rest go to a fresh driver
            answers.push("model-died".to_string());
        }
    }
    answers
}

/// one driver process; returns the answers received and whether it had to be killed for exceeding the time limit
fn ask_proc(lines: &[String]) -> (Vec<String>, bool) {
    if lines.is_empty() {
        return (vec![], false);
    }
    let mut child = Command::new(model_path())
        .stdin(Stdio::piped())
        .stdout(Stdio::piped())
        .stderr(Stdio::inherit())
        .spawn()
        .unwrap_or_else(|e| {
            eprintln!("cannot start model driver {}: {}", model_path(), e);
            std::process::exit(2)
        });
    let mut stdin = child.stdin.take().unwrap();
    let stdout = child.stdout.take().unwrap();
    let mut answers = Vec::with_capacity(lines.len());
    let mut timed_out = false;
    let (tx, rx) = std::sync::mpsc::channel::<String>();
    std::thread::scope(|s| {
        s.spawn(move || {
            for l in lines {
                debug_assert!(!l.contains('\n'));
                if stdin.write_all(l.as_bytes()).is_err() || stdin.write_all(b"\n").is_err() {
                    break;
                }
            }
            drop(stdin);
        });
        s.spawn(move || {
            let rd = BufReader::with_capacity(1 << 20, stdout);
            for l in rd.lines() {
                match l {
                    Ok(l) => {
                        if tx.send(l).is_err() {
                            break;
                        }
                    }
                    Err(_) => break,
                }
            }
        });
        loop {
            match rx.recv_timeout(std::time::Duration::from_secs(LINE_TIMEOUT_S)) {
                Ok(l) => answers.push(l),
                Err(std::sync::mpsc::RecvTimeoutError::Timeout) => {
                    timed_out = true;
                    let _ = child.kill();
                    break;
                }
                Err(std::sync::mpsc::RecvTimeoutError::Disconnected) => break,
            }
        }
        drop(rx);
    });
    let _ = child.wait();
    answers.truncate(lines.len());
    (answers, timed_out)
}
