//! Talks to the compiled Lean driver `pngmodel` over the line protocol.
use std::io::{BufRead, BufReader, Write};
use std::process::{Command, Stdio};

pub fn model_path() -> String {
    std::env::var("PNGMODEL").unwrap_or_else(|_| "/verif/lean/.lake/build/bin/pngmodel".to_string())
}

/// Send all lines, get one answer per line.  Lines are split across `jobs` driver processes.
pub fn ask(lines: &[String]) -> Vec<String> {
    let jobs = std::thread::available_parallelism().map(|n| n.get()).unwrap_or(4).min(16);
    if lines.len() < 64 || jobs == 1 {
        return ask_one(lines);
    }
    let chunk = (lines.len() + jobs - 1) / jobs;
    let mut out: Vec<Vec<String>> = Vec::new();
    std::thread::scope(|s| {
        let hs: Vec<_> = lines.chunks(chunk).map(|c| s.spawn(move || ask_one(c))).collect();
        for h in hs {
            out.push(h.join().expect("model thread"));
        }
    });
    out.into_iter().flatten().collect()
}

pub fn ask_one(lines: &[String]) -> Vec<String> {
    if lines.is_empty() {
        return vec![];
    }
    let mut child = Command::new(model_path())
        .stdin(Stdio::piped())
        .stdout(Stdio::piped())
        .stderr(Stdio::inherit())
        .spawn()
        .unwrap_or_else(|e| {
            eprintln!("cannot start model driver {}: {}", model_path(), e);
            std::process::exit(2)
        });
    let mut stdin = child.stdin.take().unwrap();
    let stdout = child.stdout.take().unwrap();
    let mut answers = Vec::with_capacity(lines.len());
    std::thread::scope(|s| {
        s.spawn(move || {
            for l in lines {
                debug_assert!(!l.contains('\n'));
                if stdin.write_all(l.as_bytes()).is_err() || stdin.write_all(b"\n").is_err() {
                    break;
                }
            }
            drop(stdin);
        });
        let rd = BufReader::with_capacity(1 << 20, stdout);
        for l in rd.lines() {
            match l {
                Ok(l) => answers.push(l),
                Err(_) => break,
            }
        }
    });
    let _ = child.wait();
    if answers.len() != lines.len() {
        eprintln!(
            "model driver answered {} of {} lines (crashed?)",
            answers.len(),
            lines.len()
        );
        // pad so that callers report the disagreement with the case attached
        while answers.len() < lines.len() {
            answers.push("model-died".to_string());
        }
    }
    answers
}
