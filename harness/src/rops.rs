//! Runs a sequence of public decoding calls on the real `Decoder`/`Reader` over a growing input and prints
//! the same canonical tokens as the Lean `Reader` model (`PngVerif/Driver/Reader.lean`).
use crate::canon::*;
use crate::iowrap::PieceReader;
use crate::rng::fnv64;
use crate::util::guarded;
use std::sync::atomic::Ordering;

#[derive(Clone, Debug, PartialEq, Eq)]
pub enum Op {
    ReadHeader,
    ReadInfo,
    NextFrame(u8),
    /// `next_frame` with a buffer that is too short: kind 0 = empty, 1 = one byte, 2 = `output_buffer_size() - 1` bytes.
    /// The Lean Reader model has no such call: runs that contain it are never sent to the model.
    ShortFrame(u8),
    NextRow,
    ReadRow,
    NextFrameInfo,
    Finish,
    Grow(usize),
}

impl Op {
    pub fn token(&self) -> String {
        match self {
            Op::ReadHeader => "rh".into(),
            Op::ReadInfo => "ri".into(),
            Op::NextFrame(p) => format!("nf{:02x}", p),
            Op::ShortFrame(k) => format!("sf{}", k),
            Op::NextRow => "nr".into(),
            Op::ReadRow => "rr".into(),
            Op::NextFrameInfo => "fi".into(),
            Op::Finish => "fin".into(),
            Op::Grow(n) => format!("g{}", n),
        }
    }
    pub fn parse(s: &str) -> Option<Op> {
        Some(match s {
            "rh" => Op::ReadHeader,
            "ri" => Op::ReadInfo,
            "nr" => Op::NextRow,
            "rr" => Op::ReadRow,
            "fi" => Op::NextFrameInfo,
            "fin" => Op::Finish,
            _ if s.starts_with("nf") => Op::NextFrame(u8::from_str_radix(&s[2..], 16).ok()?),
            _ if s.starts_with("sf") => Op::ShortFrame(s[2..].parse().ok()?),
            _ if s.starts_with('g') => Op::Grow(s[1..].parse().ok()?),
            _ => return None,
        })
    }
}

pub fn ops_string(ops: &[Op]) -> String {
    ops.iter().map(|o| o.token()).collect::<Vec<_>>().join(",")
}
pub fn parse_ops(s: &str) -> Vec<Op> {
    s.split(',').filter_map(Op::parse).collect()
}

fn dig(b: &[u8]) -> String {
    format!("{}:{:016x}", b.len(), fnv64(b))
}

fn ii_str(ii: &png::InterlaceInfo) -> String {
    // fields are not public: read them from the Debug form
    let d = format!("{:?}", ii);
    let nums: Vec<u64> = d.split(|c: char| !c.is_ascii_digit()).filter(|s| !s.is_empty()).filter_map(|s| s.parse().ok()).collect();
    if d.starts_with("Null") {
        format!("n{}", nums.first().copied().unwrap_or(0))
    } else {
        // "Adam7(Adam7Info { pass: 1, line: 0, width: 4 })" -> the leading 7 of "Adam7" twice
        let n: Vec<u64> = nums.into_iter().skip(2).collect();
        format!("a{}:{}:{}", n.first().copied().unwrap_or(0), n.get(1).copied().unwrap_or(0), n.get(2).copied().unwrap_or(0))
    }
}

fn ii_width(ii: &png::InterlaceInfo, subframe_width: u32) -> u32 {
    let d = format!("{:?}", ii);
    if d.starts_with("Null") {
        subframe_width
    } else {
        let nums: Vec<u64> = d.split(|c: char| !c.is_ascii_digit()).filter(|s| !s.is_empty()).filter_map(|s| s.parse().ok()).collect();
        nums.get(4).copied().unwrap_or(0) as u32
    }
}

/// calls whose caller-side buffer (or the canvas-wide row) would exceed this are not made (`toolarge`), on both sides
pub const MAX_BUF: usize = 1 << 22;

#[derive(Clone)]
pub struct Config {
    pub opts: [bool; 5],
    pub limit: Option<usize>,
    /// bit0 EXPAND, bit1 STRIP_16, bit2 ALPHA
    pub flags: u8,
    /// install `opts` through the public setters of `Decoder` (`ignore_checksums`, `set_ignore_text_chunk`,
    /// `set_ignore_iccp_chunk`) on a `Decoder::new(..)` instead of `Decoder::new_with_options`; only honoured when
    /// `setters_representable(opts)`.  The model line is the same either way.
    pub via_setters: bool,
}

impl Default for Config {
    fn default() -> Self {
        Config { opts: DEFAULT_OPTS, limit: None, flags: 0, via_setters: false }
    }
}

pub fn transformations(flags: u8) -> png::Transformations {
    let mut t = png::Transformations::IDENTITY;
    if flags & 1 != 0 {
        t |= png::Transformations::EXPAND;
    }
    if flags & 2 != 0 {
        t |= png::Transformations::STRIP_16;
    }
    if flags & 4 != 0 {
        t |= png::Transformations::ALPHA;
    }
    t
}

enum Stage {
    Dec(png::Decoder<PieceReader>),
    Rdr(png::Reader<PieceReader>),
    Dead,
}

pub struct Trace {
    pub tokens: Vec<String>,
    pub tail: String,
    pub panicked: bool,
    /// per token: the text of the error the call returned ("" if none) - for classifying violations, never compared with the model
    pub err_texts: Vec<String>,
}

thread_local! {
    static ERR_TEXTS: std::cell::RefCell<Vec<String>> = std::cell::RefCell::new(vec![]);
}

impl Trace {
    pub fn text(&self) -> String {
        format!("{} | {}", self.tokens.join(" "), self.tail)
    }
}

/// Execute `ops`; `visible0` bytes of `file` exist at the start.
pub fn run_ops(file: &[u8], visible0: usize, ops: &[Op], cfg: &Config) -> Trace {
    run_ops_cuts(file, visible0, ops, cfg, &[])
}

/// the same with the input handed out in pieces that end at the given cut offsets
pub fn run_ops_cuts(file: &[u8], visible0: usize, ops: &[Op], cfg: &Config, cuts: &[usize]) -> Trace {
    let rd = PieceReader::new(file.to_vec(), cuts.to_vec());
    let visible = rd.visible.clone();
    visible.store(visible0.min(file.len()), Ordering::SeqCst);
    let mut dec = if cfg.via_setters && setters_representable(&cfg.opts) {
        let mut d = png::Decoder::new(rd);
        apply_decoder_setters(&mut d, &cfg.opts);
        d
    } else {
        png::Decoder::new_with_options(rd, decode_options(&cfg.opts))
    };
    // `new_with_options` installs the default limits
    // `None` = the default limits (64 MiB) that `new_with_options` installs
    if let Some(l) = cfg.limit {
        dec.set_limits(png::Limits { bytes: l });
    }
    dec.set_transformations(transformations(cfg.flags));
    let mut stage = Stage::Dec(dec);
    let mut tokens = vec![];
    let mut err_texts: Vec<String> = vec![];
    let mut panicked = false;
    // the caller's frame buffer survives a next_frame that ran out of input: the retried call gets the same buffer
    let pending: std::cell::RefCell<Option<Vec<u8>>> = std::cell::RefCell::new(None);
    for op in ops {
        if let Op::Grow(n) = op {
            let v = visible.load(Ordering::SeqCst);
            visible.store((v + n).min(file.len()), Ordering::SeqCst);
            tokens.push("ok".to_string());
            err_texts.push(String::new());
            continue;
        }
        ERR_TEXTS.with(|t| t.borrow_mut().clear());
        let st = std::mem::replace(&mut stage, Stage::Dead);
        if !matches!(op, Op::NextFrame(_) | Op::ShortFrame(_)) {
            *pending.borrow_mut() = None;
        }
        let pending_ref = &pending;
        let r = guarded(move || -> (Stage, String) {
            match (st, op) {
                (Stage::Dec(mut d), Op::ReadHeader) => {
                    let t = match d.read_header_info() {
                        Ok(_) => "hdr".to_string(),
                        Err(e) => format!("err({})", err_short(&e)),
                    };
                    (Stage::Dec(d), t)
                }
                (Stage::Dec(d), Op::ReadInfo) => match d.read_info() {
                    Ok(r) => (Stage::Rdr(r), "hdr".to_string()),
                    Err(e) => (Stage::Dead, format!("err({})", err_short(&e))),
                },
                (Stage::Rdr(mut r), op) => {
                    let t = match op {
                        Op::NextFrame(p) => {
                            let size = r.output_buffer_size();
                            if size > MAX_BUF {
                                "toolarge".to_string()
                            } else {
                                let mut buf = match pending_ref.borrow_mut().take() {
                                    Some(b) if b.len() == size => b,
                                    _ => vec![*p; size],
                                };
                                match r.next_frame(&mut buf) {
                                    Ok(oi) => format!("frame({},{},{},{},{},{})", oi.width, oi.height, oi.color_type as u8, oi.bit_depth as u8, oi.line_size, dig(&buf)),
                                    Err(e) => {
                                        if err_short(&e) == "eof" {
                                            *pending_ref.borrow_mut() = Some(buf);
                                        }
                                        format!("err({})", err_short(&e))
                                    }
                                }
                            }
                        }
                        Op::ShortFrame(k) => {
                            let size = r.output_buffer_size();
                            let n = match k { 0 => 0, 1 => 1usize.min(size.saturating_sub(1)), _ => size.saturating_sub(1) };
                            if n > MAX_BUF {
                                "toolarge".to_string()
                            } else {
                                let mut buf = vec![0xEEu8; n];
                                match r.next_frame(&mut buf) {
                                    // a frame cannot fit: any success is reported as such (the oracle of the callers rejects it)
                                    Ok(oi) => format!("shortframe-accepted({},{},{})", oi.width, oi.height, n),
                                    Err(e) => {
                                        if buf.iter().any(|&b| b != 0xEE) {
                                            "shortframe-written".to_string()
                                        } else {
                                            format!("err({})", err_short(&e))
                                        }
                                    }
                                }
                            }
                        }
                        Op::NextRow if r.output_line_size(r.info().width) > MAX_BUF => "toolarge".to_string(),
                        Op::NextRow => match r.next_interlaced_row() {
                            Ok(Some(row)) => format!("row({},{})", ii_str(row.interlace()), dig(row.data())),
                            Ok(None) => "none".to_string(),
                            Err(e) => format!("err({})", err_short(&e)),
                        },
                        Op::ReadRow => {
                            let w = r.info().width;
                            let n = r.output_line_size(w);
                            if n > MAX_BUF {
                                "toolarge".to_string()
                            } else {
                                let mut buf = vec![0u8; n];
                                let sw = r.info().frame_control.map(|f| f.width).unwrap_or(w);
                                match r.read_row(&mut buf) {
                                    Ok(Some(ii)) => {
                                        let ols = r.output_line_size(ii_width(&ii, sw));
                                        format!("row({},{})", ii_str(&ii), dig(&buf[..ols.min(buf.len())]))
                                    }
                                    Ok(None) => "none".to_string(),
                                    Err(e) => format!("err({})", err_short(&e)),
                                }
                            }
                        }
                        Op::NextFrameInfo => match r.next_frame_info() {
                            Ok(fc) => format!("fc({},{},{},{},{})", fc.sequence_number, fc.width, fc.height, fc.x_offset, fc.y_offset),
                            Err(e) => format!("err({})", err_short(&e)),
                        },
                        Op::Finish => match r.finish() {
                            Ok(()) => "ok".to_string(),
                            Err(e) => format!("err({})", err_short(&e)),
                        },
                        Op::ReadHeader | Op::ReadInfo => "err(parameter)".to_string(),
                        Op::Grow(_) => "ok".to_string(),
                    };
                    (Stage::Rdr(r), t)
                }
                (Stage::Dec(d), _) => (Stage::Dec(d), "err(parameter)".to_string()),
                (Stage::Dead, _) => (Stage::Dead, "err(parameter)".to_string()),
            }
        });
        match r {
            Ok((s, t)) => {
                stage = s;
                tokens.push(t);
                err_texts.push(ERR_TEXTS.with(|t| t.borrow_mut().drain(..).collect::<Vec<_>>().join("; ")));
            }
            Err(p) => {
                tokens.push(format!("PANIC({})", p));
                err_texts.push(String::new());
                panicked = true;
                break;
            }
        }
    }
    let tail = match &stage {
        Stage::Rdr(r) => {
            #[cfg(png_verif)]
            {
                let (rem, caf, fin, _) = r.verif_counters();
                format!("{} | rem={} caf={} fin={}", info_canon(r.info()), rem, caf as u8, fin as u8)
            }
            #[cfg(not(png_verif))]
            {
                format!("{} | nohooks", info_canon(r.info()))
            }
        }
        _ => "noreader".to_string(),
    };
    Trace { tokens, tail, panicked, err_texts }
}

fn err_short(e: &png::DecodingError) -> String {
    ERR_TEXTS.with(|t| t.borrow_mut().push(e.to_string()));
    match e {
        png::DecodingError::IoError(e) if e.kind() == std::io::ErrorKind::UnexpectedEof => "eof".into(),
        png::DecodingError::IoError(e) => format!("io:{:?}", e.kind()),
        png::DecodingError::Format(_) => "format".into(),
        png::DecodingError::Parameter(_) => "parameter".into(),
        png::DecodingError::LimitsExceeded => "limits".into(),
    }
}

/// model line for the same run
pub fn model_line(file: &[u8], visible0: usize, ops: &[Op], cfg: &Config) -> String {
    format!(
        "rdr run {} {} {} {} {} {}",
        opts_string(&cfg.opts),
        cfg.limit.map(|l| l.to_string()).unwrap_or("67108864".into()),
        cfg.flags,
        crate::util::hex(file),
        visible0,
        ops_string(ops)
    )
}

/// the weaker comparison for runs over a growing input: results of the calls other than end-of-input (and other than the
/// growth steps themselves), in order; one side may be ahead of the other at the end
pub fn agree_modulo_eof(model: &str, t: &Trace, ops: &[Op]) -> bool {
    let mt = match model.split_once(" | ") {
        Some((a, _)) => a,
        None => return false,
    };
    let strip = |toks: Vec<&str>| -> Vec<String> {
        toks.iter().enumerate().filter(|(i, x)| !matches!(ops.get(*i), Some(Op::Grow(_))) && **x != "err(eof)").map(|(_, x)| x.to_string()).collect()
    };
    if t.panicked || mt.contains("PANIC") {
        return false;
    }
    let a = strip(mt.split(' ').collect());
    let b = strip(t.tokens.iter().map(|x| x.as_str()).collect());
    let n = a.len().min(b.len());
    if a[..n] == b[..n] {
        return true;
    }
    // The eager model may be AHEAD: where the implementation's call runs out of input (its inflater is still holding bytes
    // back) the model's call already delivers the row or frame.  If the caller then abandons the frame (finish,
    // next_frame_info) instead of retrying, that row never shows up on the implementation's side.  From the first such
    // position on the two runs are two different instances of the inflater contract and are not compared any further.
    let mtoks: Vec<&str> = mt.split(' ').collect();
    for (i, tok) in t.tokens.iter().enumerate() {
        let m = match mtoks.get(i) {
            Some(m) => *m,
            None => return false,
        };
        if m != tok {
            if tok == "err(eof)" && (m.starts_with("row(") || m.starts_with("frame(")) {
                return true;
            }
            // BOTH sides ran out of input in an earlier call which the caller then did not repeat (it went on with a different
            // call): how far that interrupted call had got internally - how many rows it had already taken out of the inflater -
            // depends on how eagerly the inflater hands out bytes, so from there on the eager model and the real decoder are two
            // different instances of the inflater contract (the documented use is to repeat the SAME call; C05 checks that).
            for k in (0..i).rev() {
                if matches!(ops.get(k), Some(Op::Grow(_))) {
                    continue;
                }
                if t.tokens[k] == "err(eof)" && mtoks.get(k) == Some(&"err(eof)") {
                    let next = ops.iter().skip(k + 1).find(|o| !matches!(o, Op::Grow(_)));
                    let same = match (ops.get(k), next) {
                        (Some(a), Some(b)) => std::mem::discriminant(a) == std::mem::discriminant(b),
                        _ => false,
                    };
                    if !same {
                        return true;
                    }
                }
            }
            return false;
        }
    }
    false
}

/// compare a model answer with an implementation trace: tokens up to the first PANIC on either side, then
/// (if no panic) the reader counters; the Info part is compared only when the model kept a Reader.
pub fn agree(model: &str, t: &Trace) -> bool {
    let (mt, mtail) = match model.split_once(" | ") {
        Some(x) => x,
        None => return false,
    };
    let mtoks: Vec<&str> = mt.split(' ').collect();
    for (i, tok) in t.tokens.iter().enumerate() {
        let m = match mtoks.get(i) {
            Some(m) => *m,
            None => return false,
        };
        let (ip, mp) = (tok.starts_with("PANIC"), m.starts_with("PANIC"));
        if ip || mp {
            return ip && mp;
        }
        if m != tok {
            return false;
        }
    }
    if t.panicked {
        return true;
    }
    if mtoks.len() != t.tokens.len() {
        return false;
    }
    if t.tail == "noreader" {
        return true;
    }
    #[cfg(png_verif)]
    {
        mtail == t.tail
    }
    #[cfg(not(png_verif))]
    {
        let _ = mtail;
        true
    }
}
