//! splitmix64: every random choice of a run derives from one state seeded by (VERIF_SEED, property id).
#[derive(Clone)]
pub struct Rng(pub u64);

impl Rng {
    pub fn new(seed: u64, tag: &str) -> Rng {
        let mut h = seed ^ 0x9E3779B97F4A7C15;
        for b in tag.bytes() {
            h = (h ^ b as u64).wrapping_mul(0x100000001B3);
        }
        let mut r = Rng(h);
        r.next();
        r
    }
    pub fn fork(&mut self, k: u64) -> Rng {
        let mut r = Rng(self.next() ^ k.wrapping_mul(0xD6E8FEB86659FD93));
        r.next();
        r
    }
    pub fn next(&mut self) -> u64 {
        self.0 = self.0.wrapping_add(0x9E3779B97F4A7C15);
        let mut z = self.0;
        z = (z ^ (z >> 30)).wrapping_mul(0xBF58476D1CE4E5B9);
        z = (z ^ (z >> 27)).wrapping_mul(0x94D049BB133111EB);
        z ^ (z >> 31)
    }
    /// uniform in 0..n (n > 0)
    pub fn below(&mut self, n: u64) -> u64 {
        self.next() % n
    }
    pub fn range(&mut self, lo: u64, hi_incl: u64) -> u64 {
        lo + self.below(hi_incl - lo + 1)
    }
    pub fn usize(&mut self, lo: usize, hi_incl: usize) -> usize {
        self.range(lo as u64, hi_incl as u64) as usize
    }
    pub fn bool(&mut self) -> bool {
        self.next() & 1 == 1
    }
    pub fn chance(&mut self, num: u64, den: u64) -> bool {
        self.below(den) < num
    }
    pub fn byte(&mut self) -> u8 {
        self.next() as u8
    }
    pub fn pick<'a, T>(&mut self, xs: &'a [T]) -> &'a T {
        &xs[self.below(xs.len() as u64) as usize]
    }
    pub fn bytes(&mut self, n: usize) -> Vec<u8> {
        let mut v = Vec::with_capacity(n);
        while v.len() < n {
            let x = self.next().to_le_bytes();
            let k = (n - v.len()).min(8);
            v.extend_from_slice(&x[..k]);
        }
        v
    }
    pub fn bytes_between(&mut self, lo: usize, hi_incl: usize) -> Vec<u8> {
        let n = self.usize(lo, hi_incl);
        self.bytes(n)
    }
    /// bytes of a chosen "class": random, constant runs, tie-rich small alphabet
    pub fn class_bytes(&mut self, n: usize) -> Vec<u8> {
        match self.below(6) {
            0 => self.bytes(n),
            1 => vec![*self.pick(&[0u8, 0xFF, 0x7F, 0x80, 1]); n],
            2 => {
                let alpha = [0u8, 1, 2, 0x7F, 0x80, 0x81, 0xFE, 0xFF];
                (0..n).map(|_| *self.pick(&alpha)).collect()
            }
            3 => {
                let base = self.byte();
                (0..n).map(|i| base.wrapping_add((i as u8).wrapping_mul(3))).collect()
            }
            4 => {
                let a = self.byte();
                let b = self.byte();
                (0..n).map(|_| if self.chance(1, 8) { b } else { a }).collect()
            }
            _ => {
                let period = self.usize(1, 9);
                let pat = self.bytes(period);
                (0..n).map(|i| pat[i % period]).collect()
            }
        }
    }
    pub fn shuffle<T>(&mut self, xs: &mut [T]) {
        for i in (1..xs.len()).rev() {
            let j = self.below(i as u64 + 1) as usize;
            xs.swap(i, j);
        }
    }
}

pub fn fnv64(data: &[u8]) -> u64 {
    let mut h = 0xcbf29ce484222325u64;
    for &b in data {
        h = (h ^ b as u64).wrapping_mul(0x100000001B3);
    }
    h
}
