//! BufRead + Seek wrappers with scheduled delivery and step counters.
use std::io::{BufRead, Read, Seek, SeekFrom};
use std::sync::atomic::{AtomicUsize, Ordering};
use std::sync::Arc;

pub const SPIN_LIMIT: usize = 20_000;

#[derive(Default)]
pub struct Counters {
    pub fill_buf: AtomicUsize,
    pub consume: AtomicUsize,
    pub zero_consume_run: AtomicUsize,
    pub max_zero_consume_run: AtomicUsize,
    pub bytes: AtomicUsize,
    /// `fill_buf` calls answered with `WouldBlock` (see `PieceReader::block_at`)
    pub blocked_polls: AtomicUsize,
}

/// Hands out the data in pieces ending at the scheduled cut offsets; `visible` is how much of the
/// data exists so far (end-of-input beyond it), shared so that a test can grow it between calls.
pub struct PieceReader {
    pub data: Arc<Vec<u8>>,
    pub pos: usize,
    /// sorted cut offsets; a piece never crosses a cut
    pub cuts: Arc<Vec<usize>>,
    pub visible: Arc<AtomicUsize>,
    pub counters: Arc<Counters>,
    /// a source that is not ready: from this offset on every `fill_buf` answers `ErrorKind::WouldBlock` (usize::MAX = never)
    pub block_at: usize,
}

impl PieceReader {
    pub fn new(data: Vec<u8>, cuts: Vec<usize>) -> PieceReader {
        let n = data.len();
        PieceReader { data: Arc::new(data), pos: 0, cuts: Arc::new(cuts), visible: Arc::new(AtomicUsize::new(n)), counters: Arc::new(Counters::default()), block_at: usize::MAX }
    }
    fn piece_end(&self) -> usize {
        let vis = self.visible.load(Ordering::SeqCst).min(self.data.len());
        let mut end = vis;
        // first cut strictly greater than pos
        let i = self.cuts.partition_point(|&c| c <= self.pos);
        if i < self.cuts.len() {
            end = end.min(self.cuts[i]);
        }
        end.max(self.pos.min(vis))
    }
}

impl Read for PieceReader {
    fn read(&mut self, buf: &mut [u8]) -> std::io::Result<usize> {
        let avail = self.fill_buf()?;
        let n = avail.len().min(buf.len());
        buf[..n].copy_from_slice(&avail[..n]);
        self.consume(n);
        Ok(n)
    }
}

impl BufRead for PieceReader {
    fn fill_buf(&mut self) -> std::io::Result<&[u8]> {
        self.counters.fill_buf.fetch_add(1, Ordering::Relaxed);
        // a caller that keeps asking without consuming is spinning: break its loop so that the case can be reported
        if self.counters.zero_consume_run.load(Ordering::Relaxed) > SPIN_LIMIT {
            return Err(std::io::Error::new(std::io::ErrorKind::Other, "spin detected by the harness"));
        }
        if self.pos >= self.block_at {
            let n = self.counters.blocked_polls.fetch_add(1, Ordering::Relaxed) + 1;
            if n > SPIN_LIMIT {
                return Err(std::io::Error::new(std::io::ErrorKind::Other, "spin detected by the harness (source not ready)"));
            }
            return Err(std::io::Error::new(std::io::ErrorKind::WouldBlock, "source not ready"));
        }
        let end = self.piece_end().min(self.block_at);
        let start = self.pos.min(end);
        Ok(&self.data[start..end])
    }
    fn consume(&mut self, amt: usize) {
        self.counters.consume.fetch_add(1, Ordering::Relaxed);
        self.counters.bytes.fetch_add(amt, Ordering::Relaxed);
        if amt == 0 {
            let r = self.counters.zero_consume_run.fetch_add(1, Ordering::Relaxed) + 1;
            self.counters.max_zero_consume_run.fetch_max(r, Ordering::Relaxed);
        } else {
            self.counters.zero_consume_run.store(0, Ordering::Relaxed);
        }
        self.pos += amt;
    }
}

impl Seek for PieceReader {
    fn seek(&mut self, p: SeekFrom) -> std::io::Result<u64> {
        let new = match p {
            SeekFrom::Start(o) => o as i64,
            SeekFrom::Current(o) => self.pos as i64 + o,
            SeekFrom::End(o) => self.data.len() as i64 + o,
        };
        if new < 0 {
            return Err(std::io::Error::new(std::io::ErrorKind::InvalidInput, "seek before start"));
        }
        self.pos = new as usize;
        Ok(self.pos as u64)
    }
}
