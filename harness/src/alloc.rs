//! Counting global allocator: live and peak heap bytes of the harness process.
use std::alloc::{GlobalAlloc, Layout, System};
use std::sync::atomic::{AtomicUsize, Ordering};

pub struct Counting;

static LIVE: AtomicUsize = AtomicUsize::new(0);
static PEAK: AtomicUsize = AtomicUsize::new(0);

unsafe impl GlobalAlloc for Counting {
    unsafe fn alloc(&self, l: Layout) -> *mut u8 {
        let p = System.alloc(l);
        if !p.is_null() {
            let now = LIVE.fetch_add(l.size(), Ordering::Relaxed) + l.size();
            PEAK.fetch_max(now, Ordering::Relaxed);
        }
        p
    }
    unsafe fn dealloc(&self, p: *mut u8, l: Layout) {
        System.dealloc(p, l);
        LIVE.fetch_sub(l.size(), Ordering::Relaxed);
    }
    unsafe fn alloc_zeroed(&self, l: Layout) -> *mut u8 {
        let p = System.alloc_zeroed(l);
        if !p.is_null() {
            let now = LIVE.fetch_add(l.size(), Ordering::Relaxed) + l.size();
            PEAK.fetch_max(now, Ordering::Relaxed);
        }
        p
    }
    unsafe fn realloc(&self, p: *mut u8, l: Layout, new_size: usize) -> *mut u8 {
        let q = System.realloc(p, l, new_size);
        if !q.is_null() {
            if new_size >= l.size() {
                let now = LIVE.fetch_add(new_size - l.size(), Ordering::Relaxed) + (new_size - l.size());
                PEAK.fetch_max(now, Ordering::Relaxed);
            } else {
                LIVE.fetch_sub(l.size() - new_size, Ordering::Relaxed);
            }
        }
        q
    }
}

pub fn live() -> usize {
    LIVE.load(Ordering::Relaxed)
}
/// start a measurement: peak := live; returns the baseline
pub fn begin() -> usize {
    let l = LIVE.load(Ordering::Relaxed);
    PEAK.store(l, Ordering::Relaxed);
    l
}
/// peak live bytes above the baseline since `begin`
pub fn peak_above(base: usize) -> usize {
    PEAK.load(Ordering::Relaxed).saturating_sub(base)
}
