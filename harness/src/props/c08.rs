//! C08 — output transformations compute exactly the documented pixel conversion.
//!
//! Tie B for `PngVerif/Model/Transform.lean`:
//!  * row level (hook `png::verif_hooks::create_transform_fn`): the transform selected for
//!    (colour type, bit depth, PLTE, tRNS, flag set) applied to a row of the right length and an
//!    output buffer of the right length (pre-filled with 0x5a), compared with
//!    (a) `ref_convert`, an independent index-based reference of the documented rules (oracle) and
//!    (b) the model's `transformRow` / `specConvert` / `outputColorType` / `outputLineSize` (driver);
//!  * malformed stream: PLTE lengths that are not a multiple of 3 or exceed 768 bytes, with tRNS
//!    shorter / equal / longer than the number of usable entries and every index value.  They are
//!    checked against oracle and model like everything else (documented reading: the palette
//!    entries are the whole 3-byte entries, at most 256 of them).  On the pinned tree a1124db
//!    `create_rgba_palette` panicked here under EXPAND/ALPHA (defect D1, repaired in /repo commit
//!    c0a00c7); a panic would be reported again as oracle violation `palette-length/panic`;
//!  * buffers of other sizes (model domain only): rows and output buffers whose lengths are not the
//!    advertised ones; asserts, slice panics and partial writes must be the model's, byte for byte;
//!  * whole files (public API only): files of `/repo/tests/pngsuite` decoded with `next_frame` and
//!    with `next_row` under all 8 flag sets; `output_color_type` / `output_line_size` /
//!    `output_buffer_size` / `OutputInfo` against the documented rules and the bytes against
//!    `ref_convert` (and the model) applied to the identity decode of the same file; `Info.trns` /
//!    `Info.palette` against the raw chunks of the file (and the model's `parseTrns`).
use crate::json::J;
use crate::model;
use crate::report::Ctx;
use crate::rng::{fnv64, Rng};
use crate::util::{guarded, hex, unhex};

pub const PAIRS: [(u8, u8); 15] = [
    (0, 1), (0, 2), (0, 4), (0, 8), (0, 16), (2, 8), (2, 16), (3, 1), (3, 2), (3, 4), (3, 8), (4, 8), (4, 16),
    (6, 8), (6, 16),
];

fn nsamples(color: u8) -> usize {
    match color {
        0 | 3 => 1,
        2 => 3,
        4 => 2,
        _ => 4,
    }
}

#[derive(Clone, Debug)]
pub struct Case {
    pub color: u8,
    pub depth: u8,
    /// bit0 EXPAND, bit1 STRIP_16, bit2 ALPHA
    pub flags: u8,
    pub width: usize,
    pub plte: Option<Vec<u8>>,
    /// as stored in `Info.trns` (after `parse_trns`)
    pub trns: Option<Vec<u8>>,
    pub row: Vec<u8>,
}

fn opt_hex(v: &Option<Vec<u8>>) -> String {
    match v {
        None => "none".to_string(),
        Some(b) => hex(b),
    }
}

fn opt_unhex(s: &str) -> Option<Option<Vec<u8>>> {
    if s == "none" {
        Some(None)
    } else {
        unhex(s).map(Some)
    }
}

impl Case {
    fn line(&self) -> String {
        format!(
            "c08 row {} {} {} {} {} {} {}",
            self.color,
            self.depth,
            self.flags,
            self.width,
            opt_hex(&self.plte),
            opt_hex(&self.trns),
            hex(&self.row)
        )
    }
    fn json(&self) -> J {
        J::obj()
            .set("op", J::s("row"))
            .set("color", J::i(self.color))
            .set("depth", J::i(self.depth))
            .set("flags", J::i(self.flags))
            .set("width", J::i(self.width as u64))
            .set("plte", J::s(&opt_hex(&self.plte)))
            .set("trns", J::s(&opt_hex(&self.trns)))
            .set("row", J::s(&hex(&self.row)))
    }
    fn from_json(j: &J) -> Option<Case> {
        Some(Case {
            color: j.get("color")?.as_i64()? as u8,
            depth: j.get("depth")?.as_i64()? as u8,
            flags: j.get("flags")?.as_i64()? as u8,
            width: j.get("width")?.as_i64()? as usize,
            plte: opt_unhex(j.get("plte")?.as_str()?)?,
            trns: opt_unhex(j.get("trns")?.as_str()?)?,
            row: unhex(j.get("row")?.as_str()?)?,
        })
    }
    fn key(&self) -> u64 {
        fnv64(self.line().as_bytes())
    }
    fn expand(&self) -> bool {
        self.flags & 5 != 0
    }
    /// non-trivial: some transformation is requested, or the row has at least two pixels
    fn nontrivial(&self) -> bool {
        self.flags != 0 || self.width >= 2
    }
    fn palette_malformed(&self) -> bool {
        match &self.plte {
            Some(p) => p.len() % 3 != 0 || p.len() > 768,
            None => false,
        }
    }
    fn plte_class(&self) -> String {
        match &self.plte {
            None => "none".into(),
            Some(p) if p.len() % 3 != 0 => "bytes%3!=0".into(),
            Some(p) if p.len() > 768 => ">256 entries".into(),
            Some(p) => match p.len() / 3 {
                0 => "0".into(),
                1 => "1".into(),
                2 => "2".into(),
                3..=4 => "3-4".into(),
                5..=15 => "5-15".into(),
                16 => "16".into(),
                17..=254 => "17-254".into(),
                255 => "255".into(),
                _ => "256".into(),
            },
        }
    }
    fn trns_class(&self) -> String {
        match (&self.trns, self.color) {
            (None, _) => "absent".into(),
            (Some(t), 3) => {
                let n = self.plte.as_ref().map(|p| (p.len() / 3).min(256)).unwrap_or(0);
                if t.len() < n {
                    "indexed/shorter".into()
                } else if t.len() == n {
                    "indexed/equal".into()
                } else {
                    "indexed/longer".into()
                }
            }
            (Some(t), _) => {
                let ch = nsamples(self.color);
                let occurs = (0..self.width).any(|x| {
                    let px: Vec<u32> = (0..ch).map(|k| sample_at(&self.row, self.depth, x * ch + k)).collect();
                    key_samples(t, self.depth, ch).as_ref() == Some(&px)
                });
                if occurs {
                    "key/occurs".into()
                } else {
                    "key/absent-from-row".into()
                }
            }
        }
    }
}

// ---------------------------------------------------------------------------------------------
// independent reference of the documented rules (oracle)

/// documented output colour type and bit depth
pub fn ref_out_type(color: u8, depth: u8, flags: u8, has_trns: bool) -> (u8, u8) {
    let expand = flags & 5 != 0;
    let alpha = has_trns || flags & 4 != 0;
    let (mut c, mut d) = (color, depth);
    if expand {
        c = match color {
            3 => {
                if alpha {
                    6
                } else {
                    2
                }
            }
            0 if alpha => 4,
            2 if alpha => 6,
            other => other,
        };
        if depth < 8 {
            d = 8;
        }
    }
    if d == 16 && flags & 2 != 0 {
        d = 8;
    }
    (c, d)
}

/// bytes of one row: samples packed without gaps, padded to a byte
pub fn ref_line_size(color: u8, depth: u8, width: usize) -> usize {
    (width * nsamples(color) * depth as usize + 7) / 8
}

/// sample number `s` of a row (sub-byte samples MSB first, 16-bit big-endian)
fn sample_at(row: &[u8], depth: u8, s: usize) -> u32 {
    match depth {
        16 => ((row[2 * s] as u32) << 8) | row[2 * s + 1] as u32,
        8 => row[s] as u32,
        d => {
            let bit = s * d as usize;
            let shift = 8 - d as usize - bit % 8;
            ((row[bit / 8] as u32) >> shift) & ((1u32 << d) - 1)
        }
    }
}

/// colour key as sample values (None: not a well-formed key, never matches)
fn key_samples(t: &[u8], depth: u8, ch: usize) -> Option<Vec<u32>> {
    if depth == 16 {
        if t.len() != 2 * ch {
            return None;
        }
        Some((0..ch).map(|k| ((t[2 * k] as u32) << 8) | t[2 * k + 1] as u32).collect())
    } else {
        if t.len() != ch {
            return None;
        }
        Some(t.iter().map(|&b| b as u32).collect())
    }
}

/// The documented conversion of one identity-decoded row.  `None`: no output is defined (indexed
/// image without a palette under EXPAND: `PaletteRequired`).
pub fn ref_convert(c: &Case) -> Option<Vec<u8>> {
    let expand = c.expand();
    let alpha = c.trns.is_some() || c.flags & 4 != 0;
    let strip = c.flags & 2 != 0;
    if c.depth < 8 && !expand {
        return Some(c.row.clone());
    }
    let ch = nsamples(c.color);
    let mut out = Vec::new();
    for x in 0..c.width {
        let px: Vec<u32> = (0..ch).map(|k| sample_at(&c.row, c.depth, x * ch + k)).collect();
        let mut d = c.depth;
        let mut o = px.clone();
        if expand {
            match c.color {
                3 => {
                    let pal = c.plte.as_ref()?;
                    let i = px[0] as usize;
                    // whole entries only, at most 256 of them
                    let entries = (pal.len() / 3).min(256);
                    o = if i < entries {
                        vec![pal[3 * i] as u32, pal[3 * i + 1] as u32, pal[3 * i + 2] as u32]
                    } else {
                        vec![0, 0, 0]
                    };
                    if alpha {
                        let a = match &c.trns {
                            Some(t) if t.len() <= entries && i < t.len() => t[i] as u32,
                            _ => 255,
                        };
                        o.push(a);
                    }
                    d = 8;
                }
                0 | 2 => {
                    if c.depth < 8 {
                        o = vec![px[0] * (255 / ((1u32 << c.depth) - 1))];
                        d = 8;
                    }
                    if alpha {
                        let is_key = match &c.trns {
                            Some(t) => key_samples(t, c.depth, ch).as_ref() == Some(&px),
                            None => false,
                        };
                        o.push(if is_key { 0 } else { (1u32 << d) - 1 });
                    }
                }
                _ => {}
            }
        }
        if d == 16 && strip {
            o = o.iter().map(|v| v >> 8).collect();
            d = 8;
        }
        for v in o {
            if d == 16 {
                out.push((v >> 8) as u8);
            }
            out.push(v as u8);
        }
    }
    Some(out)
}

// ---------------------------------------------------------------------------------------------
// implementation

pub enum ImplOut {
    Ok(Vec<u8>),
    Err(String),
    Panic(String),
}

#[cfg(png_verif)]
fn impl_answer(c: &Case, out_len: usize) -> ImplOut {
    let c = c.clone();
    let r = guarded(move || {
        let mut info = png::Info::default();
        info.width = c.width as u32;
        info.height = 1;
        info.color_type = png::ColorType::from_u8(c.color).unwrap();
        info.bit_depth = png::BitDepth::from_u8(c.depth).unwrap();
        info.palette = c.plte.clone().map(std::borrow::Cow::Owned);
        info.trns = c.trns.clone().map(std::borrow::Cow::Owned);
        match png::verif_hooks::create_transform_fn(&info, tf(c.flags)) {
            Err(e) => Err(e.to_string()),
            Ok(f) => {
                let mut out = vec![0x5au8; out_len];
                f(&c.row, &mut out, &info);
                Ok(out)
            }
        }
    });
    match r {
        Err(p) => ImplOut::Panic(p),
        Ok(Err(e)) => ImplOut::Err(e),
        Ok(Ok(v)) => ImplOut::Ok(v),
    }
}

fn err_class(msg: &str) -> &'static str {
    if msg.contains("Missing palette") {
        "err:PaletteRequired"
    } else if msg.contains("Invalid color/depth") {
        "err:InvalidColorBitDepth"
    } else {
        "err:other"
    }
}

fn first_diff(a: &[u8], b: &[u8]) -> usize {
    a.iter().zip(b).position(|(x, y)| x != y).unwrap_or(a.len().min(b.len()))
}

type Finding = (&'static str, String, String);

/// Compare one case: implementation vs oracle, implementation vs model.
#[cfg(png_verif)]
fn judge(c: &Case, model_ans: &str) -> Vec<Finding> {
    let mut v = Vec::new();
    let (oc, od) = ref_out_type(c.color, c.depth, c.flags, c.trns.is_some());
    let ls = ref_line_size(oc, od, c.width);
    let want = ref_convert(c);
    let tag = format!("c{}d{}f{}", c.color, c.depth, c.flags);
    let toks: Vec<&str> = model_ans.split(' ').collect();
    match impl_answer(c, ls) {
        ImplOut::Panic(p) => {
            if c.color == 3 && c.expand() && c.palette_malformed() {
                v.push((
                    "oracle",
                    "palette-length/panic".to_string(),
                    format!(
                        "indexed image, depth {}, PLTE of {} bytes, transformations {:#x}: building the row transform panicked: {}",
                        c.depth,
                        c.plte.as_ref().map(|p| p.len()).unwrap_or(0),
                        c.flags,
                        p
                    ),
                ));
            } else {
                v.push(("oracle", format!("panic/{}", tag), format!("row transform panicked: {}", p)));
            }
            if model_ans != "panic" {
                v.push(("model", format!("panic/{}", tag), format!("implementation panicked, model answered {:?}", model_ans)));
            }
        }
        ImplOut::Err(e) => {
            let cls = err_class(&e);
            if want.is_some() {
                v.push(("oracle", format!("error/{}", tag), format!("a defined conversion was refused: {}", e)));
            }
            if model_ans != cls {
                v.push(("model", format!("error/{}", tag), format!("implementation: {} ({}), model: {:?}", cls, e, model_ans)));
            }
        }
        ImplOut::Ok(out) => {
            match &want {
                None => v.push(("oracle", format!("no-error/{}", tag), "indexed image without palette was expanded".into())),
                Some(w) => {
                    if w.len() != ls {
                        v.push(("oracle", format!("size/{}", tag), format!("documented conversion has {} bytes, documented line size is {}", w.len(), ls)));
                    } else if &out != w {
                        v.push((
                            "oracle",
                            format!("convert/{}", tag),
                            format!(
                                "colour {} depth {} flags {:#x} width {}: output differs from the documented conversion at byte {} (got {:02x?}, want {:02x?})",
                                c.color, c.depth, c.flags, c.width,
                                first_diff(&out, w),
                                out.get(first_diff(&out, w)),
                                w.get(first_diff(&out, w))
                            ),
                        ));
                    }
                }
            }
            if toks.len() != 5 {
                v.push(("model", format!("answer/{}", tag), format!("implementation produced a row, model answered {:?}", model_ans)));
            } else {
                if toks[0] != oc.to_string() || toks[1] != od.to_string() || toks[2] != ls.to_string() {
                    v.push((
                        "model",
                        format!("sizes/{}", tag),
                        format!("model output type {} {} line {}, documented {} {} line {}", toks[0], toks[1], toks[2], oc, od, ls),
                    ));
                }
                if toks[3] != hex(&out) {
                    v.push(("model", format!("convert/{}", tag), "transformRow (model) differs from the row transform".into()));
                }
                if toks[3] != toks[4] {
                    v.push(("model", format!("spec/{}", tag), "model: transformRow differs from specConvert".into()));
                }
            }
        }
    }
    v
}

#[cfg(png_verif)]
fn still_fails(c: &Case, class: &str) -> bool {
    let ans = model::ask_one(&[c.line()]);
    judge(c, &ans[0]).iter().any(|(_, k, _)| k == class)
}

#[cfg(png_verif)]
fn with_width(c: &Case, w: usize) -> Case {
    let mut t = c.clone();
    t.width = w;
    t.row.truncate(ref_line_size(c.color, c.depth, w));
    t
}

/// shrink the width, then the palette, then zero row bytes
#[cfg(png_verif)]
fn shrink(c: &Case, class: &str) -> Case {
    let mut best = c.clone();
    let mut budget = 60;
    loop {
        let mut progressed = false;
        for w in [1, best.width / 2, best.width.saturating_sub(1)] {
            if w == 0 || w >= best.width || budget == 0 {
                continue;
            }
            budget -= 1;
            let t = with_width(&best, w);
            if still_fails(&t, class) {
                best = t;
                progressed = true;
                break;
            }
        }
        if !progressed {
            break;
        }
    }
    if let Some(p) = best.plte.clone() {
        for n in [p.len() % 3 + 3, p.len() % 3, p.len() / 2, p.len().saturating_sub(3)] {
            if n >= best.plte.as_ref().map(|p| p.len()).unwrap_or(0) || budget == 0 {
                continue;
            }
            budget -= 1;
            let mut t = best.clone();
            t.plte = Some(p[..n].to_vec());
            if still_fails(&t, class) {
                best = t;
            }
        }
    }
    for i in 0..best.row.len().min(16) {
        if budget == 0 {
            break;
        }
        if best.row[i] != 0 {
            let mut t = best.clone();
            t.row[i] = 0;
            budget -= 1;
            if still_fails(&t, class) {
                best = t;
            }
        }
    }
    best
}

// ---------------------------------------------------------------------------------------------
// generators

fn raw_len(color: u8, depth: u8, width: usize) -> usize {
    ref_line_size(color, depth, width)
}

/// tRNS variants for a row: index 0 = absent
fn trns_variants(rng: &mut Rng, color: u8, depth: u8, width: usize, row: &[u8], plte: &Option<Vec<u8>>) -> Vec<Option<Vec<u8>>> {
    let mut v = vec![None];
    match color {
        3 => {
            let n = plte.as_ref().map(|p| p.len() / 3).unwrap_or(0);
            let shorter = if n > 0 { rng.usize(0, n - 1) } else { 0 };
            v.push(Some(rng.class_bytes(shorter)));
            v.push(Some(rng.class_bytes(n)));
            let extra = rng.usize(1, 3);
            v.push(Some(rng.class_bytes(n + extra)));
        }
        0 | 2 => {
            let ch = nsamples(color);
            let x = rng.usize(0, width - 1);
            // key equal to pixel x
            let px: Vec<u32> = (0..ch).map(|k| sample_at(row, depth, x * ch + k)).collect();
            let enc = |px: &[u32]| -> Vec<u8> {
                let mut t = Vec::new();
                for &s in px {
                    if depth == 16 {
                        t.push((s >> 8) as u8);
                    }
                    t.push(s as u8);
                }
                t
            };
            v.push(Some(enc(&px)));
            // key differing from pixel x in the low bits / low byte of one sample only
            let mut near = px.clone();
            let k = rng.usize(0, ch - 1);
            near[k] ^= 1;
            v.push(Some(enc(&near)));
            // for depth 16: same low byte, other high byte
            if depth == 16 {
                let mut far = px.clone();
                far[k] ^= 0x100;
                v.push(Some(enc(&far)));
            } else if depth < 8 {
                // a stored key byte beyond the sample range (high bits set) never matches
                v.push(Some(vec![px[0] as u8 | 0x80]));
            } else {
                v.push(Some(rng.bytes(ch)));
            }
        }
        _ => {}
    }
    v
}

fn palette_of(rng: &mut Rng, entries: usize) -> Vec<u8> {
    let mut p = rng.class_bytes(entries * 3);
    // make entries distinguishable in most classes
    if rng.bool() {
        for (i, b) in p.iter_mut().enumerate() {
            *b = b.wrapping_add((i as u8).wrapping_mul(7));
        }
    }
    p
}

fn gen_cases(ctx: &mut Ctx) -> Vec<Case> {
    let mut cases = Vec::new();
    let mut rng = ctx.rng.fork(8);
    let quick = ctx.quick();
    // (1) systematic: 15 pairs x 8 flag sets x widths x tRNS variants
    let mut widths: Vec<usize> = (1..=17).collect();
    widths.extend_from_slice(if quick { &[31, 32, 33, 64, 300] } else { &[23, 24, 25, 31, 32, 33, 63, 64, 65, 127, 128, 255, 256, 257, 300] });
    let spread = [1usize, 2, 3, 4, 15, 16, 17, 255, 256];
    for &(color, depth) in &PAIRS {
        for &width in &widths {
            let row = rng.class_bytes(raw_len(color, depth, width));
            let plte = if color == 3 {
                let n = if rng.bool() { *rng.pick(&spread) } else { rng.usize(1, 1usize << depth.min(8)) };
                Some(palette_of(&mut rng, n))
            } else {
                None
            };
            for trns in trns_variants(&mut rng, color, depth, width, &row, &plte) {
                for flags in 0..8u8 {
                    cases.push(Case { color, depth, flags, width, plte: plte.clone(), trns: trns.clone(), row: row.clone() });
                }
            }
        }
    }
    // (2) palettes of every length x tRNS absent/shorter/equal/longer, depth 8, every index value
    let all_idx: Vec<u8> = (0..=255u8).collect();
    let lens: Vec<usize> = if quick { vec![1, 2, 3, 4, 5, 15, 16, 17, 64, 127, 128, 200, 254, 255, 256] } else { (1..=256).collect() };
    for &n in &lens {
        let plte = Some(palette_of(&mut rng, n));
        for trns in trns_variants(&mut rng, 3, 8, 256, &all_idx, &plte) {
            for flags in [1u8, 4, 5, 7] {
                cases.push(Case { color: 3, depth: 8, flags, width: 256, plte: plte.clone(), trns: trns.clone(), row: all_idx.clone() });
            }
        }
        // sub-byte depths: every index value of the depth, palette possibly shorter or longer than 2^depth
        for depth in [1u8, 2, 4] {
            let values = 1usize << depth;
            let row: Vec<u8> = match depth {
                1 => vec![0b0101_0011],
                2 => vec![0b0001_1011, 0b1110_0100],
                _ => vec![0x01, 0x23, 0x45, 0x67, 0x89, 0xab, 0xcd, 0xef],
            };
            let width = row.len() * 8 / depth as usize;
            if n <= 2 * values || n >= 255 {
                for trns in trns_variants(&mut rng, 3, depth, width, &row, &plte) {
                    for flags in [1u8, 5] {
                        cases.push(Case { color: 3, depth, flags, width, plte: plte.clone(), trns: trns.clone(), row: row.clone() });
                    }
                }
            }
        }
    }
    // (3) every gray value per depth (16-bit: every high byte with several low bytes; all 65536 in thorough)
    for depth in [1u8, 2, 4, 8, 16] {
        let row: Vec<u8> = match depth {
            1 => vec![0b0110_1001],
            2 => vec![0b0001_1011],
            4 => vec![0x01, 0x23, 0x45, 0x67, 0x89, 0xab, 0xcd, 0xef],
            8 => all_idx.clone(),
            _ => {
                let lows: Vec<u8> = if quick { vec![0x00, 0x01, 0x7f, 0xff] } else { (0..=255u8).collect() };
                let mut r = Vec::new();
                for h in 0..=255u8 {
                    for &l in &lows {
                        r.push(h);
                        r.push(l);
                    }
                }
                r
            }
        };
        let width = row.len() * 8 / depth as usize;
        for trns in trns_variants(&mut rng, 0, depth, width, &row, &None) {
            for flags in 0..8u8 {
                cases.push(Case { color: 0, depth, flags, width, plte: None, trns: trns.clone(), row: row.clone() });
            }
        }
    }
    // (4) malformed PLTE lengths (not a multiple of 3, or more than 768 bytes), with and without EXPAND
    let bad_lens: Vec<usize> = if quick {
        vec![1, 2, 4, 5, 7, 47, 49, 766, 767, 769, 770, 771, 772, 774, 900]
    } else {
        let mut v: Vec<usize> = (1..=100).filter(|l| l % 3 != 0).collect();
        v.extend(760..=800);
        v.retain(|l| l % 3 != 0 || *l > 768);
        v.push(1023);
        v.push(1024);
        v.push(3000);
        v
    };
    for &l in &bad_lens {
        let entries = (l / 3).min(256);
        for depth in [1u8, 4, 8] {
            // depth 8: every index value; otherwise a short random row
            let (width, row) = if depth == 8 {
                (256, all_idx.clone())
            } else {
                let width = rng.usize(1, 9);
                (width, rng.class_bytes(raw_len(3, depth, width)))
            };
            let plte = Some(rng.class_bytes(l));
            let tl = rng.usize(0, 3);
            // tRNS: absent, short, as many as usable entries, one more (ignored), as many as l/3
            // (more than 256 when the PLTE is over-long: ignored)
            let mut tvars = vec![None, Some(rng.class_bytes(tl)), Some(rng.class_bytes(entries)), Some(rng.class_bytes(entries + 1))];
            if l / 3 > 256 {
                tvars.push(Some(rng.class_bytes(l / 3)));
            }
            for trns in tvars {
                for flags in [0u8, 1, 2, 4, 5] {
                    cases.push(Case { color: 3, depth, flags, width, plte: plte.clone(), trns: trns.clone(), row: row.clone() });
                }
            }
        }
    }
    // (5) indexed image without palette: PaletteRequired under EXPAND, copy otherwise
    for depth in [1u8, 2, 4, 8] {
        let width = rng.usize(1, 12);
        let row = rng.class_bytes(raw_len(3, depth, width));
        for flags in 0..8u8 {
            cases.push(Case { color: 3, depth, flags, width, plte: None, trns: None, row: row.clone() });
        }
    }
    // (6) random
    let n = ctx.n(6000, 150000);
    for _ in 0..n {
        let (color, depth) = *rng.pick(&PAIRS);
        let width = if rng.chance(1, 15) { rng.usize(18, 300) } else { rng.usize(1, 17) };
        let row = rng.class_bytes(raw_len(color, depth, width));
        let plte = if color == 3 {
            let n = if rng.chance(1, 3) { *rng.pick(&spread) } else { rng.usize(1, 256) };
            Some(palette_of(&mut rng, n))
        } else {
            None
        };
        let vars = trns_variants(&mut rng, color, depth, width, &row, &plte);
        let trns = rng.pick(&vars).clone();
        let flags = rng.below(8) as u8;
        cases.push(Case { color, depth, flags, width, plte, trns, row });
    }
    cases
}

// ---------------------------------------------------------------------------------------------
// buffers of other sizes (model domain only: the property does not constrain them)

/// The row functions applied to rows and output buffers whose lengths are *not* the advertised
/// ones: panics (asserts, slice bounds) and partial writes must be the model's, byte for byte.
#[cfg(png_verif)]
fn offsize_part(ctx: &mut Ctx) {
    let mut rng = ctx.rng.fork(80);
    let n = ctx.n(2500, 100000);
    let mut cases: Vec<(Case, Vec<u8>)> = Vec::new();
    for _ in 0..n {
        let (color, depth) = *rng.pick(&PAIRS);
        let width = rng.usize(1, 12);
        let flags = rng.below(8) as u8;
        let nominal_row = raw_len(color, depth, width);
        let row_len = match rng.below(4) {
            0 => nominal_row,
            1 => nominal_row + rng.usize(1, 3),
            2 => nominal_row.saturating_sub(rng.usize(1, 2)),
            _ => rng.usize(0, 2 * nominal_row + 2),
        };
        let row = rng.class_bytes(row_len);
        let entries = rng.usize(1, 20);
        let any_len = rng.usize(0, 70);
        let plte = if color != 3 {
            None
        } else if rng.chance(1, 4) {
            // any byte length, including lengths that are not a multiple of 3
            Some(rng.class_bytes(any_len))
        } else {
            Some(palette_of(&mut rng, entries))
        };
        let trns = match color {
            3 => {
                if rng.bool() {
                    let l = rng.usize(0, 22);
                    Some(rng.class_bytes(l))
                } else {
                    None
                }
            }
            0 | 2 => {
                if rng.bool() {
                    Some(rng.class_bytes(nsamples(color) * if depth == 16 { 2 } else { 1 }))
                } else {
                    None
                }
            }
            _ => None,
        };
        let (oc, od) = ref_out_type(color, depth, flags, trns.is_some());
        let nominal_out = ref_line_size(oc, od, width);
        let out_len = match rng.below(4) {
            0 => nominal_out,
            1 => nominal_out + rng.usize(1, 5),
            2 => nominal_out.saturating_sub(rng.usize(1, 4)),
            _ => rng.usize(0, 2 * nominal_out + 3),
        };
        let out = rng.bytes(out_len);
        cases.push((Case { color, depth, flags, width, plte, trns, row }, out));
    }
    let lines: Vec<String> = cases
        .iter()
        .map(|(c, out)| format!("c08 rowout {} {} {} {} {} {} {}", c.color, c.depth, c.flags, opt_hex(&c.plte), opt_hex(&c.trns), hex(&c.row), hex(out)))
        .collect();
    let answers = model::ask(&lines);
    for (((c, out), line), ans) in cases.iter().zip(&lines).zip(&answers) {
        ctx.rep.eval(true, fnv64(line.as_bytes()));
        ctx.rep.model_compared += 1;
        let got = {
            let c = c.clone();
            let mut out = out.clone();
            match guarded(move || {
                let mut info = png::Info::default();
                info.width = c.width as u32;
                info.height = 1;
                info.color_type = png::ColorType::from_u8(c.color).unwrap();
                info.bit_depth = png::BitDepth::from_u8(c.depth).unwrap();
                info.palette = c.plte.clone().map(std::borrow::Cow::Owned);
                info.trns = c.trns.clone().map(std::borrow::Cow::Owned);
                match png::verif_hooks::create_transform_fn(&info, tf(c.flags)) {
                    Err(e) => err_class(&e.to_string()).to_string(),
                    Ok(f) => {
                        f(&c.row, &mut out, &info);
                        hex(&out)
                    }
                }
            }) {
                Ok(s) => s,
                Err(_) => "panic".to_string(),
            }
        };
        let nominal = c.row.len() == raw_len(c.color, c.depth, c.width) && {
            let (oc, od) = ref_out_type(c.color, c.depth, c.flags, c.trns.is_some());
            out.len() == ref_line_size(oc, od, c.width)
        };
        ctx.rep.count("buffer sizes", if nominal { "advertised" } else if got == "panic" { "other/panic" } else { "other/ok" });
        if &got != ans {
            ctx.rep.violation(
                "model",
                &format!("offsize/c{}d{}f{}", c.color, c.depth, c.flags),
                &format!("row of {} bytes, buffer of {} bytes: implementation {:?}, model {:?}", c.row.len(), out.len(), &got[..got.len().min(40)], &ans[..ans.len().min(40)]),
                c.json().set("op", J::s("rowout")).set("out", J::s(&hex(out))),
            );
        }
    }
}

// ---------------------------------------------------------------------------------------------
// whole files through the public API

struct Decoded {
    color: u8,
    depth: u8,
    out_color: u8,
    out_depth: u8,
    line_size: usize,
    buffer_size: usize,
    info_line: usize,
    width: usize,
    height: usize,
    interlaced: bool,
    plte: Option<Vec<u8>>,
    trns: Option<Vec<u8>>,
    frame: Vec<u8>,
    rows: Vec<Vec<u8>>,
}

fn tf(flags: u8) -> png::Transformations {
    let mut t = png::Transformations::IDENTITY;
    if flags & 1 != 0 {
        t |= png::Transformations::EXPAND;
    }
    if flags & 2 != 0 {
        t |= png::Transformations::STRIP_16;
    }
    if flags & 4 != 0 {
        t |= png::Transformations::ALPHA;
    }
    t
}

/// frame path and row path of one file under one flag set
fn decode_file(bytes: &[u8], flags: u8) -> Result<Result<Decoded, String>, String> {
    guarded(|| -> Result<Decoded, String> {
        let mut d = png::Decoder::new(std::io::Cursor::new(bytes));
        d.set_transformations(tf(flags));
        let mut r = d.read_info().map_err(|e| e.to_string())?;
        let (oc, od) = r.output_color_type();
        let (width, height, color, depth, interlaced, plte, trns) = {
            let i = r.info();
            (
                i.width as usize,
                i.height as usize,
                i.color_type as u8,
                i.bit_depth as u8,
                i.interlaced,
                i.palette.as_ref().map(|p| p.to_vec()),
                i.trns.as_ref().map(|p| p.to_vec()),
            )
        };
        let line_size = r.output_line_size(width as u32);
        let buffer_size = r.output_buffer_size();
        let mut frame = vec![0u8; buffer_size];
        let oi = r.next_frame(&mut frame).map_err(|e| e.to_string())?;
        if oi.color_type as u8 != oc as u8 || oi.bit_depth as u8 != od as u8 || oi.width as usize != width || oi.height as usize != height {
            return Err("OutputInfo disagrees with output_color_type / header".into());
        }
        // row path on a second reader
        let mut d2 = png::Decoder::new(std::io::Cursor::new(bytes));
        d2.set_transformations(tf(flags));
        let mut r2 = d2.read_info().map_err(|e| e.to_string())?;
        let mut rows = Vec::new();
        while let Some(row) = r2.next_row().map_err(|e| e.to_string())? {
            rows.push(row.data().to_vec());
        }
        Ok(Decoded {
            color,
            depth,
            out_color: oc as u8,
            out_depth: od as u8,
            line_size,
            buffer_size,
            info_line: oi.line_size,
            width,
            height,
            interlaced,
            plte,
            trns,
            frame,
            rows,
        })
    })
}

/// raw bodies of the first PLTE and tRNS chunks of a PNG file (chunk walk written out here)
fn raw_chunks(bytes: &[u8]) -> (Option<Vec<u8>>, Option<Vec<u8>>) {
    let (mut plte, mut trns) = (None, None);
    let mut p = 8;
    while p + 12 <= bytes.len() {
        let len = u32::from_be_bytes([bytes[p], bytes[p + 1], bytes[p + 2], bytes[p + 3]]) as usize;
        let ty = &bytes[p + 4..p + 8];
        if p + 12 + len > bytes.len() {
            break;
        }
        let body = &bytes[p + 8..p + 8 + len];
        if ty == b"PLTE" && plte.is_none() {
            plte = Some(body.to_vec());
        }
        if ty == b"tRNS" && trns.is_none() {
            trns = Some(body.to_vec());
        }
        if ty == b"IDAT" || ty == b"IEND" {
            break;
        }
        p += 12 + len;
    }
    (plte, trns)
}

/// the colour key / alpha table the conversion rules work with, from the raw tRNS chunk: 16-bit
/// key samples for depth 16; for smaller depths the sample values (`None` if a key sample does not
/// fit in a byte: such a key matches no pixel and is outside the valid-PNG domain)
fn key_from_raw(color: u8, depth: u8, raw: &[u8]) -> Option<Vec<u8>> {
    match color {
        3 => Some(raw.to_vec()),
        0 | 2 => {
            let ch = nsamples(color);
            if raw.len() != 2 * ch {
                return None;
            }
            if depth == 16 {
                Some(raw.to_vec())
            } else if (0..ch).all(|k| raw[2 * k] == 0) {
                Some((0..ch).map(|k| raw[2 * k + 1]).collect())
            } else {
                None
            }
        }
        _ => None,
    }
}

/// widths of the rows `next_row` delivers, in order (Adam7 geometry written out independently)
fn row_widths(width: usize, height: usize, interlaced: bool) -> Vec<usize> {
    if !interlaced {
        return vec![width; height];
    }
    let passes = [(0usize, 0usize, 8usize, 8usize), (4, 0, 8, 8), (0, 4, 4, 8), (2, 0, 4, 4), (0, 2, 2, 4), (1, 0, 2, 2), (0, 1, 1, 2)];
    let mut v = Vec::new();
    for (xs, ys, dx, dy) in passes {
        let pw = if width > xs { (width - xs + dx - 1) / dx } else { 0 };
        let ph = if height > ys { (height - ys + dy - 1) / dy } else { 0 };
        if pw > 0 {
            for _ in 0..ph {
                v.push(pw);
            }
        }
    }
    v
}

/// valid files from the reference builder with every kind of tRNS the rules mention: a colour key that occurs / does not occur /
/// nearly occurs for every gray depth and both RGB depths, alpha tables shorter / equal / longer than the palette, palettes of
/// 1..2^depth entries; both interlace methods; small sizes (the conversion is per row, the geometry is C01's and C15's)
fn generated_files(ctx: &mut Ctx) -> Vec<(String, Vec<u8>)> {
    use crate::refpng::{ihdr, idat_chunks, serialize, Deflater, Filters, Img, RawChunk, Split, Still};
    let mut rng = ctx.rng.fork(0x0c08_f11e);
    let mut out = vec![];
    let pairs: [(u8, u8); 11] = [(0, 1), (0, 2), (0, 4), (0, 8), (0, 16), (2, 8), (2, 16), (3, 1), (3, 2), (3, 4), (3, 8)];
    let n = ctx.n(66, 660);
    for k in 0..n {
        let (color, depth) = pairs[k % pairs.len()];
        let w = rng.range(1, 12) as u32;
        let h = rng.range(1, 6) as u32;
        let img = Img::random(&mut rng, color, depth, w, h);
        let interlace = rng.below(3) == 0;
        let mut cs = vec![ihdr(w, h, depth, color, interlace as u8)];
        let mut kind = "none";
        if color == 3 {
            let entries = rng.usize(1, 1usize << depth);
            cs.push(RawChunk::new(b"PLTE", rng.bytes(entries * 3)));
            let tl = match rng.below(5) { 0 => None, 1 => Some(entries), 2 => Some(rng.usize(1, entries)), 3 => Some(entries + rng.usize(1, 3)), _ => Some(1) };
            if let Some(tl) = tl {
                kind = if tl > entries { "alpha-longer" } else if tl == entries { "alpha-equal" } else { "alpha-shorter" };
                cs.push(RawChunk::new(b"tRNS", rng.bytes(tl)));
            }
        } else {
            let px = img.get_px(rng.usize(0, w as usize - 1), rng.usize(0, h as usize - 1));
            // samples of the chosen pixel as 16-bit big-endian values
            let mut key: Vec<u8> = if depth == 16 { px.clone() } else { px.iter().flat_map(|&v| [0u8, v]).collect() };
            match rng.below(5) {
                0 => { kind = "no-trns"; key.clear(); }
                1 => { kind = "key-near-miss"; let l = key.len(); key[l - 1] ^= 1; }
                2 if depth == 16 => { kind = "key-high-byte-only"; let l = key.len(); key[l - 1] = key[l - 1].wrapping_add(0x80); }
                _ => { kind = "key-occurs"; }
            }
            if !key.is_empty() {
                cs.push(RawChunk::new(b"tRNS", key));
            }
        }
        let still = Still { img, interlace, filters: Filters::Random, deflater: Deflater::Level(6), split: Split::One };
        let (idats, _) = idat_chunks(&still, &mut rng);
        cs.extend(idats);
        cs.push(RawChunk::new(b"IEND", vec![]));
        ctx.rep.count("generated file trns", kind);
        out.push((format!("generated-{}-c{}d{}{}-{}", k, color, depth, if interlace { "i" } else { "" }, kind), serialize(&cs)));
    }
    out
}

fn files_part(ctx: &mut Ctx) {
    let dir = "/repo/tests/pngsuite";
    let mut names: Vec<String> = match std::fs::read_dir(dir) {
        Ok(rd) => rd.filter_map(|e| e.ok()).map(|e| e.file_name().to_string_lossy().to_string()).filter(|n| n.ends_with(".png")).collect(),
        Err(_) => {
            ctx.rep.notes.push(format!("{} not readable: whole-file part skipped", dir));
            return;
        }
    };
    names.sort();
    if ctx.quick() {
        names.retain(|n| n.starts_with("bas") || n.starts_with("t"));
    }
    let mut model_lines: Vec<String> = Vec::new();
    let mut model_expect: Vec<(String, u8, String)> = Vec::new(); // (file, flags, hex of implementation row)
    let mut used = 0usize;
    let mut skipped = 0usize;
    let mut trns_lines: Vec<String> = Vec::new();
    let mut trns_expect: Vec<(String, String)> = Vec::new();
    let mut files: Vec<(String, Vec<u8>)> = names.iter().filter_map(|n| std::fs::read(format!("{}/{}", dir, n)).ok().map(|b| (n.clone(), b))).collect();
    let from_suite = files.len();
    files.extend(generated_files(ctx));
    for (fi, (name, bytes)) in files.iter().enumerate() {
        let id = match decode_file(bytes, 0) {
            Ok(Ok(d)) => d,
            other => {
                if fi >= from_suite {
                    // a file of the reference builder is valid by construction
                    ctx.rep.violation("oracle", "file/error", &format!("{}: a valid generated file does not decode under IDENTITY: {:?}", name, other.map(|r| r.map(|_| ()))),
                        J::obj().set("op", J::s("file")).set("file", J::s(name)).set("flags", J::i(0)));
                }
                skipped += 1;
                continue;
            }
        };
        used += 1;
        // metadata as stored vs the raw chunks of the file (ties `parseTrns`)
        let (raw_plte, raw_trns) = raw_chunks(bytes);
        // the key / alpha table the documented rules work with comes from the file's own tRNS chunk where that is
        // well-formed (independent of what the decoder stored), otherwise from what the decoder stored
        let doc_trns: Option<Vec<u8>> = match &raw_trns { Some(rt) => key_from_raw(id.color, id.depth, rt).or(id.trns.clone()), None => id.trns.clone() };
        if let Some(rt) = &raw_trns {
            let want = key_from_raw(id.color, id.depth, rt);
            if want.is_some() && want != id.trns {
                ctx.rep.violation(
                    "oracle",
                    "file/trns-parse",
                    &format!("{}: Info.trns {:?} is not the key of the tRNS chunk {:?}", name, id.trns, rt),
                    J::obj().set("op", J::s("file")).set("file", J::s(name)).set("flags", J::i(0)),
                );
            }
            trns_lines.push(format!("c08 parsetrns {} {} {}", id.color, id.depth, hex(rt)));
            trns_expect.push((name.clone(), opt_hex(&id.trns)));
        }
        if id.color == 3 && raw_plte != id.plte {
            ctx.rep.violation(
                "oracle",
                "file/plte-parse",
                &format!("{}: Info.palette differs from the PLTE chunk", name),
                J::obj().set("op", J::s("file")).set("file", J::s(name)).set("flags", J::i(0)),
            );
        }
        let widths = row_widths(id.width, id.height, id.interlaced);
        let id_line = ref_line_size(id.color, id.depth, id.width);
        let case_json = |flags: u8| J::obj().set("op", J::s("file")).set("file", J::s(name)).set("flags", J::i(flags));
        if id.line_size != id_line || id.frame.len() != id_line * id.height || id.rows.len() != widths.len() {
            ctx.rep.violation("oracle", "file/identity-sizes", &format!("{}: identity decode has unexpected sizes", name), case_json(0));
            continue;
        }
        ctx.rep.count("file colour/depth", &format!("{}/{}{}", id.color, id.depth, if id.interlaced { "i" } else { "" }));
        ctx.rep.count("file trns", if id.trns.is_some() { "present" } else { "absent" });
        for flags in 0..8u8 {
            let key = fnv64(format!("file {} {}", name, flags).as_bytes());
            ctx.rep.eval(true, key);
            let t = match decode_file(bytes, flags) {
                Ok(Ok(d)) => d,
                Ok(Err(e)) => {
                    ctx.rep.violation("oracle", "file/error", &format!("{} decodes under IDENTITY but fails under flags {:#x}: {}", name, flags, e), case_json(flags));
                    continue;
                }
                Err(p) => {
                    ctx.rep.violation("oracle", "file/panic", &format!("{} flags {:#x}: panic {}", name, flags, p), case_json(flags));
                    continue;
                }
            };
            let (oc, od) = ref_out_type(id.color, id.depth, flags, id.trns.is_some());
            let ls = ref_line_size(oc, od, id.width);
            if (t.out_color, t.out_depth) != (oc, od) || t.line_size != ls || t.info_line != ls || t.buffer_size != ls * id.height {
                ctx.rep.violation(
                    "oracle",
                    &format!("file/sizes/c{}d{}f{}", id.color, id.depth, flags),
                    &format!(
                        "{} flags {:#x}: advertised ({}, {}, line {}, OutputInfo line {}, buffer {}), documented ({}, {}, line {}, buffer {})",
                        name, flags, t.out_color, t.out_depth, t.line_size, t.info_line, t.buffer_size, oc, od, ls, ls * id.height
                    ),
                    case_json(flags),
                );
                continue;
            }
            // frame path: row y of the identity frame, converted, is row y of the transformed frame
            let mut bad = None;
            for y in 0..id.height {
                let c = Case {
                    color: id.color,
                    depth: id.depth,
                    flags,
                    width: id.width,
                    plte: id.plte.clone(),
                    trns: doc_trns.clone(),
                    row: id.frame[y * id_line..(y + 1) * id_line].to_vec(),
                };
                let got = &t.frame[y * ls..(y + 1) * ls];
                if ref_convert(&c).as_deref() != Some(got) {
                    bad = Some(format!("frame row {}", y));
                    break;
                }
                if !id.interlaced && y % 4 == 0 {
                    model_lines.push(c.line());
                    model_expect.push((name.clone(), flags, hex(got)));
                }
            }
            // row path: the k-th delivered row (pass rows when interlaced)
            if bad.is_none() {
                if t.rows.len() != widths.len() {
                    bad = Some(format!("row path delivered {} rows, expected {}", t.rows.len(), widths.len()));
                } else {
                    for (k, &w) in widths.iter().enumerate() {
                        let c = Case { color: id.color, depth: id.depth, flags, width: w, plte: id.plte.clone(), trns: doc_trns.clone(), row: id.rows[k].clone() };
                        if ref_convert(&c).as_deref() != Some(&t.rows[k][..]) {
                            bad = Some(format!("row path, delivered row {} (width {})", k, w));
                            break;
                        }
                        if id.interlaced && k % 5 == 0 {
                            model_lines.push(c.line());
                            model_expect.push((name.clone(), flags, hex(&t.rows[k])));
                        }
                    }
                }
            }
            if let Some(b) = bad {
                ctx.rep.violation(
                    "oracle",
                    &format!("file/convert/c{}d{}f{}", id.color, id.depth, flags),
                    &format!("{} flags {:#x}: {} differs from the documented conversion of the identity decode", name, flags, b),
                    case_json(flags),
                );
            }
        }
    }
    // model on a sample of the file rows
    let answers = model::ask(&model_lines);
    for ((file, flags, want), ans) in model_expect.iter().zip(&answers) {
        ctx.rep.model_compared += 1;
        let toks: Vec<&str> = ans.split(' ').collect();
        if toks.len() != 5 || toks[3] != want || toks[4] != want {
            ctx.rep.violation(
                "model",
                "file/row",
                &format!("{} flags {:#x}: model row differs from the decoded row", file, flags),
                J::obj().set("op", J::s("file")).set("file", J::s(file)).set("flags", J::i(*flags)),
            );
        }
    }
    let answers = model::ask(&trns_lines);
    for ((file, want), ans) in trns_expect.iter().zip(&answers) {
        ctx.rep.model_compared += 1;
        if ans != want {
            ctx.rep.violation(
                "model",
                "file/parsetrns",
                &format!("{}: Info.trns is {}, parseTrns (model) says {}", file, want, ans),
                J::obj().set("op", J::s("file")).set("file", J::s(file)).set("flags", J::i(0)),
            );
        }
    }
    ctx.rep.notes.push(format!(
        "whole-file part: {} files (pngsuite + generated tRNS/PLTE files) x 8 flag sets (frame path and row path), {} files skipped because the identity decode fails; {} file rows also sent to the model",
        used, skipped, model_lines.len()
    ));
}

// ---------------------------------------------------------------------------------------------

pub fn run(ctx: &mut Ctx) {
    ctx.rep.rule = "row cases: 15 legal colour/depth pairs x 8 flag sets x widths 1..17 and up to 300 x palettes of 1..256 entries \
        x tRNS absent/shorter/equal/longer (indexed) or colour key occurring / differing in the low bit or low byte / not occurring (gray, RGB) \
        x row data classes; every index value for depths 1,2,4,8; every gray value per depth; malformed PLTE lengths; \
        rows / output buffers of non-advertised lengths (implementation vs model only); \
        file cases: pngsuite file x flag set, frame and row path. A case is non-trivial when the transformation set is not IDENTITY or the row has >= 2 pixels; \
        distinct = hash of (colour, depth, flags, width, PLTE, tRNS, row) resp. (file, flags)".into();
    #[cfg(not(png_verif))]
    {
        ctx.rep.notes.push("hooks unavailable: row-level enumeration skipped; whole-file formulation only".into());
        let _ = (gen_cases as fn(&mut Ctx) -> Vec<Case>, model::ask as fn(&[String]) -> Vec<String>);
    }
    #[cfg(png_verif)]
    {
        let cases = gen_cases(ctx);
        let lines: Vec<String> = cases.iter().map(|c| c.line()).collect();
        let answers = model::ask(&lines);
        let mut shrunk = std::collections::HashSet::new();
        for (c, a) in cases.iter().zip(&answers) {
            ctx.rep.eval(c.nontrivial(), c.key());
            ctx.rep.model_compared += 1;
            ctx.rep.count("colour/depth", &format!("{}/{}", c.color, c.depth));
            ctx.rep.count("flags", &format!("{}{}{}", if c.flags & 1 != 0 { "E" } else { "-" }, if c.flags & 2 != 0 { "S" } else { "-" }, if c.flags & 4 != 0 { "A" } else { "-" }));
            if c.color == 3 {
                ctx.rep.count("palette entries", &c.plte_class());
            }
            ctx.rep.count("trns", &c.trns_class());
            ctx.rep.count("width", if c.width <= 17 { "1-17" } else if c.width <= 64 { "18-64" } else { "65+" });
            for (kind, class, what) in judge(c, a) {
                let small = if shrunk.insert(format!("{}:{}", kind, class)) { shrink(c, &class) } else { c.clone() };
                ctx.rep.violation(kind, &class, &what, small.json());
            }
        }
        for c in cases.iter().filter(|c| c.flags != 0 && c.width <= 4 && (c.trns.is_some() || c.color == 3) && !c.palette_malformed()).step_by(97).take(5) {
            ctx.rep.sample(c.json().set("documented", J::s(&ref_convert(c).map(|v| hex(&v)).unwrap_or_default())));
        }
        offsize_part(ctx);
        ctx.rep.exhaustive.push("all 256 index values (depth 8) and all index values of depths 1, 2, 4 for every sampled palette length".into());
        ctx.rep.exhaustive.push("all gray values of depths 1, 2, 4, 8 under all 8 flag sets".into());
    }
    files_part(ctx);
}

pub fn replay(ctx: &mut Ctx, case: &J) {
    match case.get("op").and_then(|o| o.as_str()) {
        Some("file") => files_part(ctx),
        _ => {
            #[cfg(png_verif)]
            if let Some(c) = Case::from_json(case) {
                ctx.rep.eval(true, c.key());
                let ans = model::ask_one(&[c.line()]);
                for (kind, class, what) in judge(&c, &ans[0]) {
                    ctx.rep.violation(kind, &class, &what, c.json());
                }
            }
            #[cfg(not(png_verif))]
            {
                let _ = Case::from_json as fn(&J) -> Option<Case>;
            }
        }
    }
}

#[allow(dead_code)]
fn _unused(_: &mut Rng) {}
