//! C07 — every decoding call terminates after work bounded by input plus output.
//!
//! Step counters: (a) `StreamingDecoder::update` per-call triples `(consumed, appended, event)`: a call on a
//! non-empty buffer never returns `(0, Nothing)`, the longest run of zero-byte calls is bounded by the rank
//! argument of the model (`Png.C07.update_no_spin`), and the number of calls is linear in the input;
//! (b) `Reader` behind a counting `BufRead`: `fill_buf` calls <= 2·bytes + 16·(1 + frames), the longest run of
//! zero-byte `consume` calls is bounded.  A watchdog turns a hang into a finding.
use crate::canon::*;
use crate::corpus;
use crate::iowrap::PieceReader;
use crate::json::J;
use crate::refpng::*;
use crate::report::Ctx;
use crate::rng::{fnv64, Rng};
use crate::util::{guarded, hex, unhex};
use crate::watchdog;
use std::sync::atomic::Ordering;

pub struct StreamStats {
    pub calls: usize,
    pub zero_nothing: usize,
    pub max_zero_run: usize,
    pub consumed: usize,
    pub appended: usize,
    pub err: String,
}

pub fn stream_stats(file: &[u8], cuts: &[usize]) -> Result<StreamStats, String> {
    stream_stats_opts(file, cuts, &DEFAULT_OPTS)
}

pub fn stream_stats_opts(file: &[u8], cuts: &[usize], opts: &[bool; 5]) -> Result<StreamStats, String> {
    stream_stats_route(file, cuts, opts, false)
}

/// `via_setters`: the options are installed through the public setters of `StreamingDecoder` instead of `DecodeOptions`
pub fn stream_stats_route(file: &[u8], cuts: &[usize], opts: &[bool; 5], via_setters: bool) -> Result<StreamStats, String> {
    let file = file.to_vec();
    let cuts = cuts.to_vec();
    let opts = *opts;
    guarded(move || {
        let mut dec = match (via_setters, streaming_via_setters(&opts)) {
            (true, Some(d)) => d,
            (true, None) => panic!("StreamingDecoder::set_ignore_adler32 refused on a new decoder"),
            _ => png::StreamingDecoder::new_with_options(decode_options(&opts)),
        };
        let mut image_data: Vec<u8> = vec![];
        let mut st = StreamStats { calls: 0, zero_nothing: 0, max_zero_run: 0, consumed: 0, appended: 0, err: "ok".into() };
        let mut bounds = vec![0usize];
        bounds.extend(cuts.iter().copied().filter(|&c| c > 0 && c < file.len()));
        bounds.push(file.len());
        bounds.dedup();
        let mut zero_run = 0usize;
        'outer: for w in bounds.windows(2) {
            let mut buf = &file[w[0]..w[1]];
            while !buf.is_empty() {
                st.calls += 1;
                let before = image_data.len();
                match dec.update(buf, &mut image_data) {
                    Ok((n, ev)) => {
                        let appended = image_data.len() - before;
                        st.appended += appended;
                        st.consumed += n;
                        if n == 0 {
                            zero_run += 1;
                            st.max_zero_run = st.max_zero_run.max(zero_run);
                            if zero_run > 20_000 {
                                st.err = "spin".into();
                                break 'outer;
                            }
                            if matches!(ev, png::Decoded::Nothing) && appended == 0 {
                                st.zero_nothing += 1;
                                if st.zero_nothing > 1000 {
                                    st.err = "spin".into();
                                    break 'outer;
                                }
                            }
                        } else {
                            zero_run = 0;
                        }
                        buf = &buf[n..];
                        // the caller keeps the vector bounded
                        if image_data.len() > (1 << 24) {
                            image_data.clear();
                        }
                    }
                    Err(e) => {
                        st.err = err_class(&e);
                        // a poisoned decoder must refuse immediately
                        let r = dec.update(buf, &mut image_data);
                        if !matches!(r, Err(png::DecodingError::Parameter(_))) {
                            st.err = format!("{}+not-refused", st.err);
                        }
                        break 'outer;
                    }
                }
            }
        }
        st
    })
}

pub struct ReaderStats {
    pub fill_buf: usize,
    pub consume: usize,
    pub max_zero_consume_run: usize,
    pub bytes: usize,
    pub frames: usize,
    pub rows: usize,
    pub outcome: String,
}

/// path: 0 = next_frame loop, 1 = next_row loop, 2 = next_frame_info skipping, then finish
pub fn reader_stats(file: &[u8], cuts: &[usize], path: u8, limit: Option<usize>) -> Result<ReaderStats, String> {
    reader_stats_opts(file, cuts, path, limit, &DEFAULT_OPTS)
}

pub fn reader_stats_opts(file: &[u8], cuts: &[usize], path: u8, limit: Option<usize>, opts: &[bool; 5]) -> Result<ReaderStats, String> {
    reader_stats_route(file, cuts, path, limit, opts, false)
}

/// `via_setters` (where `setters_representable(opts)`): the options are installed through the public `Decoder::ignore_checksums`,
/// `set_ignore_text_chunk`, `set_ignore_iccp_chunk` on a `Decoder::new(..)`
pub fn reader_stats_route(file: &[u8], cuts: &[usize], path: u8, limit: Option<usize>, opts: &[bool; 5], via_setters: bool) -> Result<ReaderStats, String> {
    let file = file.to_vec();
    let cuts = cuts.to_vec();
    let opts = *opts;
    guarded(move || {
        let rd = PieceReader::new(file, cuts);
        let counters = rd.counters.clone();
        let mut dec = if via_setters && setters_representable(&opts) {
            let mut d = png::Decoder::new(rd);
            apply_decoder_setters(&mut d, &opts);
            d
        } else {
            png::Decoder::new_with_options(rd, decode_options(&opts))
        };
        if let Some(l) = limit {
            dec.set_limits(png::Limits { bytes: l });
        }
        let mut st = ReaderStats { fill_buf: 0, consume: 0, max_zero_consume_run: 0, bytes: 0, frames: 0, rows: 0, outcome: String::new() };
        match dec.read_info() {
            Err(e) => st.outcome = format!("read_info:{}", err_class(&e)),
            Ok(mut reader) => {
                let size = reader.output_buffer_size();
                if size <= (1 << 26) {
                    let mut buf = vec![0u8; size];
                    for _ in 0..50 {
                        let r = match path {
                            0 => reader.next_frame(&mut buf).map(|_| true),
                            1 => {
                                let mut res = Ok(true);
                                loop {
                                    match reader.next_row() {
                                        Ok(Some(_)) => st.rows += 1,
                                        Ok(None) => break,
                                        Err(e) => {
                                            res = Err(e);
                                            break;
                                        }
                                    }
                                    if st.rows > 10_000_000 {
                                        break;
                                    }
                                }
                                res
                            }
                            _ => reader.next_frame_info().map(|_| true),
                        };
                        match r {
                            Ok(_) => st.frames += 1,
                            Err(e) => {
                                st.outcome = err_class(&e);
                                break;
                            }
                        }
                    }
                    // after the end / after a failure every further call has to RETURN (whatever it answers is C18's business): a call
                    // that waits for input that is only offered again trips the spin detection of the reader
                    let _ = reader.finish();
                    let _ = reader.finish();
                    let _ = reader.next_frame(&mut buf);
                    let _ = reader.next_row();
                    let _ = reader.next_frame_info();
                    let _ = reader.finish();
                } else {
                    st.outcome = "too-large-for-harness".into();
                }
            }
        }
        st.fill_buf = counters.fill_buf.load(Ordering::Relaxed);
        st.consume = counters.consume.load(Ordering::Relaxed);
        st.max_zero_consume_run = counters.max_zero_consume_run.load(Ordering::Relaxed);
        st.bytes = counters.bytes.load(Ordering::Relaxed);
        st
    })
}

/// A source that is NOT READY from offset `at` on (`fill_buf` answers `WouldBlock` every time): each public call has to hand that
/// error to its caller after a bounded number of polls - a decoder that retries by itself never returns.  Returns the largest number
/// of polls of the blocked source made by ONE call, and what the calls answered.
pub fn blocked_source_polls(file: &[u8], at: usize, path: u8) -> Result<(usize, String), String> {
    let file = file.to_vec();
    guarded(move || {
        let mut rd = PieceReader::new(file, vec![]);
        rd.block_at = at;
        let counters = rd.counters.clone();
        let polls = |c: &crate::iowrap::Counters| c.blocked_polls.load(Ordering::Relaxed);
        let mut worst = 0usize;
        let mut out = String::new();
        let dec = png::Decoder::new(rd);
        let before = polls(&counters);
        match dec.read_info() {
            Err(e) => {
                worst = worst.max(polls(&counters) - before);
                out = format!("read_info:{}", err_class(&e));
            }
            Ok(mut reader) => {
                worst = worst.max(polls(&counters) - before);
                let mut buf = vec![0u8; reader.output_buffer_size().min(1 << 26)];
                for k in 0..6 {
                    let before = polls(&counters);
                    let r = match (path + k) % 4 {
                        0 => reader.next_frame(&mut buf).map(|_| ()),
                        1 => reader.next_row().map(|_| ()),
                        2 => reader.next_frame_info().map(|_| ()),
                        _ => reader.finish(),
                    };
                    worst = worst.max(polls(&counters) - before);
                    out.push_str(&match r { Ok(()) => "ok ".to_string(), Err(e) => format!("{} ", err_class(&e)) });
                }
            }
        }
        (worst, out)
    })
}

fn special_files(rng: &mut Rng) -> Vec<corpus::TestFile> {
    let mut out = vec![];
    let mk = |cs: Vec<RawChunk>, name: &str| corpus::TestFile { bytes: serialize(&cs), source: name.into(), model_domain: false };
    let img = Img::random(rng, 2, 8, 40, 30);
    let (raw, _) = scanlines(&img, false, &Filters::Random, rng);
    let z = zlib_stream(&raw, &Deflater::Level(6));
    // thousands of empty IDATs before / inside / after the stream
    let mut cs = vec![ihdr(40, 30, 8, 2, 0)];
    for _ in 0..3000 {
        cs.push(RawChunk::new(b"IDAT", vec![]));
    }
    cs.push(RawChunk::new(b"IDAT", z.clone()));
    for _ in 0..3000 {
        cs.push(RawChunk::new(b"IDAT", vec![]));
    }
    cs.push(RawChunk::new(b"IEND", vec![]));
    out.push(mk(cs, "empty-idats"));
    // 1-byte IDATs
    let mut cs = vec![ihdr(40, 30, 8, 2, 0)];
    for b in &z {
        cs.push(RawChunk::new(b"IDAT", vec![*b]));
    }
    cs.push(RawChunk::new(b"IEND", vec![]));
    out.push(mk(cs, "one-byte-idats"));
    // thousands of zero-length ancillary chunks of every kind
    let mut cs = vec![ihdr(40, 30, 8, 2, 0)];
    for k in 0..2000 {
        let ty = [*b"tEXt", *b"gAMA", *b"prVt", *b"eXIf", *b"sRGB", *b"fcTL", *b"acTL", *b"PLTE"][k % 8];
        cs.push(RawChunk::new(&ty, vec![]));
    }
    cs.push(RawChunk::new(b"IDAT", z.clone()));
    cs.push(RawChunk::new(b"IEND", vec![]));
    out.push(mk(cs, "empty-ancillary"));
    // chunks at and around the 32 KiB buffer capacity
    for len in [32767usize, 32768, 32769, 65535, 65536, 65537, 100_000] {
        let mut cs = vec![ihdr(40, 30, 8, 2, 0), RawChunk::new(b"prVt", rng.bytes(len)), RawChunk::new(b"eXIf", rng.bytes(len))];
        cs.push(RawChunk::new(b"IDAT", z.clone()));
        cs.push(RawChunk::new(b"IEND", vec![]));
        out.push(mk(cs, "capacity-boundary"));
    }
    // chunks of the kinds the options can switch off (tEXt, zTXt, iTXt, iCCP), larger than the 32 KiB chunk buffer: decoded under
    // every option set (an ignored chunk still has to be read past)
    for (ty, len) in [(*b"tEXt", 40_000usize), (*b"zTXt", 33_000), (*b"iTXt", 70_000), (*b"iCCP", 40_000)] {
        let mut body = b"name\0".to_vec();
        if &ty == b"zTXt" || &ty == b"iCCP" {
            body.push(0);
            body.extend(zlib_stream(&rng.bytes(len), &Deflater::Stored(60000)));
        } else if &ty == b"iTXt" {
            body.extend_from_slice(&[0, 0, 0, 0]);
            body.extend((0..len).map(|i| b'a' + (i % 26) as u8));
        } else {
            body.extend((0..len).map(|i| b'a' + (i % 26) as u8));
        }
        for after in [false, true] {
            let mut cs = vec![ihdr(40, 30, 8, 2, 0)];
            if !after { cs.push(RawChunk::new(&ty, body.clone())); }
            cs.push(RawChunk::new(b"IDAT", z.clone()));
            if after { cs.push(RawChunk::new(&ty, body.clone())); }
            cs.push(RawChunk::new(b"IEND", vec![]));
            out.push(mk(cs, "big-optional-chunk"));
        }
    }
    // bytes after the end of the zlib stream: in the same IDAT, and in further IDAT chunks (tolerated, as libpng does)
    let mut zt = z.clone();
    zt.extend(rng.bytes(40));
    out.push(mk(vec![ihdr(40, 30, 8, 2, 0), RawChunk::new(b"IDAT", zt), RawChunk::new(b"IEND", vec![])], "trailing-bytes-after-stream"));
    out.push(mk(vec![ihdr(40, 30, 8, 2, 0), RawChunk::new(b"IDAT", z.clone()), RawChunk::new(b"IDAT", rng.bytes(100)), RawChunk::new(b"IDAT", vec![]), RawChunk::new(b"IDAT", rng.bytes(3)), RawChunk::new(b"IEND", vec![])], "trailing-idat-after-stream"));
    // bytes after IEND; an animation that declares more frames than the file holds, with bytes after IEND; an IEND whose CRC is
    // wrong (finish() fails, the caller asks again): every call after the end has to return, not wait for bytes that are offered
    // again and again (the 0.17.15 hang)
    for extra in [1usize, 100] {
        let mut bytes = serialize(&[ihdr(40, 30, 8, 2, 0), RawChunk::new(b"IDAT", z.clone()), RawChunk::new(b"IEND", vec![])]);
        bytes.extend(rng.bytes(extra));
        out.push(corpus::TestFile { bytes, source: "bytes-after-iend".into(), model_domain: false });
    }
    {
        let mut fc = vec![0u8; 26];
        fc[4..8].copy_from_slice(&40u32.to_be_bytes());
        fc[8..12].copy_from_slice(&30u32.to_be_bytes());
        fc[20..22].copy_from_slice(&1u16.to_be_bytes());
        fc[22..24].copy_from_slice(&10u16.to_be_bytes());
        let mut bytes = serialize(&[ihdr(40, 30, 8, 2, 0), actl(3, 0), RawChunk::new(b"fcTL", fc), RawChunk::new(b"IDAT", z.clone()), RawChunk::new(b"IEND", vec![])]);
        bytes.extend(rng.bytes(64));
        out.push(corpus::TestFile { bytes, source: "more-frames-declared-than-present+bytes-after-iend".into(), model_domain: false });
        let mut bytes = serialize(&[ihdr(40, 30, 8, 2, 0), RawChunk::new(b"IDAT", z.clone()), RawChunk::new(b"IEND", vec![])]);
        let n = bytes.len();
        bytes[n - 1] ^= 0x55;
        out.push(corpus::TestFile { bytes, source: "iend-with-wrong-crc".into(), model_domain: false });
    }
    // deflate bomb: 8 MiB of zeros in a tiny stream, image header claims it
    let w = 4096u32;
    let h = 2048u32;
    let raw = vec![0u8; (w as usize + 1) * h as usize];
    let zb = zlib_stream(&raw, &Deflater::Level(9));
    out.push(mk(vec![ihdr(w, h, 8, 0, 0), RawChunk::new(b"IDAT", zb), RawChunk::new(b"IEND", vec![])], "bomb"));
    // stream that ends in every state: prefixes of a small file
    let small = serialize(&[ihdr(3, 2, 8, 0, 0), RawChunk::new(b"gAMA", vec![0, 1, 2, 3]), RawChunk::new(b"IDAT", zlib_stream(&[0, 1, 2, 3, 1, 4, 5, 6], &Deflater::Stored(100))), RawChunk::new(b"IEND", vec![])]);
    for n in 0..small.len() {
        out.push(corpus::TestFile { bytes: small[..n].to_vec(), source: "prefix".into(), model_domain: false });
    }
    out
}

fn check(ctx: &mut Ctx, f: &corpus::TestFile, cuts: &[usize], sched: &str) {
    check_opts(ctx, f, cuts, sched, &DEFAULT_OPTS)
}

fn check_opts(ctx: &mut Ctx, f: &corpus::TestFile, cuts: &[usize], sched: &str, opts: &[bool; 5]) {
    check_route(ctx, f, cuts, sched, opts, false)
}

/// `via_setters`: the same bounds with the options installed through the public setters of `Decoder` / `StreamingDecoder`
fn check_route(ctx: &mut Ctx, f: &corpus::TestFile, cuts: &[usize], sched: &str, opts: &[bool; 5], via_setters: bool) {
    let key = (via_setters as u64) << 63 ^ fnv64(&f.bytes) ^ fnv64(sched.as_bytes()) ^ fnv64(opts_string(opts).as_bytes());
    let case = || J::obj().set("file", J::s(&hex(&f.bytes[..f.bytes.len().min(200_000)]))).set("file_len", J::i(f.bytes.len() as u64)).set("schedule", J::s(sched)).set("source", J::s(&f.source)).set("opts", J::s(&opts_string(opts))).set("via_setters", J::Bool(via_setters));
    watchdog::enter(&format!("{} {} bytes schedule {} {}", f.source, f.bytes.len(), sched, hex(&f.bytes[..f.bytes.len().min(4000)])));
    ctx.rep.eval(f.bytes.len() > 8, key);
    ctx.rep.count("source", &f.source);
    ctx.rep.count("schedule", sched);
    ctx.rep.count("options", &opts_string(opts));
    ctx.rep.count("options route", if via_setters { "public setters" } else { "DecodeOptions" });
    match stream_stats_route(&f.bytes, cuts, opts, via_setters) {
        Err(p) => ctx.rep.violation("oracle", "streaming/panic", &format!("update panicked: {}", p), case()),
        Ok(st) => {
            ctx.rep.count("streaming outcome", &st.err);
            if st.zero_nothing > 0 {
                ctx.rep.violation("oracle", "streaming/zero-progress", &format!("update() on a non-empty buffer returned (0, Nothing) without output {} time(s)", st.zero_nothing), case());
            }
            if st.max_zero_run > 4 {
                ctx.rep.violation("oracle", "streaming/zero-byte-run", &format!("{} consecutive update() calls consumed no input", st.max_zero_run), case());
            }
            // every call consumes a byte or is one of at most 4 consecutive zero-byte calls
            if st.calls > 5 * st.consumed + 5 {
                ctx.rep.violation("oracle", "streaming/call-count", &format!("{} update() calls for {} input bytes", st.calls, st.consumed), case());
            }
            if st.err.ends_with("not-refused") {
                ctx.rep.violation("oracle", "streaming/poisoned-not-refused", "update() after an error did not return a parameter error immediately", case());
            }
            let ratio = (st.calls * 100) / st.consumed.max(1);
            ctx.rep.count("update calls per 100 input bytes", &(match ratio { 0..=9 => "<10", 10..=49 => "10-49", 50..=99 => "50-99", 100..=149 => "100-149", _ => ">=150" }).to_string());
        }
    }
    for (path, limit) in [(0u8, None), (1, None), (2, None), (0, Some(40_000usize)), (2, Some(70_000))] {
        match reader_stats_route(&f.bytes, cuts, path, limit, opts, via_setters) {
            Err(p) => ctx.rep.violation("oracle", "reader/panic", &format!("Reader call panicked: {}", p), case().set("path", J::i(path))),
            Ok(st) => {
                if st.fill_buf > 2 * st.bytes + 16 * (2 + st.frames) {
                    ctx.rep.violation("oracle", "reader/step-count", &format!("{} fill_buf calls for {} bytes consumed and {} frames (path {})", st.fill_buf, st.bytes, st.frames, path), case().set("path", J::i(path)));
                }
                if st.max_zero_consume_run > crate::iowrap::SPIN_LIMIT {
                    ctx.rep.violation("oracle", "reader/spin", &format!("the reader was offered the same input more than {} times in a row without consuming a byte (path {}, limit {:?})", crate::iowrap::SPIN_LIMIT, path, limit), case().set("path", J::i(path)));
                } else if st.max_zero_consume_run > 6 {
                    ctx.rep.violation("oracle", "reader/zero-consume-run", &format!("{} consecutive zero-byte consume() calls (path {})", st.max_zero_consume_run, path), case().set("path", J::i(path)));
                }
                ctx.rep.count("max zero-consume run", &st.max_zero_consume_run.to_string());
            }
        }
    }
    watchdog::leave();
}

pub fn run(ctx: &mut Ctx) {
    ctx.rep.rule = "inputs: reference-built valid files, mutated copies, fuzz corpus, tests/*.png, plus adversarial files (6000 empty IDATs, 1-byte IDATs, 2000 zero-length ancillary chunks, chunks at 32 KiB +-1 / 64 KiB +-1, an 8 MiB deflate bomb, every prefix of a small file, tEXt/zTXt/iTXt/iCCP chunks of 33..70 KB before and after IDAT under option sets that ignore them) \
        x schedules (whole, byte-by-byte, random) x paths (StreamingDecoder::update; Reader next_frame / next_row / next_frame_info + finish); counters: per-call (consumed, appended, event), fill_buf/consume calls, longest zero-byte run; watchdog 60 s; \
        non-trivial = file longer than the signature; distinct = hash(file, schedule)".into();
    let mut rng = ctx.rng.fork(1);
    let mut files = corpus::mixed_files(&mut rng, ctx.n(40, 300), ctx.n(60, 400), ctx.n(250, 1416));
    files.extend(special_files(&mut rng));
    for (i, f) in files.iter().enumerate() {
        let mut r = rng.fork(i as u64);
        check(ctx, f, &[], "whole");
        if f.bytes.len() <= 200_000 {
            let all: Vec<usize> = (1..f.bytes.len()).collect();
            check(ctx, f, &all, "bytewise");
        }
        let mut c = vec![];
        let mut p = 0usize;
        let mean = *r.pick(&[2usize, 9, 100, 5000]);
        loop {
            p += 1 + r.usize(0, 2 * mean);
            if p >= f.bytes.len() {
                break;
            }
            c.push(p);
        }
        check(ctx, f, &c, "random");
        if f.source == "big-optional-chunk" || f.source == "capacity-boundary" || f.source == "empty-ancillary" {
            // [ignore_adler32, ignore_crc, ignore_text_chunk, ignore_iccp_chunk, skip_ancillary_crc_failures]
            for opts in [[true, false, true, false, true], [true, false, false, true, true], [false, true, true, true, false]] {
                check_opts(ctx, f, &[], "whole", &opts);
                check_opts(ctx, f, &c, "random", &opts);
            }
            // the same switches thrown through the PUBLIC setters (Decoder::set_ignore_text_chunk / set_ignore_iccp_chunk /
            // ignore_checksums; StreamingDecoder::set_*): an ignored chunk still has to be read past within the same bounds
            for opts in [[true, false, true, false, true], [true, false, false, true, true], [true, true, true, true, true], [false, false, true, false, true]] {
                check_route(ctx, f, &[], "whole", &opts, true);
                check_route(ctx, f, &c, "random", &opts, true);
            }
        }
        if i < 2 {
            ctx.rep.sample(J::obj().set("source", J::s(&f.source)).set("bytes", J::i(f.bytes.len() as u64)));
        }
    }
    // a source that is not ready (WouldBlock from some offset on): every call returns the error after a bounded number of polls
    let valid: Vec<&corpus::TestFile> = files.iter().filter(|f| f.model_domain && f.bytes.len() > 60 && f.bytes.len() < 100_000).take(ctx.n(12, 60)).collect();
    for (i, f) in valid.iter().enumerate() {
        let mut r = rng.fork(77_000 + i as u64);
        let mut ats = vec![0usize, 8, 20, 33, f.bytes.len() - 12, f.bytes.len() - 4, f.bytes.len()];
        for _ in 0..4 {
            ats.push(r.usize(34, f.bytes.len()));
        }
        for at in ats {
            for path in 0..3u8 {
                ctx.rep.eval(true, fnv64(&f.bytes) ^ ((at as u64) << 8) ^ 0xB10C ^ path as u64);
                ctx.rep.count("blocked source: offset", if at < 33 { "inside signature / IHDR" } else if at + 12 >= f.bytes.len() { "inside IEND" } else { "behind IHDR" });
                let case = || J::obj().set("file", J::s(&hex(&f.bytes))).set("schedule", J::s("blocked")).set("block_at", J::i(at as u64)).set("path", J::i(path));
                match blocked_source_polls(&f.bytes, at, path) {
                    Err(p) => ctx.rep.violation("oracle", "reader/panic", &format!("a call on a source that is not ready panicked: {}", p), case()),
                    Ok((worst, out)) => {
                        ctx.rep.count("blocked source: polls by one call", &(match worst { 0 => "0", 1 => "1", 2..=4 => "2-4", _ => ">4" }).to_string());
                        if worst > 8 {
                            ctx.rep.violation("oracle", "reader/retries-a-source-that-is-not-ready", &format!("one call polled a source that answers WouldBlock {} times (offset {}; results: {})", worst, at, out), case());
                        }
                    }
                }
            }
        }
    }
}

pub fn replay(ctx: &mut Ctx, case: &J) {
    let file = case.get("file").and_then(|f| f.as_str()).and_then(unhex).unwrap_or_default();
    let sched = case.get("schedule").and_then(|f| f.as_str()).unwrap_or("whole");
    if sched == "blocked" {
        let at = case.get("block_at").and_then(|f| f.as_i64()).unwrap_or(0) as usize;
        let path = case.get("path").and_then(|f| f.as_i64()).unwrap_or(0) as u8;
        ctx.rep.eval(true, fnv64(&file) ^ 0xB10C);
        match blocked_source_polls(&file, at, path) {
            Err(p) => ctx.rep.violation("oracle", "reader/panic", &format!("a call on a source that is not ready panicked: {}", p), case.clone()),
            Ok((worst, out)) => {
                if worst > 8 {
                    ctx.rep.violation("oracle", "reader/retries-a-source-that-is-not-ready", &format!("one call polled a source that answers WouldBlock {} times (offset {}; results: {})", worst, at, out), case.clone());
                }
            }
        }
        return;
    }
    let cuts: Vec<usize> = if sched == "bytewise" { (1..file.len()).collect() } else { vec![] };
    let f = corpus::TestFile { bytes: file, source: "replay".into(), model_domain: false };
    let mut opts = DEFAULT_OPTS;
    if let Some(o) = case.get("opts").and_then(|f| f.as_str()) {
        for (i, ch) in o.chars().take(5).enumerate() {
            opts[i] = ch == '1';
        }
    }
    check_route(ctx, &f, &cuts, sched, &opts, matches!(case.get("via_setters"), Some(J::Bool(true))));
}
