//! C02, C05, C09, C13, C18 — properties of call sequences on `Decoder`/`Reader`.
//!
//! Shared machinery: `rops::run_ops` (canonical token trace of the real code, compared with the Lean `Reader`
//! model) and `assemble` (an executor that keeps the actual bytes so that the properties' own oracles —
//! pixels per frame, errors after terminal events, resumption after end-of-input — can be evaluated on the
//! implementation without the model).
use crate::canon::*;
use crate::corpus;
use crate::iowrap::PieceReader;
use crate::json::J;
use crate::model;
use crate::refpng::*;
use crate::report::Ctx;
use crate::rng::{fnv64, Rng};
use crate::rops::{self, Config, Op, Trace};
use crate::util::{guarded, hex, unhex};
use crate::watchdog;
use std::sync::atomic::Ordering;

// ------------------------------------------------------------------------------------------------
// reference decode: every frame through whole-frame calls on zeroed buffers

#[derive(Clone, Debug, PartialEq)]
pub struct RefFrame {
    pub w: u32,
    pub h: u32,
    pub line: usize,
    pub pixels: Vec<u8>,
    pub fc_seq: i64,
}

pub fn reference_frames(file: &[u8], flags: u8) -> Result<Vec<RefFrame>, String> {
    let file = file.to_vec();
    match guarded(move || -> Result<Vec<RefFrame>, String> {
        let mut dec = png::Decoder::new(std::io::Cursor::new(file));
        dec.set_transformations(rops::transformations(flags));
        let mut r = dec.read_info().map_err(|e| format!("read_info: {}", e))?;
        let mut out = vec![];
        let mut buf = vec![0u8; r.output_buffer_size()];
        loop {
            for b in buf.iter_mut() {
                *b = 0;
            }
            match r.next_frame(&mut buf) {
                Ok(oi) => {
                    let seq = r.info().frame_control.map(|f| f.sequence_number as i64).unwrap_or(-1);
                    out.push(RefFrame { w: oi.width, h: oi.height, line: oi.line_size, pixels: buf[..oi.buffer_size()].to_vec(), fc_seq: seq });
                }
                Err(png::DecodingError::Parameter(_)) => break,
                Err(e) => return Err(format!("next_frame {}: {}", out.len(), e)),
            }
            if out.len() > 64 {
                break;
            }
        }
        Ok(out)
    }) {
        Ok(r) => r,
        Err(p) => Err(format!("PANIC {}", p)),
    }
}

// ------------------------------------------------------------------------------------------------
// assembling executor (C13)

pub struct Assembled {
    /// (frame index, assembled pixels in the packed layout of the frame) for every frame that was completed
    pub frames: Vec<(usize, Vec<u8>)>,
    pub problems: Vec<String>,
}

fn parse_ii(ii: &png::InterlaceInfo) -> (bool, u8, u32, u32) {
    let d = format!("{:?}", ii);
    let nums: Vec<u64> = d.split(|c: char| !c.is_ascii_digit()).filter(|s| !s.is_empty()).filter_map(|s| s.parse().ok()).collect();
    if d.starts_with("Null") {
        (false, 0, nums.first().copied().unwrap_or(0) as u32, 0)
    } else {
        (true, nums.get(2).copied().unwrap_or(0) as u8, nums.get(3).copied().unwrap_or(0) as u32, nums.get(4).copied().unwrap_or(0) as u32)
    }
}

/// Run `ops` (after `read_info`) keeping the bytes: rows delivered by row-level calls are placed into the frame
/// (with the public Adam7 helper when interlaced); a whole-frame call receives the frame as assembled so far.
pub fn assemble(file: &[u8], ops: &[Op], flags: u8) -> Result<Assembled, String> {
    let file = file.to_vec();
    let ops = ops.to_vec();
    match guarded(move || -> Result<Assembled, String> {
        let mut dec = png::Decoder::new(std::io::Cursor::new(file));
        dec.set_transformations(rops::transformations(flags));
        let mut r = dec.read_info().map_err(|e| format!("read_info: {}", e))?;
        let mut out = Assembled { frames: vec![], problems: vec![] };
        let size = r.output_buffer_size();
        let mut canvas = vec![0u8; size];
        let mut frame = 0usize; // index of the frame currently being assembled
        let mut touched = false; // some row of the current frame was delivered
        let mut skipped_partial = false;
        let mut closed = false; // the current frame has been completed and no new frame started yet
        for op in &ops {
            match op {
                Op::NextFrame(_) => {
                    let starting_new = closed;
                    if starting_new {
                        for b in canvas.iter_mut() {
                            *b = 0;
                        }
                    }
                    match r.next_frame(&mut canvas) {
                        Ok(oi) => {
                            if starting_new {
                                frame += 1;
                            }
                            if !skipped_partial {
                                out.frames.push((frame, canvas[..oi.buffer_size()].to_vec()));
                            }
                            closed = true;
                            touched = false;
                            skipped_partial = false;
                        }
                        Err(png::DecodingError::Parameter(_)) => {}
                        Err(e) => {
                            out.problems.push(format!("next_frame failed on a valid file: {}", e));
                            break;
                        }
                    }
                }
                Op::NextRow | Op::ReadRow => {
                    let (cw, ch) = { let i = r.info(); (i.width, i.height) };
                    let (sw, sh) = r.info().frame_control.map(|f| (f.width, f.height)).unwrap_or((cw, ch));
                    let line = r.output_line_size(sw);
                    let (c, d) = r.output_color_type();
                    let bits = c.samples() as u8 * d as u8;
                    let res: Result<Option<(png::InterlaceInfo, Vec<u8>)>, png::DecodingError> = if *op == Op::NextRow {
                        r.next_interlaced_row().map(|o| o.map(|row| (*row.interlace(), row.data().to_vec())))
                    } else {
                        let mut buf = vec![0u8; r.output_line_size(cw)];
                        r.read_row(&mut buf).map(|o| o.map(|ii| (ii, buf)))
                    };
                    match res {
                        Ok(Some((ii, data))) => {
                            if closed {
                                // rows must never be delivered for a frame that was already completed
                                out.problems.push(format!("a row was delivered after frame {} had been completed and before a new frame was started", frame));
                                break;
                            }
                            let (adam, pass, l, w) = parse_ii(&ii);
                            touched = true;
                            // a row handed out by the Reader-owned buffer is exactly one scanline of the (reduced) image: not longer
                            if *op == Op::NextRow {
                                let want = if adam { r.output_line_size(w) } else { line };
                                if data.len() != want {
                                    out.problems.push(format!("next_interlaced_row returned {} bytes for a scanline of {} pixels ({} bytes)", data.len(), if adam { w } else { sw }, want));
                                    break;
                                }
                            }
                            if adam {
                                let n = r.output_line_size(w);
                                // read_row fills a caller buffer sized for the full width; a caller that cannot know the width of the
                                // pass hands the whole buffer on - the surplus must be ignored (seeded change C13_8)
                                let given = if *op == Op::ReadRow { &data[..] } else { &data[..n.min(data.len())] };
                                png::expand_interlaced_row(&mut canvas, line, given, &png::Adam7Info::new(pass, l, w), bits);
                            } else {
                                let at = l as usize * line;
                                if at + line <= canvas.len() && (l as u32) < sh {
                                    canvas[at..at + line].copy_from_slice(&data[..line]);
                                } else {
                                    out.problems.push(format!("row {} outside the frame", l));
                                }
                            }
                        }
                        Ok(None) => {
                            if !closed {
                                if !skipped_partial {
                                    out.frames.push((frame, canvas[..line * sh as usize].to_vec()));
                                }
                                closed = true;
                                touched = false;
                                skipped_partial = false;
                            }
                        }
                        Err(png::DecodingError::Parameter(_)) => {}
                        Err(e) => {
                            out.problems.push(format!("row call failed on a valid file: {}", e));
                            break;
                        }
                    }
                }
                Op::NextFrameInfo => match r.next_frame_info() {
                    Ok(_) => {
                        // the previous frame (complete or not) is abandoned; a new frame starts
                        for b in canvas.iter_mut() {
                            *b = 0;
                        }
                        frame += 1;
                        closed = false;
                        touched = false;
                        skipped_partial = false;
                    }
                    Err(png::DecodingError::Parameter(_)) => {}
                    Err(e) => {
                        out.problems.push(format!("next_frame_info failed on a valid file: {}", e));
                        break;
                    }
                },
                _ => {}
            }
            let _ = touched;
        }
        Ok(out)
    }) {
        Ok(r) => r,
        Err(p) => Err(format!("PANIC {}", p)),
    }
}

// ------------------------------------------------------------------------------------------------
// small valid files

pub fn small_valid_files(rng: &mut Rng, n: usize) -> Vec<corpus::TestFile> {
    let mut out = vec![];
    for i in 0..n {
        let mut r = rng.fork(i as u64);
        let f = match i % 4 {
            0 => {
                let mut s = random_still(&mut r, 7);
                s.interlace = false;
                let (cs, _) = still_chunks(&s, &mut r);
                corpus::TestFile { bytes: serialize(&cs), source: "still".into(), model_domain: true }
            }
            1 => {
                let mut s = random_still(&mut r, 9);
                s.interlace = true;
                let (cs, _) = still_chunks(&s, &mut r);
                corpus::TestFile { bytes: serialize(&cs), source: "still-adam7".into(), model_domain: true }
            }
            _ => {
                let mut a = random_anim(&mut r, 6, 3);
                if i % 8 == 7 {
                    // every second animation: Adam7 with a frame narrower than the canvas (sub-frame stride vs canvas stride)
                    for _ in 0..200 {
                        if a.interlace && a.w >= 3 && a.frames.iter().any(|f| f.img.w < a.w && f.img.w >= 2 && f.img.h >= 2) {
                            break;
                        }
                        a = random_anim(&mut r, 7, 3);
                    }
                }
                let (cs, _) = anim_chunks(&a, &mut r);
                let src = format!("apng{}{}", if a.interlace { "-adam7" } else { "" }, if a.default_image.is_some() { "-sepdefault" } else { "" });
                corpus::TestFile { bytes: serialize(&cs), source: src, model_domain: true }
            }
        };
        out.push(f);
    }
    out
}

fn all_sequences(alphabet: &[Op], max_len: usize) -> Vec<Vec<Op>> {
    let mut out: Vec<Vec<Op>> = vec![vec![]];
    let mut frontier: Vec<Vec<Op>> = vec![vec![]];
    for _ in 0..max_len {
        let mut next = vec![];
        for s in &frontier {
            for a in alphabet {
                let mut t = s.clone();
                t.push(a.clone());
                next.push(t);
            }
        }
        out.extend(next.iter().cloned());
        frontier = next;
    }
    out
}

fn case(file: &[u8], visible0: usize, ops: &[Op], cfg: &Config) -> J {
    J::obj().set("file", J::s(&hex(file))).set("visible0", J::i(visible0 as u64)).set("ops", J::s(&rops::ops_string(ops)))
        .set("flags", J::i(cfg.flags)).set("opts", J::s(&opts_string(&cfg.opts))).set("limit", J::i(cfg.limit.map(|l| l as i64).unwrap_or(-1)))
        .set("via_setters", J::Bool(cfg.via_setters))
}

fn case_cfg(case: &J) -> (Vec<u8>, usize, Vec<Op>, Config) {
    let file = case.get("file").and_then(|f| f.as_str()).and_then(unhex).unwrap_or_default();
    let v = case.get("visible0").and_then(|f| f.as_i64()).unwrap_or(file.len() as i64) as usize;
    let ops = rops::parse_ops(case.get("ops").and_then(|f| f.as_str()).unwrap_or(""));
    let mut cfg = Config::default();
    cfg.flags = case.get("flags").and_then(|f| f.as_i64()).unwrap_or(0) as u8;
    if let Some(o) = case.get("opts").and_then(|f| f.as_str()) {
        for (i, ch) in o.chars().enumerate().take(5) {
            cfg.opts[i] = ch == '1';
        }
    }
    let l = case.get("limit").and_then(|f| f.as_i64()).unwrap_or(-1);
    cfg.limit = if l >= 0 { Some(l as usize) } else { None };
    cfg.via_setters = matches!(case.get("via_setters"), Some(J::Bool(true)));
    (file, v, ops, cfg)
}

/// compare many runs with the model in one batch; `domain[i]` says whether a disagreement is a violation or a gap
pub(crate) fn model_batch(ctx: &mut Ctx, runs: &[(Vec<u8>, usize, Vec<Op>, Config, bool)], traces: &[Trace], class: &str) {
    let lines: Vec<String> = runs.iter().map(|(f, v, ops, cfg, _)| rops::model_line(f, *v, ops, cfg)).collect();
    let answers = model::ask(&lines);
    for (i, (f, v, ops, cfg, dom)) in runs.iter().enumerate() {
        ctx.rep.model_compared += 1;
        if model::outside_domain(&answers[i]) {
            // the executable model declined (cost guard) or timed out: not compared, never counted as agreement
            ctx.rep.model_gaps += 1;
            continue;
        }
        if !rops::agree(&answers[i], &traces[i]) {
            // With a growing input the moment at which a call runs out of data depends on how eagerly the inflater
            // hands out bytes (the driver's inflater is maximally eager, fdeflate may hold a few back): only the
            // sequence of results other than end-of-input is compared then.
            if ops.iter().any(|o| matches!(o, Op::Grow(_))) && rops::agree_modulo_eof(&answers[i], &traces[i], ops) {
                ctx.rep.count("model comparison", "equal up to the placement of end-of-input");
                continue;
            }
            if *dom {
                ctx.rep.violation("model", &format!("reader-model/{}", class), &format!("Reader model `{}` vs implementation `{}`", cut(&answers[i]), cut(&traces[i].text())), case(f, *v, ops, cfg));
            } else {
                ctx.rep.model_gaps += 1;
                if std::env::var("VERIF_DEBUG").is_ok() {
                    eprintln!("GAP {}\n  model {}\n  impl  {}", rops::ops_string(ops), cut(&answers[i]), cut(&traces[i].text()));
                }
            }
        }
    }
}

fn cut(s: &str) -> String {
    crate::util::shorten(s, 450, 200)
}

// ------------------------------------------------------------------------------------------------
// C13

pub fn run_c13(ctx: &mut Ctx) {
    ctx.rep.rule = "valid reference-built files (non-interlaced / Adam7 stills, APNGs with and without separate default image, sub-frames, 1-3 frames) x ALL operation sequences up to a bounded length over \
        {next_frame, next_interlaced_row, read_row, next_frame_info} (exhaustive), random sequences up to 60 operations beyond; each sequence is executed twice: keeping the bytes (rows re-assembled with the public Adam7 helper, \
        a mid-frame next_frame receives the frame as assembled so far) and compared per completed frame with a fresh whole-frame decode; and as a token trace compared with the Lean Reader model; \
        non-trivial = sequence contains a row-level call and a frame-level call, or >= 2 calls; distinct = hash(file, sequence)".into();
    let mut rng = ctx.rng.fork(1);
    let files = small_valid_files(&mut rng, ctx.n(24, 40));
    let alphabet = [Op::NextFrame(0), Op::NextRow, Op::ReadRow, Op::NextFrameInfo];
    let max_len = ctx.n(5, 7);
    let mut seqs = all_sequences(&alphabet, max_len);
    for k in 0..ctx.n(40, 400) {
        let mut r = rng.fork(5000 + k as u64);
        let n = r.usize(8, 60);
        seqs.push((0..n).map(|_| r.pick(&alphabet).clone()).collect());
    }
    for (fi, f) in files.iter().enumerate() {
        let refs = match reference_frames(&f.bytes, 0) {
            Ok(r) => r,
            Err(e) => {
                ctx.rep.notes.push(format!("generator file {} does not decode: {}", fi, e));
                continue;
            }
        };
        let cfg = Config::default();
        let mut runs = vec![];
        let mut traces = vec![];
        // the model is compared on a sample of the sequences (it is ~100x slower than the implementation)
        let stride = ctx.n(9, 3);
        for (si, ops) in seqs.iter().enumerate() {
            let nontrivial = ops.len() >= 2;
            ctx.rep.eval(nontrivial, fnv64(&f.bytes) ^ fnv64(rops::ops_string(ops).as_bytes()));
            ctx.rep.count("file kind", &f.source);
            ctx.rep.count("sequence length", &format!("{:02}", ops.len().min(10)));
            watchdog::enter(&format!("c13 {} {}", rops::ops_string(ops), hex(&f.bytes)));
            match assemble(&f.bytes, ops, 0) {
                Err(p) => ctx.rep.violation("oracle", "panic", &format!("panic during [{}]: {}", rops::ops_string(ops), p), case(&f.bytes, f.bytes.len(), &with_ri(ops), &cfg)),
                Ok(a) => {
                    for p in &a.problems {
                        ctx.rep.violation("oracle", "path-problem", &format!("[{}]: {}", rops::ops_string(ops), p), case(&f.bytes, f.bytes.len(), &with_ri(ops), &cfg));
                    }
                    for (k, px) in &a.frames {
                        match refs.get(*k) {
                            None => ctx.rep.violation("oracle", "extra-frame", &format!("[{}] delivered a frame {} that does not exist", rops::ops_string(ops), k), case(&f.bytes, f.bytes.len(), &with_ri(ops), &cfg)),
                            Some(rf) => {
                                if &rf.pixels != px {
                                    let at = rf.pixels.iter().zip(px).position(|(a, b)| a != b).unwrap_or(0);
                                    ctx.rep.violation("oracle", &format!("frame-differs/{}", f.source), &format!("[{}]: pixels of frame {} assembled from this path differ from the whole-frame decode at byte {}", rops::ops_string(ops), k, at),
                                        case(&f.bytes, f.bytes.len(), &with_ri(ops), &cfg));
                                }
                            }
                        }
                    }
                }
            }
            watchdog::leave();
            if si % stride == 0 {
                let full = with_ri(ops);
                traces.push(rops::run_ops(&f.bytes, f.bytes.len(), &full, &cfg));
                runs.push((f.bytes.clone(), f.bytes.len(), full, Config::default(), true));
            }
        }
        model_batch(ctx, &runs, &traces, "c13");
        if fi < 2 {
            ctx.rep.sample(J::obj().set("file", J::s(&f.source)).set("frames", J::i(refs.len() as u64)).set("example_sequence", J::s(&rops::ops_string(&seqs[seqs.len() / 2]))));
        }
    }
    ctx.rep.exhaustive.push(format!("all operation sequences of length <= {} over 4 calls per file", max_len));
    // images whose last rows come out of the inflater only when the data sequence is finished (whole-file delivery): part of
    // the frame by row calls, the rest by next_frame (defect D23, repaired by 429476f)
    let cfg = Config::default();
    for (file, h) in crate::props::c04::flush_carrying_files(&mut rng) {
        let refs = match reference_frames(&file, 0) { Ok(r) => r, Err(_) => continue };
        for k in 1..=3u32 {
            for last in [Op::NextFrame(0), Op::NextFrame(7)] {
                let mut ops: Vec<Op> = (0..h.saturating_sub(k)).map(|i| if i % 7 == 3 { Op::ReadRow } else { Op::NextRow }).collect();
                ops.push(last);
                ctx.rep.eval(true, fnv64(&file) ^ k as u64);
                ctx.rep.count("file kind", "flush-carrying");
                match assemble(&file, &ops, 0) {
                    Err(p) => ctx.rep.violation("oracle", "panic", &format!("panic during rows x {} + next_frame: {}", h - k, p), case(&file, file.len(), &with_ri(&ops), &cfg)),
                    Ok(a) => {
                        for p in &a.problems {
                            ctx.rep.violation("oracle", "path-problem", &format!("{} rows by row calls, then next_frame ({} rows left): {}", h - k, k, p), case(&file, file.len(), &with_ri(&ops), &cfg));
                        }
                        for (fk, px) in &a.frames {
                            if refs.get(*fk).map(|rf| &rf.pixels != px).unwrap_or(true) {
                                ctx.rep.violation("oracle", "frame-differs/flush-carrying", &format!("{} rows by row calls, then next_frame: frame {} differs from the whole-frame decode", h - k, fk), case(&file, file.len(), &with_ri(&ops), &cfg));
                            }
                        }
                        if a.frames.is_empty() {
                            ctx.rep.violation("oracle", "path-problem", &format!("{} rows by row calls, then next_frame: no frame was completed", h - k), case(&file, file.len(), &with_ri(&ops), &cfg));
                        }
                    }
                }
            }
        }
    }
    c13_flush_carrying_anims(ctx, &mut rng);
}

/// C13, animations whose FIRST frame carries rows in the flush: part of frame 0 by row calls, the rest by next_frame, then frame 1
fn c13_flush_carrying_anims(ctx: &mut Ctx, rng: &mut Rng) {
    let cfg = Config::default();
    for (file, h) in crate::props::c04::flush_carrying_anims(rng) {
        let refs = match reference_frames(&file, 0) { Ok(r) => r, Err(_) => continue };
        for k in [1u32, 2, 3, 5] {
            let mut ops: Vec<Op> = (0..h.saturating_sub(k)).map(|i| if i % 7 == 3 { Op::ReadRow } else { Op::NextRow }).collect();
            ops.push(Op::NextFrame(0));
            ops.push(Op::NextFrame(9));
            ctx.rep.eval(true, fnv64(&file) ^ (k as u64) << 8);
            ctx.rep.count("file kind", "flush-carrying first frame of an animation");
            match assemble(&file, &ops, 0) {
                Err(p) => ctx.rep.violation("oracle", "panic", &format!("panic during rows x {} + next_frame x 2: {}", h - k, p), case(&file, file.len(), &with_ri(&ops), &cfg)),
                Ok(a) => {
                    for p in &a.problems {
                        ctx.rep.violation("oracle", "path-problem", &format!("animation: {} rows of frame 0 by row calls, then next_frame twice ({} rows left): {}", h - k, k, p), case(&file, file.len(), &with_ri(&ops), &cfg));
                    }
                    for (fk, px) in &a.frames {
                        if refs.get(*fk).map(|rf| &rf.pixels != px).unwrap_or(true) {
                            ctx.rep.violation("oracle", "frame-differs/flush-carrying-animation", &format!("animation: {} rows of frame 0 by row calls, then next_frame twice: frame {} differs from the whole-frame decode", h - k, fk), case(&file, file.len(), &with_ri(&ops), &cfg));
                        }
                    }
                    if a.frames.len() != 2 {
                        ctx.rep.violation("oracle", "path-problem", &format!("animation: {} rows of frame 0 by row calls, then next_frame twice: {} frames were completed, the file has 2", h - k, a.frames.len()), case(&file, file.len(), &with_ri(&ops), &cfg));
                    }
                }
            }
        }
    }
}

fn with_ri(ops: &[Op]) -> Vec<Op> {
    let mut v = vec![Op::ReadInfo];
    v.extend(ops.iter().cloned());
    v
}

// ------------------------------------------------------------------------------------------------
// C09

pub fn run_c09(ctx: &mut Ctx) {
    ctx.rep.rule = "reference-built APNGs: 1..5 frames x sub-frame rectangles (random and every (w,h,x,y) inside small canvases in the thorough tier) x 15 colour/depth pairs x both interlace methods x 1..k fdAT chunks per frame (incl. 1-byte payloads) \
        x default image inside/outside the animation x buffers pre-filled with 0x00 / 0xFF / random; successive next_frame results compared with the frames the file was built from: frame-control values, OutputInfo, the first line_size*height bytes, \
        bytes beyond them untouched, end-of-image afterwards; token traces compared with the Lean Reader model; non-trivial = at least 2 frames or a sub-frame; distinct = hash(file, prefill)".into();
    let mut rng = ctx.rng.fork(1);
    let n = ctx.n(4000, 12000);
    let mut runs = vec![];
    let mut traces = vec![];
    for i in 0..n {
        let mut r = rng.fork(i as u64);
        let a = random_anim(&mut r, if i % 7 == 0 { 20 } else { 7 }, 5);
        let (cs, exp) = anim_chunks(&a, &mut r);
        let file = serialize(&cs);
        let prefill: u8 = *r.pick(&[0u8, 0xFF, 0xA5]);
        let nontrivial = exp.len() >= 2 || exp.iter().any(|e| e.w != a.w || e.h != a.h);
        ctx.rep.eval(nontrivial, fnv64(&file) ^ prefill as u64);
        ctx.rep.count("frames", &exp.len().to_string());
        ctx.rep.count("interlace", if a.interlace { "adam7" } else { "none" });
        ctx.rep.count("colour/depth", &format!("{}/{}", a.color, a.depth));
        ctx.rep.count("prefill", &format!("{:02x}", prefill));
        ctx.rep.count("default image", if a.default_image.is_some() { "separate" } else { "first frame" });
        let cfg = Config::default();
        let kcase = |ops: &[Op]| case(&file, file.len(), ops, &cfg);
        // the implementation, keeping the bytes
        let filec = file.clone();
        let expc = exp.clone();
        let bits_pp = samples(a.color) * a.depth as usize;
        let (want_actl, first_in_animation) = ((a.frames.len() as u32, a.plays), a.default_image.is_none());
        let use_nfi = i % 3 == 1;
        ctx.rep.count("frames entered with", if use_nfi { "next_frame_info, then next_frame" } else { "next_frame" });
        let res = guarded(move || -> Vec<(String, String)> {
            let mut problems = vec![];
            let dec = png::Decoder::new(std::io::Cursor::new(filec));
            let mut rd = match dec.read_info() {
                Ok(r) => r,
                Err(e) => return vec![("rejected".into(), format!("read_info failed on a valid APNG: {}", e))],
            };
            // the public accessors of Info (oracle only: compared with the parameters the file was built from)
            let got_actl = rd.info().animation_control().map(|c| (c.num_frames, c.num_plays));
            if got_actl != Some(want_actl) {
                problems.push(("accessors/animation_control".into(), format!("Info::animation_control() is {:?} after read_info, the acTL written says {:?}", got_actl, want_actl)));
            }
            // is_animated() = an animation is declared and a frame of it has been reached
            if rd.info().is_animated() != first_in_animation {
                problems.push(("accessors/is_animated".into(), format!("Info::is_animated() is {} after read_info (IDAT image {} the animation)", rd.info().is_animated(), if first_in_animation { "is the first frame of" } else { "is not part of" })));
            }
            let size = rd.output_buffer_size();
            for (k, e) in expc.iter().enumerate() {
                let mut buf = vec![prefill; size];
                if use_nfi && k >= 1 {
                    // the frame is entered with next_frame_info first (it reports this frame's control chunk); behind the last
                    // frame a second next_frame_info is REFUSED and must leave the frame it did not replace deliverable
                    match rd.next_frame_info() {
                        Ok(fc) => {
                            if (fc.width, fc.height) != (e.w, e.h) {
                                problems.push(("frame-control".into(), format!("next_frame_info before frame {}: {}x{}, the file says {}x{}", k, fc.width, fc.height, e.w, e.h)));
                            }
                        }
                        Err(err) => {
                            problems.push(("rejected".into(), format!("next_frame_info in front of frame {} of a valid APNG failed: {}", k, err)));
                            return problems;
                        }
                    }
                    if k + 1 == expc.len() {
                        match rd.next_frame_info() {
                            Err(png::DecodingError::Parameter(_)) => {}
                            Ok(_) => problems.push(("extra-frame".into(), "next_frame_info reported a frame behind the last one".into())),
                            Err(err) => problems.push(("end-of-image".into(), format!("next_frame_info behind the last frame: {}", err))),
                        }
                    }
                }
                match rd.next_frame(&mut buf) {
                    Err(err) => {
                        problems.push(("rejected".into(), format!("frame {} of a valid APNG failed{}: {}", k, if use_nfi && k >= 1 { " (entered with next_frame_info)" } else { "" }, err)));
                        return problems;
                    }
                    Ok(oi) => {
                        let img = Img { color: 0, depth: 8, w: 0, h: 0, pixels: vec![] };
                        let _ = img;
                        let line = e.pixels.len() / e.h.max(1) as usize;
                        if (oi.width, oi.height, oi.line_size) != (e.w, e.h, line) {
                            problems.push(("output-info".into(), format!("frame {}: OutputInfo {}x{} line {} but the frame is {}x{} line {}", k, oi.width, oi.height, oi.line_size, e.w, e.h, line)));
                        }
                        let fc = rd.info().frame_control;
                        if rd.info().is_animated() != e.fc.is_some() || rd.info().animation_control().map(|c| (c.num_frames, c.num_plays)) != Some(want_actl) {
                            problems.push(("accessors/is_animated".into(), format!("frame {}: Info::is_animated() is {} and animation_control() {:?}; the frame {} a frame control, acTL written {:?}", k, rd.info().is_animated(),
                                rd.info().animation_control().map(|c| (c.num_frames, c.num_plays)), if e.fc.is_some() { "has" } else { "has not" }, want_actl)));
                        }
                        if rd.info().frame_control().map(|g| (g.sequence_number, g.width, g.height, g.x_offset, g.y_offset)) != fc.map(|g| (g.sequence_number, g.width, g.height, g.x_offset, g.y_offset)) {
                            problems.push(("accessors/frame_control".into(), format!("frame {}: Info::frame_control() {:?} differs from the field {:?}", k, rd.info().frame_control(), fc)));
                        }
                        match (&e.fc, fc) {
                            (Some(w), Some(g)) => {
                                if (g.sequence_number, g.width, g.height, g.x_offset, g.y_offset, g.delay_num, g.delay_den, g.dispose_op as u8, g.blend_op as u8)
                                    != (w.seq, w.w, w.h, w.x, w.y, w.delay_num, w.delay_den, w.dispose, w.blend) {
                                    problems.push(("frame-control".into(), format!("frame {}: frame_control {:?} differs from the fcTL written {:?}", k, g, w)));
                                }
                            }
                            (None, None) => {}
                            (None, Some(_)) | (Some(_), None) => problems.push(("frame-control".into(), format!("frame {}: frame_control presence differs", k))),
                        }
                        let n = oi.buffer_size().min(buf.len());
                        // padding bits at the end of a row are not pixels: the interlaced path leaves them as the buffer had them
                        let used_bits = e.w as usize * (line * 8 / ((e.w as usize * bits_pp + 7) / 8 * 8 / bits_pp.max(1)).max(1)).min(bits_pp.max(1));
                        let _ = used_bits;
                        if line > 0 && (e.w as usize * bits_pp) % 8 != 0 {
                            let keep = ((e.w as usize * bits_pp) % 8) as u32;
                            let mask = !(0xFFu8 >> keep);
                            for y in 0..e.h as usize {
                                let at = y * line + line - 1;
                                if at < n {
                                    buf[at] = (buf[at] & mask) | (e.pixels[at] & !mask);
                                }
                            }
                        }
                        if buf[..n] != e.pixels[..] {
                            let at = buf[..n].iter().zip(&e.pixels).position(|(a, b)| a != b).unwrap_or(0);
                            let sub = e.w as usize * 1 < 0; let _ = sub;
                            problems.push(("frame-pixels".into(), format!("frame {} ({}x{}): byte {} of the delivered frame is {:#04x}, the frame's data reconstructs to {:#04x} (buffer pre-filled with {:#04x})", k, e.w, e.h, at, buf[at], e.pixels[at], prefill)));
                        }
                        if buf[n..].iter().any(|&b| b != prefill) {
                            problems.push(("beyond-frame".into(), format!("frame {}: bytes beyond OutputInfo::buffer_size() were modified", k)));
                        }
                    }
                }
            }
            let mut buf = vec![prefill; size];
            for _ in 0..2 {
                match rd.next_frame(&mut buf) {
                    Err(png::DecodingError::Parameter(_)) => {}
                    Ok(_) => problems.push(("extra-frame".into(), "a frame was delivered after the last one".into())),
                    Err(e) => problems.push(("end-of-image".into(), format!("after the last frame: {}", e))),
                }
            }
            problems
        });
        let il = if a.interlace { "adam7" } else { "none" };
        let ops: Vec<Op> = std::iter::once(Op::ReadInfo).chain((0..exp.len() + 2).map(|_| Op::NextFrame(prefill))).collect();
        match res {
            Err(p) => ctx.rep.violation("oracle", "panic", &format!("panic: {}", p), kcase(&ops)),
            Ok(problems) => {
                for (k, what) in problems {
                    let sub = exp.iter().any(|e| e.w != a.w || e.h != a.h);
                    let key = if k == "frame-pixels" { format!("frame-pixels/{}{}{}", il, if sub { "/subframe" } else { "" }, if a.depth < 8 { "/subbyte" } else { "" }) } else { k };
                    ctx.rep.violation("oracle", &key, &what, kcase(&ops));
                }
            }
        }
        if i % ctx.n(2, 4) == 0 && file.len() < 3000 {
            traces.push(rops::run_ops(&file, file.len(), &ops, &cfg));
            runs.push((file.clone(), file.len(), ops.clone(), Config::default(), true));
        }
        if i < 2 {
            ctx.rep.sample(J::obj().set("frames", J::i(exp.len() as u64)).set("canvas", J::s(&format!("{}x{}", a.w, a.h))).set("interlace", J::Bool(a.interlace)).set("file_bytes", J::i(file.len() as u64)));
        }
    }
    model_batch(ctx, &runs, &traces, "c09");
}

// ------------------------------------------------------------------------------------------------
// C18

fn failing_files(rng: &mut Rng, n: usize) -> Vec<corpus::TestFile> {
    // files that fail at each stage: header, metadata, first row, mid-frame, between frames, trailer
    let mut out = vec![];
    for i in 0..n {
        let mut r = rng.fork(i as u64);
        let base = if i % 2 == 0 { corpus::built_anim(&mut r, 6) } else { corpus::built_still(&mut r, 8, true) };
        let chunks = crate::props::c11::chunk_positions(&base.bytes);
        let mut b = base.bytes.clone();
        let stage = i % 7;
        let name = match stage {
            0 => { b[r.usize(0, 7)] ^= 0x10; "fail-signature" }
            1 => { b[8 + 8 + 8] = 3; "fail-header" } // bit depth 3
            2 => {
                // second IHDR before IDAT
                let at = chunks.iter().find(|c| &c.ty == b"IDAT").map(|c| c.start).unwrap_or(33);
                let ih = b[8..33].to_vec();
                for (k, x) in ih.into_iter().enumerate() { b.insert(at + k, x); }
                "fail-metadata"
            }
            3 => {
                // corrupt the start of the image data
                if let Some(c) = chunks.iter().find(|c| &c.ty == b"IDAT" && c.len > 2) { b[c.start + 8] ^= 0xFF; }
                "fail-first-row"
            }
            4 => {
                if let Some(c) = chunks.iter().filter(|c| &c.ty == b"IDAT" && c.len > 6).last() { b[c.start + 8 + c.len - 6] ^= 0x55; }
                "fail-mid-frame"
            }
            5 => {
                if let Some(c) = chunks.iter().find(|c| &c.ty == b"fcTL" && c.frame >= 1) { b[c.start + 8 + 3] ^= 0x7; }
                "fail-between-frames"
            }
            _ => {
                let n = b.len();
                b[n - 6] ^= 1; // IEND type
                "fail-trailer"
            }
        };
        let bytes = corpus::repair_crcs(&b).unwrap_or(b);
        out.push(corpus::TestFile { bytes, source: name.into(), model_domain: false });
    }
    out
}

/// files with well-formed framing and well-formed zlib streams whose failure is raised by the Reader layer: a frame that holds
/// fewer rows than its header announces, or an undefined filter-type byte in some row (stills; first or second APNG frame)
fn semantic_failing_files(rng: &mut Rng, n: usize) -> Vec<corpus::TestFile> {
    let mut out = vec![];
    for i in 0..n {
        let mut r = rng.fork(4000 + i as u64);
        let img = Img::random(&mut r, [0u8, 2, 3, 4, 6][i % 5], 8, 7, 7);
        let interlace = i % 4 == 3;
        let damage = |raw: &mut Vec<u8>, r: &mut Rng, kind: usize, rb: usize, h: usize| {
            if kind == 0 {
                // drop 1..h-1 whole rows (and sometimes part of one more) from the end
                // mostly at least one whole row survives (the reader then holds a previous row when the frame fails), sometimes none
                let keep_rows = if h > 1 { if r.chance(1, 4) { 0 } else { r.usize(1, h - 1) } } else { 0 };
                let cut = (keep_rows * (rb + 1) + if r.usize(0, 2) == 0 { r.usize(0, rb) } else { 0 }).min(raw.len().saturating_sub(1));
                raw.truncate(cut);
            } else if !raw.is_empty() {
                let row = r.usize(0, h - 1);
                let at = (row * (rb + 1)).min(raw.len() - 1);
                raw[at] = r.range(5, 255) as u8;
            }
        };
        let kind = i % 2;
        let (mut raw, _) = scanlines(&img, interlace, &Filters::Random, &mut r);
        let mut cs = vec![ihdr(img.w, img.h, img.depth, img.color, interlace as u8)];
        if img.color == 3 {
            cs.push(RawChunk::new(b"PLTE", (0..(3usize << img.depth.min(8))).map(|k| k as u8).collect()));
        }
        let animated = i % 3 != 0;
        let name = if kind == 0 { "fail-short-data" } else { "fail-bad-filter" };
        if !animated {
            if !interlace {
                damage(&mut raw, &mut r, kind, img.row_bytes(), img.h as usize);
            } else if kind == 0 {
                let n = raw.len();
                raw.truncate(r.usize(0, n - 1));
            } else {
                raw[0] = r.range(5, 255) as u8;
            }
            cs.push(RawChunk::new(b"IDAT", zlib_stream(&raw, &Deflater::Level(6))));
        } else {
            // two frames; the damaged one is the first or the second.  When the first is damaged the second is, in half of the cases, a
            // NARROWER sub-frame: whatever the reader keeps from the failed frame (previous row, partial row) then has the wrong length
            let which = i % 4 < 2;
            let narrow = which && (i / 4) % 2 == 0 && img.w > 1;
            let second = if narrow {
                let (w2, h2) = (r.range(1, img.w as u64 - 1) as u32, r.range(1, img.h as u64) as u32);
                Img::random(&mut r, img.color, img.depth, w2, h2)
            } else {
                let second = Img::random(&mut r, img.color, img.depth, img.w, img.w);
                let second = Img { w: img.w, h: img.h, ..second };
                if second.pixels.len() == img.pixels.len() { second } else { img.clone() }
            };
            let (mut raw2, _) = scanlines(&second, interlace, &Filters::Random, &mut r);
            let target: &mut Vec<u8> = if which { &mut raw } else { &mut raw2 };
            if !interlace {
                damage(target, &mut r, kind, img.row_bytes(), img.h as usize);
            } else if kind == 0 {
                let n = target.len();
                target.truncate(r.usize(0, n - 1));
            } else {
                target[0] = r.range(5, 255) as u8;
            }
            cs.push(actl(2, 0));
            cs.push(Fctl { seq: 0, w: img.w, h: img.h, x: 0, y: 0, delay_num: 1, delay_den: 1, dispose: 0, blend: 0 }.chunk());
            cs.push(RawChunk::new(b"IDAT", zlib_stream(&raw, &Deflater::Level(6))));
            cs.push(Fctl { seq: 1, w: second.w, h: second.h, x: 0, y: 0, delay_num: 1, delay_den: 1, dispose: 0, blend: 0 }.chunk());
            let mut d = 2u32.to_be_bytes().to_vec();
            d.extend(zlib_stream(&raw2, &Deflater::Level(6)));
            cs.push(RawChunk::new(b"fdAT", d));
        }
        cs.push(RawChunk::new(b"IEND", vec![]));
        out.push(corpus::TestFile { bytes: serialize(&cs), source: name.into(), model_domain: false });
    }
    out
}

/// the Lean `Reader` model follows the repaired `read_until_image_data` (reservation before the sub-frame is installed)
const MODEL_FOLLOWS_REFUSED_FRAME_REPAIR: bool = true;

/// APNGs (still and interlaced, several colour types) whose first frame is small and whose later frames are wider, each with
/// a limit under which `[read_info, next_frame, next_frame_info]` answers `[hdr, frame, err(limits)]`
fn refused_frame_files(rng: &mut Rng, n: usize) -> Vec<(Vec<u8>, usize, u8)> {
    let mut out = vec![];
    let mut tries = 0;
    while out.len() < n && tries < 20 * n {
        tries += 1;
        let (color, depth) = *rng.pick(&LEGAL_PAIRS);
        let w = rng.range(40, 400) as u32;
        let h = rng.range(1, 4) as u32;
        let interlace = rng.below(3) == 0;
        let mk = |rng: &mut Rng, fw: u32, fh: u32| AnimFrame { x: 0, y: 0, img: Img::random(rng, color, depth, fw, fh), delay: (1, 10), dispose: 0, blend: 0,
            filters: Filters::Random, deflater: Deflater::Level(6), split: Split::One };
        let mut frames = vec![mk(rng, 1, 1)];
        for _ in 0..rng.usize(1, 2) {
            frames.push(mk(rng, w, h));
        }
        // the IDAT image must cover the canvas: use a separate default image only when the first frame is a sub-frame
        let a = Anim { color, depth, w, h, interlace, plays: 0, default_image: None, frames };
        let (mut cs, _) = anim_chunks(&a, rng);
        // the first frame control may describe a sub-frame of the canvas for the IDAT image too
        let _ = &mut cs;
        let bytes = serialize(&cs);
        let flags = if rng.below(3) == 0 { rng.below(8) as u8 } else { 0 };
        let probe = [Op::ReadInfo, Op::NextFrame(0), Op::NextFrameInfo];
        for shift in 4..16usize {
            let base = 1usize << shift;
            for limit in [base, base + base / 2] {
                let cfg = Config { limit: Some(limit), flags, ..Config::default() };
                let t = rops::run_ops(&bytes, bytes.len(), &probe, &cfg);
                if !t.panicked && t.tokens.len() == 3 && t.tokens[1].starts_with("frame(") && t.tokens[2] == "err(limits)" {
                    out.push((bytes.clone(), limit, flags));
                    break;
                }
            }
            if out.last().map(|x| x.0 == bytes).unwrap_or(false) {
                break;
            }
        }
    }
    out
}

/// index of the first terminal event in a token list: a fatal (format/limits) error, a successful finish, or the
/// end-of-image report after the last frame
fn first_terminal(tokens: &[String], ops: &[Op]) -> Option<usize> {
    for (i, t) in tokens.iter().enumerate() {
        if t == "err(format)" || t == "err(limits)" {
            return Some(i);
        }
        if t == "ok" && matches!(ops.get(i), Some(Op::Finish)) {
            return Some(i);
        }
    }
    None
}

const BAD_FILTER_APNG: &str = "89504e470d0a1a0a0000000d4948445200000001000000061002000000dde2bf25000000086163544c000000030000000220e3dbec0000001a6663544c0000000000000001000000060000000000000000002d001d0000dc26483a00000008494441547801012a00d5ff03f6c8630500000008494441540000000000000200dc7e3f0500000008494441540000000000000000ee485d870000000849444154000000000100000056f43ae200000008494441540000000100000000d328743700000008494441540000570000000000ffc365c8000000054944415400011f000a039f33ff0000001a6663544c0000000100000001000000010000000000000000002a00260200747c19170000001666644154000000027801edc003a0245996c6f1ff77ee8dc8cca7b2a003ef0000000a6664415400000003724b63ae6ddb6b49b197000000286664415400000004b66ddbb66ddbb66d698c9e964aaf9e323322eef976b76a7aa6873b6bd5af7ecf2bbc1c7fd3aba3cc0000000c6664415400000005f596ff0807aa022b29ae43710000001a6663544c000000060000000100000006000000000000000000420031010175c5648f0000007566644154000000077801edc003a0245996c6f1ff77ee8dc8cca7724b63ae6ddbb66ddbb66ddbb66d698c9e964aaf9e323322eef976b76a7aa6873b6bd5afbefc77bedccb7debdfeadbae79d93ff9878df89ccff8d8ad1b7fbffce897bdf8a51fde2eaffa97ab1fdafc07bdeb5bffc52fdff2d87f0453f6109ebb4b6f5c0000000049454e44ae426082";

pub fn run_c18(ctx: &mut Ctx) {
    ctx.rep.rule = "files that fail at each stage (signature, header, metadata, first row, mid-frame, between frames, trailer; CRCs repaired) and valid files x a prefix that reaches the first terminal event \
        (fatal format error / successful finish / last frame delivered) x ALL continuations up to a bounded length over {next_frame, next_row, read_row, next_frame_info, finish} (exhaustive), random longer ones; \
        oracle: after the terminal event every call returns an error or 'no more rows', never a panic, never a frame or row for a frame that failed or does not exist, and uses O(1) reads; \
        StreamingDecoder::reset: all ordered pairs from a pool of streams, decode of B after reset() following A vs fresh decode of B; token traces vs the Lean Reader model; distinct = hash(file, sequence)".into();
    let mut rng = ctx.rng.fork(1);
    let mut files = failing_files(&mut rng, ctx.n(28, 70));
    files.extend(small_valid_files(&mut rng, ctx.n(12, 24)));
    files.extend(semantic_failing_files(&mut rng, ctx.n(24, 60)));
    // a 3-frame APNG whose first frame has an undefined filter-type byte in its fifth row (D19: found by the thorough tier)
    // (model_domain = false: the frame count of the reference decoder stops at the damaged frame; later frames do exist)
    files.push(corpus::TestFile { bytes: unhex(BAD_FILTER_APNG).unwrap_or_default(), source: "fail-mid-frame".into(), model_domain: false });
    // animations that hold MORE frames than their acTL declares (0 or 1 declared; default image inside / outside the animation):
    // the frames behind the declared count do not exist for the caller - a call behind the last declared frame must be refused,
    // not answered with the surplus frame's pixels (how many frames there are is decided once, in read_info)
    for k in 0..ctx.n(8, 24) {
        let mut r = rng.fork(9900 + k as u64);
        let mut a = random_anim(&mut r, 6, 3);
        a.interlace = k % 3 == 0;
        if k % 2 == 0 { a.default_image = None; }
        let (mut cs, _) = anim_chunks(&a, &mut r);
        let declared = if k % 4 < 2 { 0u32 } else { (a.frames.len() as u32).saturating_sub(1) };
        if let Some(c) = cs.iter_mut().find(|c| &c.ty == b"acTL") {
            c.data[..4].copy_from_slice(&declared.to_be_bytes());
        }
        files.push(corpus::TestFile { bytes: serialize(&cs), source: "more-frames-than-declared".into(), model_domain: true });
    }
    let mut cfgs: Vec<Config> = vec![Config::default(); files.len()];
    // frames refused by Limits: a narrow first frame, wider later frames, a limit that admits the first frame only.  The
    // refusal (LimitsExceeded from next_frame / next_frame_info) is a fatal event: no row or frame of the refused frame
    // (or of a later one) may be delivered afterwards (defect repaired by 0a2b38f; found by the C06 data-path model)
    for (bytes, limit, flags) in refused_frame_files(&mut rng, ctx.n(10, 40)) {
        files.push(corpus::TestFile { bytes, source: "fail-limits-later-frame".into(), model_domain: MODEL_FOLLOWS_REFUSED_FRAME_REPAIR });
        cfgs.push(Config { limit: Some(limit), flags, ..Config::default() });
    }
    // files whose rows fail when the row TRANSFORMATION is created or applied (a Reader-level format error raised after the row
    // was fetched): an indexed image without PLTE under EXPAND / ALPHA; stills of 1..3 rows and animations, both interlace
    // methods.  Retrying the failed call must keep failing: it may never come back as a frame nobody decoded (seeded C18_5)
    for k in 0..ctx.n(8, 24) {
        let mut r = rng.fork(8800 + k as u64);
        let depth = *r.pick(&[1u8, 2, 4, 8]);
        let (w, h) = (r.range(1, 9) as u32, [1u32, 1, 2, 3][k % 4]);
        let interlace = k % 3 == 2;
        let img = Img::random(&mut r, 3, depth, w, h);
        let (raw, _) = scanlines(&img, interlace, &Filters::Random, &mut r);
        let z = zlib_stream(&raw, &Deflater::Level(6));
        let mut cs = vec![ihdr(w, h, depth, 3, interlace as u8)];
        if k % 2 == 1 {
            cs.push(actl(2, 0));
            cs.push(Fctl { seq: 0, w, h, x: 0, y: 0, delay_num: 1, delay_den: 1, dispose: 0, blend: 0 }.chunk());
            cs.push(RawChunk::new(b"IDAT", z.clone()));
            cs.push(Fctl { seq: 1, w, h, x: 0, y: 0, delay_num: 1, delay_den: 1, dispose: 0, blend: 0 }.chunk());
            let mut d = 2u32.to_be_bytes().to_vec();
            d.extend(z.clone());
            cs.push(RawChunk::new(b"fdAT", d));
        } else {
            cs.push(RawChunk::new(b"IDAT", z.clone()));
        }
        cs.push(RawChunk::new(b"IEND", vec![]));
        files.push(corpus::TestFile { bytes: serialize(&cs), source: "fail-transform-no-palette".into(), model_domain: false });
        cfgs.push(Config { flags: *r.pick(&[1u8, 5, 4, 3]), ..Config::default() });
    }
    let alphabet = [Op::NextFrame(0), Op::NextRow, Op::ReadRow, Op::NextFrameInfo, Op::Finish];
    let mut conts = all_sequences(&alphabet, ctx.n(3, 4));
    // next_frame with a buffer that is too short (0 / 1 / size-1 bytes): before the terminal event it is refused (or reports
    // the fatal error it runs into), after it it is one more call that must return an error and revive nothing.  The Lean
    // Reader model has no such call: these continuations are judged by the oracle only.
    for k in 0..3u8 {
        conts.push(vec![Op::ShortFrame(k)]);
        conts.push(vec![Op::ShortFrame(k), Op::NextFrame(0)]);
        conts.push(vec![Op::ShortFrame(k), Op::NextRow, Op::ReadRow]);
        conts.push(vec![Op::NextFrame(0), Op::ShortFrame(k), Op::NextFrame(0)]);
        conts.push(vec![Op::ShortFrame(k), Op::Finish, Op::ShortFrame((k + 1) % 3), Op::NextFrameInfo]);
    }
    let prefixes: Vec<Vec<Op>> = vec![
        vec![Op::ReadInfo],
        vec![Op::ReadInfo, Op::NextFrame(0)],
        vec![Op::ReadInfo, Op::NextRow],
        vec![Op::ReadInfo, Op::Finish],
        vec![Op::ReadInfo, Op::NextFrame(0), Op::NextFrame(0), Op::NextFrame(0), Op::NextFrame(0), Op::NextFrame(0)],
        vec![Op::ReadInfo, Op::NextRow, Op::NextRow, Op::NextFrameInfo],
        vec![Op::ReadInfo, Op::NextFrame(0), Op::Finish],
    ];
    let mut runs = vec![];
    let mut traces = vec![];
    let mut k = 0usize;
    for (fi, f) in files.iter().enumerate() {
        let cfg = cfgs[fi].clone();
        let nframes = reference_frames(&f.bytes, 0).map(|v| v.len()).unwrap_or(0);
        for p in &prefixes {
            for c in &conts {
                let mut ops = p.clone();
                ops.extend(c.iter().cloned());
                k += 1;
                ctx.rep.eval(!c.is_empty(), fnv64(&f.bytes) ^ fnv64(rops::ops_string(&ops).as_bytes()));
                ctx.rep.count("file", &f.source);
                if has_short(&ops) {
                    ctx.rep.count("too-short next_frame buffer (oracle only, no model)", &f.source);
                }
                watchdog::enter(&format!("c18 {} {}", rops::ops_string(&ops), hex(&f.bytes)));
                let t = rops::run_ops(&f.bytes, f.bytes.len(), &ops, &cfg);
                watchdog::leave();
                if t.panicked {
                    let site = t.tokens.last().cloned().unwrap_or_default();
                    let key = panic_key(&site);
                    ctx.rep.violation("oracle", &format!("panic/{}", key), &format!("[{}] on a {} file: {}", rops::ops_string(&ops), f.source, site), case(&f.bytes, f.bytes.len(), &ops, &cfg));
                } else if let Some(ti) = first_terminal(&t.tokens, &ops).filter(|&ti| !(cfg.limit.is_some() && t.tokens[ti] == "err(limits)")) {
                    // (a refusal by Limits at the Reader level is not one of the property's terminal events: what may follow it is
                    // decided by C06 - nothing of the refused frame - and is compared with the model here, no more)
                    let fatal = t.tokens[ti].starts_with("err(");
                    // frames completed before the terminal event
                    let done_before = t.tokens[..ti].iter().filter(|x| x.starts_with("frame(")).count();
                    for (j, tok) in t.tokens.iter().enumerate().skip(ti + 1) {
                        let good = tok.starts_with("err(") || tok == "none";
                        if fatal && !good {
                            // class = which error it was (text up to the first digit or colon) and which call then succeeded
                            let et = t.err_texts.get(ti).cloned().unwrap_or_default();
                            let slug: String = et.chars().take_while(|c| !c.is_ascii_digit() && *c != ':' && *c != '(' && *c != ';').collect::<String>().trim().to_lowercase().replace(' ', "-");
                            let slug: String = slug.chars().take(48).collect();
                            let mut opname = match ops.get(j) { Some(Op::NextFrame(_)) => "next_frame", Some(Op::ShortFrame(_)) => "next_frame-short-buffer", Some(Op::NextRow) => "next_row", Some(Op::ReadRow) => "read_row", Some(Op::NextFrameInfo) => "next_frame_info", Some(Op::Finish) => "finish", _ => "other" };
                            if tok.starts_with("frame(") {
                                // which frame is it?  A later frame of the file, exactly as obtained by skipping the failed one
                                // (D19: the error is not sticky) - or pixels that belong to no frame of the file
                                let mut later: Vec<String> = vec![];
                                for skip in 1..=4usize {
                                    let mut o = vec![Op::ReadInfo];
                                    o.extend(std::iter::repeat(Op::NextFrameInfo).take(skip));
                                    o.push(Op::NextFrame(0));
                                    let tt = rops::run_ops(&f.bytes, f.bytes.len(), &o, &cfg);
                                    if let Some(last) = tt.tokens.last() {
                                        if last.starts_with("frame(") {
                                            later.push(last.clone());
                                        }
                                    }
                                }
                                opname = if later.iter().any(|x| x == tok) { "next_frame-delivers-a-later-frame" } else { "next_frame-delivers-pixels-of-no-frame" };
                            }
                            ctx.rep.violation("oracle", &format!("success-after-fatal/{}/{}", slug, opname), &format!("[{}] on a {} file: call {} ({}) returned `{}` after the fatal error at call {} (`{}`)", rops::ops_string(&ops), f.source, j, opname, tok, ti, et), case(&f.bytes, f.bytes.len(), &ops, &cfg));
                            break;
                        }
                        if !fatal && !good {
                            // after finish(): nothing may succeed
                            ctx.rep.violation("oracle", "success-after-finish", &format!("[{}]: call {} returned `{}` after finish() had succeeded", rops::ops_string(&ops), j, tok), case(&f.bytes, f.bytes.len(), &ops, &cfg));
                            break;
                        }
                    }
                    let _ = done_before;
                }
                // never more frames than the file has
                let frames = t.tokens.iter().filter(|x| x.starts_with("frame(")).count();
                if f.model_domain && frames > nframes {
                    ctx.rep.violation("oracle", "fabricated-frame", &format!("[{}]: {} frames delivered, the file has {}", rops::ops_string(&ops), frames, nframes), case(&f.bytes, f.bytes.len(), &ops, &cfg));
                }
                if k % ctx.n(40, 12) == 0 && (cfg.limit.is_none() || f.model_domain) && !has_short(&ops) {
                    runs.push((f.bytes.clone(), f.bytes.len(), ops.clone(), cfg.clone(), true));
                    traces.push(t);
                }
            }
        }
    }
    model_batch(ctx, &runs, &traces, "c18");
    reset_pairs(ctx, &mut rng);
    low_level_terminal(ctx, &files);
    ctx.rep.sample(J::obj().set("prefix", J::s("ri,nf00,fin")).set("continuation", J::s("fi,nr,nf00")));
}

/// the low-level decoder after its terminal event (fatal error or ImageEnd): every further `update` - with no bytes, one byte,
/// the whole file - returns an error and appends no image data
fn low_level_terminal(ctx: &mut Ctx, files: &[corpus::TestFile]) {
    for f in files {
        for piece in [1usize, 7, 4096] {
            ctx.rep.eval(true, fnv64(&f.bytes) ^ (piece as u64).wrapping_mul(0x9e37));
            ctx.rep.count("low-level", "terminal-then-continue");
            let bytes = f.bytes.clone();
            let r = guarded(move || -> Option<String> {
                let mut dec = png::StreamingDecoder::new();
                let mut img = vec![];
                let mut buf = &bytes[..];
                let mut terminal = false;
                let mut calls = 0usize;
                while !buf.is_empty() && !terminal {
                    calls += 1;
                    if calls > crate::util::spin_budget(bytes.len()) {
                        return Some("the decoder makes no progress (SPIN)".to_string());
                    }
                    let n = piece.min(buf.len());
                    match dec.update(&buf[..n], &mut img) {
                        Ok((_, png::Decoded::ImageEnd)) => terminal = true,
                        Ok((k, _)) => buf = &buf[k..],
                        Err(_) => terminal = true,
                    }
                }
                if !terminal {
                    return None; // the file simply ends (truncated): not a terminal event
                }
                for round in 0..2 {
                    let conts: [&[u8]; 5] = [&[], &bytes[..1], &[], &bytes[..], &[]];
                    for (ci, c) in conts.iter().enumerate() {
                        let before = img.len();
                        match dec.update(c, &mut img) {
                            Ok(x) => return Some(format!("round {} continuation #{} ({} bytes) returned Ok({:?})", round, ci, c.len(), x)),
                            Err(_) if img.len() != before => return Some(format!("round {} continuation #{} appended image data", round, ci)),
                            Err(_) => {}
                        }
                    }
                }
                None
            });
            let case = J::obj().set("kind", J::s("low-level-terminal")).set("file", J::s(&hex(&f.bytes))).set("piece", J::i(piece as u64));
            match r {
                Err(p) => ctx.rep.violation("oracle", "low-level/panic-after-terminal", &format!("panic: {}", p), case),
                Ok(Some(w)) => ctx.rep.violation("oracle", "low-level/success-after-terminal", &format!("StreamingDecoder after its terminal event (pieces of {}): {}", piece, w), case),
                Ok(None) => {}
            }
        }
    }
}

fn panic_key(site: &str) -> String {
    // "PANIC(msg @ file:line)" -> file:line
    site.rsplit('@').next().unwrap_or(site).trim().trim_end_matches(')').rsplit('/').next().unwrap_or("").to_string()
}

/// decode of stream B after `reset()` following stream A vs a fresh decode of B
fn reset_pairs(ctx: &mut Ctx, rng: &mut Rng) {
    let mut pool: Vec<Vec<u8>> = vec![];
    for i in 0..ctx.n(10, 24) {
        let mut r = rng.fork(777 + i as u64);
        let f = if i % 2 == 0 { corpus::built_anim(&mut r, 5) } else { corpus::built_still(&mut r, 6, true) };
        pool.push(f.bytes.clone());
        // truncated and corrupted variants
        let n = f.bytes.len();
        pool.push(f.bytes[..r.usize(8, n - 1)].to_vec());
        let mut c = f.bytes.clone();
        let at = r.usize(8, n - 1);
        c[at] ^= 0x40;
        pool.push(c);
    }
    // streams whose only fault is a wrong Adler-32 (accepted by a new decoder: checksum ignored by default) - the settings of
    // the decompressor have to be re-applied after a reset
    for i in 0..ctx.n(2, 6) {
        let mut r = rng.fork(990 + i as u64);
        let img = Img::random(&mut r, [0u8, 2, 6][i % 3], 8, 9, 9);
        let (raw, _) = scanlines(&img, false, &Filters::Random, &mut r);
        let mut z = zlib_stream(&raw, &if i % 2 == 0 { Deflater::Stored(65535) } else { Deflater::Level(6) });
        let n = z.len();
        z[n - 1] ^= 0x5a;
        pool.push(serialize(&[ihdr(img.w, img.h, img.depth, img.color, 0), RawChunk::new(b"IDAT", z), RawChunk::new(b"IEND", vec![])]));
    }
    let fresh: Vec<String> = pool.iter().map(|b| crate::props::c04::run_streaming(b, &[], &DEFAULT_OPTS)).collect();
    for (ai, a) in pool.iter().enumerate() {
        for (bi, b) in pool.iter().enumerate() {
            ctx.rep.eval(true, fnv64(a) ^ fnv64(b).rotate_left(17));
            ctx.rep.count("reset", "pairs");
            let (a2, b2) = (a.clone(), b.clone());
            let r = guarded(move || {
                let mut dec = png::StreamingDecoder::new();
                let mut img = vec![];
                let mut buf = &a2[..];
                let mut calls = 0usize;
                while !buf.is_empty() {
                    calls += 1;
                    if calls > crate::util::spin_budget(a2.len()) {
                        break;
                    }
                    match dec.update(buf, &mut img) {
                        Ok((n, _)) => buf = &buf[n..],
                        Err(_) => break,
                    }
                }
                dec.reset();
                stream_with(&mut dec, &b2)
            });
            match r {
                Err(p) => ctx.rep.violation("oracle", "reset/panic", &format!("panic: {}", p), J::obj().set("kind", J::s("reset")).set("a", J::s(&hex(a))).set("b", J::s(&hex(b)))),
                Ok(s) => {
                    if s != fresh[bi] {
                        ctx.rep.violation("oracle", "reset/differs", &format!("stream B decoded after reset() (following stream A #{}) gives `{}`, a new decoder gives `{}`", ai, cut(&s), cut(&fresh[bi])),
                            J::obj().set("kind", J::s("reset")).set("a", J::s(&hex(a))).set("b", J::s(&hex(b))));
                    }
                }
            }
        }
    }
}

fn stream_with(dec: &mut png::StreamingDecoder, file: &[u8]) -> String {
    let mut image_data: Vec<u8> = vec![];
    let mut flushed_at = 0usize;
    let mut evs: Vec<String> = vec![];
    let mut err = "ok".to_string();
    let mut buf = file;
    let mut calls = 0usize;
    while !buf.is_empty() {
        calls += 1;
        if calls > crate::util::spin_budget(file.len()) {
            err = "SPIN".to_string();
            break;
        }
        match dec.update(buf, &mut image_data) {
            Ok((n, ev)) => {
                if let Some(s) = event_canon(&ev, &image_data[flushed_at..]) {
                    evs.push(s);
                }
                if matches!(ev, png::Decoded::ImageDataFlushed) {
                    flushed_at = image_data.len();
                }
                buf = &buf[n..];
            }
            Err(e) => {
                err = err_class(&e);
                break;
            }
        }
    }
    let info = dec.info().map(info_canon).unwrap_or("noinfo".into());
    format!("{} | {} | {}", evs.join(" "), info, err)
}

// ------------------------------------------------------------------------------------------------
// C05

pub fn run_c05(ctx: &mut Ctx) {
    ctx.rep.rule = "valid reference-built PNG/APNG files (interlaced, multi-IDAT, compressed, animated with sub-frames) x EVERY truncation point 0..len (small files) x growth schedules {+1 byte, +random, jump to full, to just before/after a chunk boundary; +64 / +997 bytes inside an ancillary chunk of 48..100 KiB under limits {default, 1 MiB, 300 KiB}} \
        x retried call in {read_header_info, next_frame, next_row, read_row, next_frame_info, finish}: the call is repeated after every growth until it stops reporting end-of-input; oracle: every intermediate result is UnexpectedEof \
        (never a format error, never a success for an incomplete frame) and the sequence of non-EOF results equals the one-shot decode; traces vs the Lean Reader model; distinct = hash(file, cut, schedule, call)".into();
    let mut rng = ctx.rng.fork(1);
    let files = small_valid_files(&mut rng, ctx.n(20, 30));
    let mut runs = vec![];
    let mut traces = vec![];
    let mut k = 0usize;
    for (fi, f) in files.iter().enumerate() {
        let n = f.bytes.len();
        let cfg = Config::default();
        let bounds = crate::props::c04::field_offsets(&f.bytes);
        for call in 0..5usize {
            // the script of calls for a complete input, retried on eof
            let script: Vec<Op> = match call {
                0 => vec![Op::ReadHeader, Op::ReadInfo, Op::NextFrame(0), Op::NextFrame(0), Op::NextFrame(0), Op::NextFrame(0), Op::NextFrame(0), Op::Finish],
                1 => { let mut v = vec![Op::ReadInfo]; v.extend((0..40).map(|_| Op::NextRow)); v.push(Op::Finish); v }
                2 => { let mut v = vec![Op::ReadInfo]; v.extend((0..12).map(|_| Op::ReadRow)); v.push(Op::NextFrame(0)); v.push(Op::NextFrame(0)); v }
                3 => vec![Op::ReadInfo, Op::NextFrameInfo, Op::NextFrame(0), Op::NextFrameInfo, Op::NextFrame(0), Op::Finish],
                _ => vec![Op::ReadInfo, Op::NextFrame(0), Op::Finish],
            };
            let oneshot = rops::run_ops(&f.bytes, n, &script, &cfg);
            let cuts: Vec<usize> = if n <= ctx.n(260, 1500) { (0..n).collect() } else { (0..ctx.n(60, 400)).map(|_| rng.usize(0, n - 1)).collect() };
            for &cut0 in &cuts {
                for sched in 0..3usize {
                    if sched > 0 && cut0 % ctx.n(5, 2) != 0 {
                        continue;
                    }
                    k += 1;
                    ctx.rep.eval(true, fnv64(&f.bytes) ^ ((cut0 as u64) << 20) ^ ((sched as u64) << 8) ^ call as u64);
                    ctx.rep.count("retried script", &call.to_string());
                    ctx.rep.count("growth", ["+1", "+random", "to-boundaries"][sched]);
                    // build the op list dynamically: run the implementation step by step
                    let (ops, ok) = run_with_retries(&f.bytes, cut0, &script, sched, &bounds, &mut rng, &cfg);
                    let t = rops::run_ops(&f.bytes, cut0, &ops, &cfg);
                    if t.panicked {
                        ctx.rep.violation("oracle", "panic", &format!("panic: {}", t.tokens.last().cloned().unwrap_or_default()), case(&f.bytes, cut0, &ops, &cfg));
                        continue;
                    }
                    if let Err(why) = ok {
                        ctx.rep.violation("oracle", &format!("truncation/{}", why.0), &format!("truncated at {} of {}: {}", cut0, n, why.1), case(&f.bytes, cut0, &ops, &cfg));
                        continue;
                    }
                    // non-EOF results of the non-grow ops = one-shot results
                    let got: Vec<&String> = t.tokens.iter().zip(&ops).filter(|(tok, op)| !matches!(op, Op::Grow(_)) && *tok != "err(eof)").map(|(tok, _)| tok).collect();
                    let want: Vec<&String> = oneshot.tokens.iter().collect();
                    if got != want || t.tail != oneshot.tail {
                        let at = got.iter().zip(&want).position(|(a, b)| a != b).unwrap_or(got.len().min(want.len()));
                        ctx.rep.violation("oracle", "resumed-differs", &format!("truncated at {} and resumed: result {} is `{}`, one-shot gives `{}`", cut0, at, got.get(at).map(|s| s.as_str()).unwrap_or("(missing)"), want.get(at).map(|s| s.as_str()).unwrap_or("(missing)")),
                            case(&f.bytes, cut0, &ops, &cfg));
                    }
                    if k % ctx.n(60, 25) == 0 && ops.len() < 400 {
                        runs.push((f.bytes.clone(), cut0, ops.clone(), Config::default(), true));
                        traces.push(t);
                    }
                }
            }
        }
        if fi < 2 {
            ctx.rep.sample(J::obj().set("file", J::s(&f.source)).set("bytes", J::i(n as u64)));
        }
    }
    model_batch(ctx, &runs, &traces, "c05");
    // a large ancillary chunk that arrives in many small pieces while a resumable call is retried: what the retries cost
    // (Limits, work) must not depend on how often the call was resumed (seeded change C05_6: the chunk buffer was charged
    // once per resumed call)
    {
        let small = small_valid_files(&mut rng, 2);
        for (fi, f) in small.iter().enumerate().take(2) {
            for (size, before_idat) in [(48 * 1024usize, false), (100 * 1024, true), (70 * 1024, false)] {
                let mut body = b"Comment\0".to_vec();
                body.extend((0..size).map(|i| b'a' + (i % 26) as u8));
                let big = RawChunk::new(b"tEXt", body).bytes();
                let at = if before_idat { f.bytes.windows(4).position(|w| w == b"IDAT").map(|p| p - 4) } else { f.bytes.windows(4).rposition(|w| w == b"IEND").map(|p| p - 4) };
                let at = match at { Some(a) => a, None => continue };
                let mut file = f.bytes[..at].to_vec();
                file.extend_from_slice(&big);
                file.extend_from_slice(&f.bytes[at..]);
                let n = file.len();
                let bounds = crate::props::c04::field_offsets(&file);
                let script = vec![Op::ReadHeader, Op::ReadInfo, Op::NextFrame(0), Op::Finish];
                for limit in [None, Some(1usize << 20), Some(300 * 1024)] {
                    let cfg = Config { limit, ..Config::default() };
                    let oneshot = rops::run_ops(&file, n, &script, &cfg);
                    for sched in [3usize, 4] {
                        for cut0 in [at, at + 9, at + 40_000] {
                            ctx.rep.eval(true, fnv64(&file) ^ ((cut0 as u64) << 20) ^ ((sched as u64) << 8) ^ (limit.unwrap_or(0) as u64) ^ fi as u64);
                            ctx.rep.count("growth", ["", "", "", "+64 inside a big chunk", "+997 inside a big chunk"][sched]);
                            let (ops, ok) = run_with_retries(&file, cut0, &script, sched, &bounds, &mut rng, &cfg);
                            let t = rops::run_ops(&file, cut0, &ops, &cfg);
                            if t.panicked {
                                ctx.rep.violation("oracle", "panic", &format!("panic: {}", t.tokens.last().cloned().unwrap_or_default()), case(&file, cut0, &ops, &cfg));
                                continue;
                            }
                            if let Err(why) = ok {
                                ctx.rep.violation("oracle", &format!("truncation/{}", why.0), &format!("big chunk of {} bytes, truncated at {} of {}, limit {:?}: {}", size, cut0, n, limit, why.1), case(&file, cut0, &ops, &cfg));
                                continue;
                            }
                            let got: Vec<&String> = t.tokens.iter().zip(&ops).filter(|(tok, op)| !matches!(op, Op::Grow(_)) && *tok != "err(eof)").map(|(tok, _)| tok).collect();
                            let want: Vec<&String> = oneshot.tokens.iter().collect();
                            if got != want {
                                let at = got.iter().zip(&want).position(|(a, b)| a != b).unwrap_or(got.len().min(want.len()));
                                ctx.rep.violation("oracle", "resumed-differs", &format!("big chunk of {} bytes, limit {:?}, truncated at {} and resumed in steps of {}: result {} is `{}`, one-shot gives `{}`", size, limit, cut0, if sched == 3 { 64 } else { 997 }, at,
                                    got.get(at).map(|s| s.as_str()).unwrap_or("(missing)"), want.get(at).map(|s| s.as_str()).unwrap_or("(missing)")), case(&file, cut0, &ops, &cfg));
                            }
                        }
                    }
                }
            }
        }
    }
}

/// Runs the script over a prefix of `visible0` bytes, retrying each call after growing the input whenever it
/// reports end-of-input.  Returns the full op list (with the `Grow`s) and the oracle verdict on intermediate results.
fn run_with_retries(file: &[u8], visible0: usize, script: &[Op], sched: usize, bounds: &[usize], rng: &mut Rng, cfg: &Config) -> (Vec<Op>, Result<(), (String, String)>) {
    // simulate cheaply: execute the op list so far from scratch each time would be quadratic; instead run once with a
    // conservative op list: after every call insert the growth steps that this schedule prescribes until the file is complete.
    // The implementation tells us, per call, whether it needed them (eof tokens).
    let n = file.len();
    let mut ops: Vec<Op> = vec![];
    let mut visible = visible0.min(n);
    let mut verdict: Result<(), (String, String)> = Ok(());
    // incremental execution with a live reader
    let rd = PieceReader::new(file.to_vec(), vec![]);
    let vis = rd.visible.clone();
    vis.store(visible, Ordering::SeqCst);
    let mut dec = Some(png::Decoder::new_with_options(rd, decode_options(&cfg.opts)));
    if let (Some(d), Some(l)) = (dec.as_mut(), cfg.limit) {
        d.set_limits(png::Limits { bytes: l });
    }
    let mut reader: Option<png::Reader<PieceReader>> = None;
    let mut buf: Vec<u8> = vec![];
    // `read_info(self)` consumes the Decoder, so it cannot be retried: give it the bytes up to the first data chunk's type field
    let need_for_read_info = file.windows(4).position(|w| w == b"IDAT").map(|p| p + 4).unwrap_or(n).min(n);
    for op in script {
        let mut attempts = 0;
        if matches!(op, Op::ReadInfo) && visible < need_for_read_info {
            let step = need_for_read_info - visible;
            visible += step;
            vis.store(visible, Ordering::SeqCst);
            ops.push(Op::Grow(step));
        }
        loop {
            attempts += 1;
            ops.push(op.clone());
            // ReadInfo cannot be retried (it consumes the Decoder): make sure the header part is there by retrying read_header_info first
            let res: Result<Result<bool, png::DecodingError>, String> = guarded(|| match op {
                Op::ReadHeader => dec.as_mut().map(|d| d.read_header_info().map(|_| true)).unwrap_or(Ok(false)),
                Op::ReadInfo => match dec.take() {
                    Some(d) => match d.read_info() {
                        Ok(r) => { reader = Some(r); Ok(true) }
                        Err(e) => Err(e),
                    },
                    None => Ok(false),
                },
                Op::NextFrame(p) => match reader.as_mut() {
                    Some(r) => { buf.clear(); buf.resize(r.output_buffer_size(), *p); r.next_frame(&mut buf).map(|_| true) }
                    None => Ok(false),
                },
                Op::NextRow => match reader.as_mut() { Some(r) => r.next_interlaced_row().map(|_| true), None => Ok(false) },
                Op::ReadRow => match reader.as_mut() {
                    Some(r) => { let w = r.info().width; buf.clear(); buf.resize(r.output_line_size(w), 0); r.read_row(&mut buf).map(|_| true) }
                    None => Ok(false),
                },
                Op::NextFrameInfo => match reader.as_mut() { Some(r) => r.next_frame_info().map(|_| true), None => Ok(false) },
                Op::Finish => match reader.as_mut() { Some(r) => r.finish().map(|_| true), None => Ok(false) },
                Op::Grow(_) | Op::ShortFrame(_) => Ok(true),
            });
            match res {
                Err(p) => return (ops, Err(("panic".into(), p))),
                Ok(Ok(_)) => break,
                Ok(Err(e)) => {
                    let eof = matches!(&e, png::DecodingError::IoError(io) if io.kind() == std::io::ErrorKind::UnexpectedEof);
                    if eof && visible < n && attempts < 5000 && !matches!(op, Op::ReadInfo) {
                        let step = match sched {
                            0 => 1,
                            1 => rng.usize(1, 40),
                            3 => 64,
                            4 => 997,
                            _ => { let nb = bounds.iter().copied().filter(|&b| b > visible).min().unwrap_or(n); (nb - visible).max(1) }
                        };
                        let step = step.min(n - visible);
                        visible += step;
                        vis.store(visible, Ordering::SeqCst);
                        ops.push(Op::Grow(step));
                        continue;
                    }
                    if eof && matches!(op, Op::ReadInfo) && visible < n {
                        // read_info consumed the decoder: cannot be resumed through the public API; the run ends here
                        return (ops, verdict);
                    }
                    if !eof && visible < n && verdict.is_ok() {
                        // a non-EOF error while the input is still incomplete: allowed only if the one-shot decode reports the same
                        // (e.g. the regular end-of-image parameter error)
                        if !matches!(e, png::DecodingError::Parameter(_)) {
                            verdict = Err(("non-eof-error".into(), format!("`{}` returned `{}` while only {} of {} bytes were available", op.token(), e, visible, n)));
                        }
                    }
                    break;
                }
            }
        }
    }
    (ops, verdict)
}

// ------------------------------------------------------------------------------------------------
// C02

pub fn run_c02(ctx: &mut Ctx) {
    ctx.rep.rule = "inputs: reference-built valid files, every C10-style structural mutation, grammar-level chunk soups (random legal/illegal chunk sequences with valid framing, PLTE/tRNS of every length class, acTL/fcTL extremes incl. 0 and 2^32-1), \
        byte-mutated copies, the upstream fuzz corpus with and without repaired CRCs; configurations: 8 transformation subsets x limits {64 KiB, 1 MiB, unlimited} x checksum/text/iCCP options; \
        histories: exhaustive call sequences up to a bounded length over {next_frame, next_row, read_row, next_frame_info, finish} on a small file set, random sequences up to 40 calls, and schedules where the input ends temporarily \
        (calls retried or changed after UnexpectedEof, input grown in between); every call under catch_unwind in a build with debug assertions and overflow checks; oracle: no panic; traces vs the Lean Reader model; \
        getters: huge dimensions (products just below / above 2^64 for every pixel size involved) x {gray, RGB} x {8, 16} x tRNS x 8 transformation subsets x Limits {default, usize::MAX}: read_info, every getter of Reader and Info, a call, every getter again; \
        non-trivial = at least 2 calls after read_info; distinct = hash(file, configuration, sequence)".into();
    let mut rng = ctx.rng.fork(1);
    let mut files = corpus::mixed_files(&mut rng, ctx.n(80, 200), ctx.n(160, 500), ctx.n(600, 1416));
    files.extend(chunk_soups(&mut rng, ctx.n(600, 1500)));
    files.extend(failing_files(&mut rng, ctx.n(14, 70)));
    files.extend(corpus::truncated_body_files(&mut rng));
    // frames that fail at the Reader layer (rows missing, undefined filter type) followed by a frame of another size (seeded change C02_12)
    files.extend(semantic_failing_files(&mut rng, ctx.n(48, 96)));
    let alphabet = [Op::NextFrame(0xFF), Op::NextRow, Op::ReadRow, Op::NextFrameInfo, Op::Finish];
    let mut runs = vec![];
    let mut traces = vec![];
    let mut k = 0usize;
    let exhaustive = all_sequences(&alphabet, ctx.n(3, 4));
    for (fi, f) in files.iter().enumerate() {
        if f.bytes.len() > 300_000 {
            continue;
        }
        let mut r = rng.fork(fi as u64);
        let mut seqs: Vec<(usize, Vec<Op>)> = vec![];
        // random call sequences, whole input
        for _ in 0..ctx.n(6, 20) {
            let n = r.usize(1, 40);
            let mut ops = vec![Op::ReadInfo];
            ops.extend((0..n).map(|_| r.pick(&alphabet).clone()));
            seqs.push((f.bytes.len(), ops));
        }
        // exhaustive short sequences on a subset of files
        if (fi % ctx.n(12, 6) == 0 || f.source.starts_with("fail-short-data") || f.source.starts_with("fail-bad-filter")) && f.bytes.len() < 2000 {
            for s in &exhaustive {
                seqs.push((f.bytes.len(), with_ri(s)));
            }
        }
        // input that ends temporarily: start with a prefix, calls interleaved with growth, the retried call changed
        for _ in 0..ctx.n(6, 20) {
            let n = f.bytes.len();
            let v0 = r.usize(0, n);
            let mut ops = vec![];
            if r.bool() {
                ops.push(Op::ReadHeader);
                ops.push(Op::Grow(r.usize(1, 60)));
            }
            ops.push(Op::Grow(r.usize(0, 80)));
            ops.push(Op::ReadInfo);
            for _ in 0..r.usize(2, 24) {
                if r.chance(1, 3) {
                    ops.push(Op::Grow(if r.chance(1, 5) { n } else { r.usize(1, 50) }));
                } else {
                    ops.push(r.pick(&alphabet).clone());
                }
            }
            seqs.push((v0, ops));
        }
        for (v0, ops) in seqs {
            k += 1;
            let mut cfg = Config::default();
            cfg.flags = if r.chance(1, 2) { 0 } else { r.below(8) as u8 };
            cfg.limit = *r.pick(&[None, None, Some(64 * 1024), Some(1 << 20)]);
            if r.chance(1, 5) {
                cfg.opts = [r.bool(), r.bool(), r.bool(), r.bool(), r.bool()];
                // half of the option sets the public setters of `Decoder` can express are installed through them
                // (`ignore_checksums`, `set_ignore_text_chunk`, `set_ignore_iccp_chunk`); the model line is the same
                if r.bool() {
                    cfg.opts[4] = true;
                    if !cfg.opts[0] && cfg.opts[1] {
                        cfg.opts[0] = true;
                    }
                    cfg.via_setters = true;
                }
            }
            ctx.rep.count("options route", if cfg.via_setters { "Decoder setters" } else { "DecodeOptions" });
            let calls = ops.iter().filter(|o| !matches!(o, Op::Grow(_) | Op::ReadInfo | Op::ReadHeader)).count();
            ctx.rep.eval(calls >= 2, fnv64(&f.bytes) ^ fnv64(rops::ops_string(&ops).as_bytes()) ^ ((cfg.flags as u64) << 56));
            ctx.rep.count("source", &f.source);
            ctx.rep.count("flags", &cfg.flags.to_string());
            ctx.rep.count("limit", &cfg.limit.map(|l| l.to_string()).unwrap_or("unlimited".into()));
            ctx.rep.count("schedule", if v0 == f.bytes.len() { "whole" } else { "growing" });
            watchdog::enter(&format!("c02 v0={} {} {}", v0, rops::ops_string(&ops), hex(&f.bytes[..f.bytes.len().min(3000)])));
            let t = rops::run_ops(&f.bytes, v0, &ops, &cfg);
            watchdog::leave();
            for tok in &t.tokens {
                let kind = tok.split('(').next().unwrap_or("");
                ctx.rep.count("result kind", kind);
            }
            if t.panicked {
                let site = t.tokens.last().cloned().unwrap_or_default();
                ctx.rep.violation("oracle", &format!("panic/{}", panic_key(&site)), &format!("[{}] (visible0={}, flags={}, limit={:?}) on a {} file: {}", rops::ops_string(&ops), v0, cfg.flags, cfg.limit, f.source, site),
                    case(&f.bytes, v0, &ops, &cfg));
            }
            if k % ctx.n(25, 10) == 0 && f.bytes.len() < 2500 && ops.len() < 60 {
                let dom = f.model_domain;
                runs.push((f.bytes.clone(), v0, ops.clone(), cfg.clone(), dom));
                traces.push(t);
            }
        }
        if fi < 2 {
            ctx.rep.sample(J::obj().set("source", J::s(&f.source)).set("bytes", J::i(f.bytes.len() as u64)));
        }
    }
    model_batch(ctx, &runs, &traces, "c02");
    directed_probes(ctx);
    getter_probes(ctx);
    systematic_families(ctx);
    short_buffer_calls(ctx);
}

// ------------------------------------------------------------------------------------------------
// next_frame with a buffer that is too short (oracle only: the Lean Reader model has no such call)

fn has_short(ops: &[Op]) -> bool {
    ops.iter().any(|o| matches!(o, Op::ShortFrame(_)))
}

/// The call sequence that must behave like `ops` on a valid file delivered whole, with every too-short `next_frame` removed:
/// a refused call made while a frame is open is dropped; a refused call made between two frames has advanced to the next
/// frame before it looked at the buffer, which is what `next_frame_info` does there - it is replaced by that call.
/// Which of the two applies is read off the results of the calls before it.  Returns the sequence and, per position of
/// `ops`, the position of the same call in it (None for the refused calls).
fn without_short_calls(ops: &[Op], tokens: &[String], nframes: usize) -> (Vec<Op>, Vec<Option<usize>>) {
    let mut out: Vec<Op> = vec![];
    let mut map: Vec<Option<usize>> = vec![];
    let mut started = 0usize; // frames whose data sequence has been entered
    let mut closed = true; // no frame is open
    for (i, op) in ops.iter().enumerate() {
        let tok = tokens.get(i).map(|s| s.as_str()).unwrap_or("");
        match op {
            Op::ShortFrame(_) => {
                if started > 0 && closed && started < nframes {
                    out.push(Op::NextFrameInfo);
                    started += 1;
                    closed = false;
                }
                map.push(None);
                continue;
            }
            Op::ReadInfo if tok == "hdr" => {
                started = 1;
                closed = false;
            }
            Op::NextFrame(_) if tok.starts_with("frame(") => {
                if closed {
                    started += 1;
                }
                closed = true;
            }
            Op::NextRow | Op::ReadRow if tok == "none" => closed = true,
            Op::NextFrameInfo if tok.starts_with("fc(") => {
                started += 1;
                closed = false;
            }
            Op::Finish if tok == "ok" => {
                started = nframes.max(started);
                closed = true;
            }
            _ => {}
        }
        map.push(Some(out.len()));
        out.push(op.clone());
    }
    (out, map)
}

/// oracle for one run that contains too-short `next_frame` calls; `valid_whole` = a valid file, delivered whole, with
/// `nframes` frames.  Returns (class key, description) per finding.
fn short_frame_findings(file: &[u8], v0: usize, ops: &[Op], cfg: &Config, valid_whole: bool, nframes: usize) -> Vec<(String, String)> {
    let mut out = vec![];
    let t = rops::run_ops(file, v0, ops, cfg);
    if t.panicked {
        let site = t.tokens.last().cloned().unwrap_or_default();
        out.push((format!("panic/{}", panic_key(&site)), format!("[{}]: {}", rops::ops_string(ops), site)));
        return out;
    }
    for (i, op) in ops.iter().enumerate() {
        if let (Op::ShortFrame(k), Some(tok)) = (op, t.tokens.get(i)) {
            if !tok.starts_with("err(") {
                out.push((format!("short-buffer/{}", tok.split('(').next().unwrap_or("?")), format!("[{}]: call {} (next_frame with a buffer of kind {} that is too short) returned `{}`", rops::ops_string(ops), i, k, tok)));
                return out;
            }
            if valid_whole && tok != "err(parameter)" {
                out.push(("short-buffer/not-a-parameter-error".to_string(), format!("[{}]: call {} (too-short buffer, valid file) returned `{}`", rops::ops_string(ops), i, tok)));
                return out;
            }
        }
    }
    if !valid_whole {
        return out;
    }
    // the refused calls leave no trace in what the other calls return
    let (plain, map) = without_short_calls(ops, &t.tokens, nframes);
    let t0 = rops::run_ops(file, v0, &plain, cfg);
    for (i, m) in map.iter().enumerate() {
        if let Some(j) = m {
            let (a, b) = (t.tokens.get(i), t0.tokens.get(*j));
            if a != b {
                out.push(("short-buffer/disturbs-following-calls".to_string(), format!("[{}]: call {} returns `{}`; in the same sequence without the refused calls [{}] it returns `{}`", rops::ops_string(ops), i,
                    a.map(|s| s.as_str()).unwrap_or("(missing)"), rops::ops_string(&plain), b.map(|s| s.as_str()).unwrap_or("(missing)"))));
                return out;
            }
        }
    }
    if t.tail != t0.tail {
        out.push(("short-buffer/disturbs-reader-state".to_string(), format!("[{}]: final state `{}`; without the refused calls [{}]: `{}`", rops::ops_string(ops), cut(&t.tail), rops::ops_string(&plain), cut(&t0.tail))));
    }
    out
}

/// `Reader::next_frame` with a buffer of 0 / 1 / size-1 bytes in every reader state: (a) in front of every regular
/// `next_frame` of a call sequence - the results of all other calls and the final state must be exactly those of the
/// sequence without the refused calls; (b) at every position of a call sequence - the same, where a refused call made
/// between two frames counts as the `next_frame_info` it has performed before it looked at the buffer; (c) on failing
/// files and on inputs that end temporarily: an error, no panic, nothing written to the buffer
fn short_buffer_calls(ctx: &mut Ctx) {
    let mut rng = ctx.rng.fork(0x5b0f);
    let mut files = small_valid_files(&mut rng, ctx.n(16, 48));
    files.extend(failing_files(&mut rng, ctx.n(14, 28)));
    files.extend(semantic_failing_files(&mut rng, ctx.n(8, 24)));
    let alphabet = [Op::NextFrame(0x5A), Op::NextRow, Op::ReadRow, Op::NextFrameInfo, Op::Finish];
    let short_seqs = all_sequences(&alphabet, 2);
    for (fi, f) in files.iter().enumerate() {
        let mut r = rng.fork(fi as u64);
        let nframes = if f.model_domain { reference_frames(&f.bytes, 0).map(|v| v.len()).unwrap_or(0) } else { 0 };
        let valid = f.model_domain && nframes > 0;
        let mut bases: Vec<Vec<Op>> = short_seqs.clone();
        for _ in 0..ctx.n(8, 30) {
            let n = r.usize(3, 14);
            bases.push((0..n).map(|_| r.pick(&alphabet).clone()).collect());
        }
        for base in &bases {
            let mut variants: Vec<(&str, usize, Vec<Op>)> = vec![];
            // (a) one or two refused calls in front of every regular next_frame (and one refused + one regular call at the end)
            let mut a = vec![Op::ReadInfo];
            for op in base {
                if matches!(op, Op::NextFrame(_)) {
                    for _ in 0..r.usize(1, 2) {
                        a.push(Op::ShortFrame(r.below(3) as u8));
                    }
                }
                a.push(op.clone());
            }
            a.push(Op::ShortFrame(r.below(3) as u8));
            a.push(Op::NextFrame(0x5A));
            variants.push(("before-next_frame", f.bytes.len(), a));
            // (b) a refused call at every position
            for at in 0..=base.len() {
                let mut b = vec![Op::ReadInfo];
                b.extend(base[..at].iter().cloned());
                b.push(Op::ShortFrame(((at + fi) % 3) as u8));
                b.extend(base[at..].iter().cloned());
                variants.push(("at-every-position", f.bytes.len(), b));
            }
            // (c) the input ends temporarily
            if base.len() >= 3 {
                let mut c = vec![Op::ReadInfo];
                for op in base {
                    if r.chance(1, 3) {
                        c.push(Op::Grow(r.usize(1, 40)));
                    }
                    if r.chance(1, 2) {
                        c.push(Op::ShortFrame(r.below(3) as u8));
                    }
                    c.push(op.clone());
                }
                let idat = f.bytes.windows(4).position(|w| w == b"IDAT").map(|p| p + 4).unwrap_or(f.bytes.len());
                variants.push(("growing-input", r.usize(idat.min(f.bytes.len()), f.bytes.len()), c));
            }
            for (kind, v0, ops) in variants {
                let cfg = Config { flags: if r.chance(1, 2) { 0 } else { r.below(8) as u8 }, ..Config::default() };
                let whole = v0 == f.bytes.len();
                ctx.rep.eval(true, fnv64(&f.bytes) ^ fnv64(rops::ops_string(&ops).as_bytes()) ^ ((cfg.flags as u64) << 56));
                ctx.rep.count("too-short buffer (oracle only, no model)", &format!("{}/{}", kind, if valid { "valid" } else { "failing" }));
                watchdog::enter(&format!("c02 short v0={} {} {}", v0, rops::ops_string(&ops), hex(&f.bytes[..f.bytes.len().min(3000)])));
                let found = short_frame_findings(&f.bytes, v0, &ops, &cfg, valid && whole, nframes);
                watchdog::leave();
                for (key, what) in found {
                    ctx.rep.violation("oracle", &key, &format!("{} file, flags {}: {}", f.source, cfg.flags, what), case(&f.bytes, v0, &ops, &cfg).set("valid_frames", J::i(if valid && whole { nframes as u64 } else { 0 })));
                }
            }
        }
    }
}

/// small grammar products in which every factor is enumerated (what the random soups reach only by luck):
///  (a) indexed images x PLTE length classes (below / at / above 256 entries, not a multiple of 3) x tRNS length classes
///      (absent, 0, below / at / above 256, above the palette) x transformation sets x frame and row calls;
///  (b) animation control present or not x frame control before IDAT or not x the IDAT run split by another chunk or not x
///      what follows (fcTL + fdAT, fdAT without fcTL, nothing) x ALL call sequences up to length 3
fn systematic_families(ctx: &mut Ctx) {
    let mut rng = ctx.rng.fork(0x5f5);
    let run = |ctx: &mut Ctx, name: &str, file: &[u8], ops: &[Op], cfg: &Config, runs: &mut Vec<(Vec<u8>, usize, Vec<Op>, Config, bool)>, traces: &mut Vec<Trace>, sample: bool| {
        let t = rops::run_ops(file, file.len(), ops, cfg);
        ctx.rep.eval(true, fnv64(file) ^ fnv64(rops::ops_string(ops).as_bytes()) ^ ((cfg.flags as u64) << 56));
        ctx.rep.count("systematic family", name);
        if t.panicked {
            let site = t.tokens.last().cloned().unwrap_or_default();
            ctx.rep.violation("oracle", &format!("panic/{}", panic_key(&site)), &format!("family {}: [{}] flags {}: {}", name, rops::ops_string(ops), cfg.flags, site), case(file, file.len(), ops, cfg));
        }
        if sample {
            runs.push((file.to_vec(), file.len(), ops.to_vec(), cfg.clone(), false));
            traces.push(t);
        }
    };
    let mut runs = vec![];
    let mut traces = vec![];
    let mut k = 0usize;
    // (a)
    for depth in [1u8, 2, 4, 8] {
        let w = 5u32;
        let img = Img::random(&mut rng, 3, depth, w, 2);
        let (raw, _) = scanlines(&img, false, &Filters::Uniform(0), &mut rng);
        let z = zlib_stream(&raw, &Deflater::Stored(100));
        for plte in [0usize, 3, 6, 7, 765, 768, 769, 770, 771, 800, 1000] {
            for trns in [None, Some(0usize), Some(1), Some(2), Some(255), Some(256), Some(257), Some(258), Some(300), Some(1001)] {
                let mut cs = vec![ihdr(w, 2, depth, 3, 0), RawChunk::new(b"PLTE", rng.bytes(plte))];
                if let Some(t) = trns {
                    cs.push(RawChunk::new(b"tRNS", rng.bytes(t)));
                }
                cs.push(RawChunk::new(b"IDAT", z.clone()));
                cs.push(RawChunk::new(b"IEND", vec![]));
                let file = serialize(&cs);
                for flags in [0u8, 1, 4, 5, 3] {
                    for ops in [vec![Op::ReadInfo, Op::NextFrame(0)], vec![Op::ReadInfo, Op::NextRow, Op::ReadRow, Op::Finish]] {
                        k += 1;
                        let cfg = Config { flags, ..Config::default() };
                        run(ctx, "palette-x-trns-lengths", &file, &ops, &cfg, &mut runs, &mut traces, k % 97 == 0);
                    }
                }
            }
        }
    }
    // (b)
    let z = zlib_stream(&[0, 1, 2, 3, 0, 4, 5, 6], &Deflater::Stored(100));
    let (z1, z2) = z.split_at(z.len() / 2);
    let fc = |seq: u32| Fctl { seq, w: 3, h: 2, x: 0, y: 0, delay_num: 1, delay_den: 1, dispose: 0, blend: 0 }.chunk();
    let fd = |seq: u32| { let mut d = seq.to_be_bytes().to_vec(); d.extend(z.clone()); RawChunk::new(b"fdAT", d) };
    let alphabet = [Op::NextFrame(0), Op::NextRow, Op::ReadRow, Op::NextFrameInfo, Op::Finish];
    let seqs = all_sequences(&alphabet, 3);
    for with_actl in [false, true] {
        for with_fctl0 in [false, true] {
            for splitter in [None, Some(RawChunk::new(b"tEXt", b"k\0v".to_vec())), Some(RawChunk::new(b"prVt", vec![1, 2, 3])), Some(RawChunk::new(b"gAMA", vec![0, 1, 2, 3]))] {
                for tail in 0..6u8 {
                    // tails 3..5: the same three endings, but each IDAT run carries a COMPLETE zlib stream of the image (a
                    // restarted run that would decode if it were accepted) and the animation declares one frame
                    let (tail, whole_runs) = (tail % 3, tail >= 3);
                    if whole_runs && splitter.is_none() {
                        continue;
                    }
                    let mut cs = vec![ihdr(3, 2, 8, 0, 0)];
                    if with_actl {
                        cs.push(actl(if whole_runs { 1 } else { 2 }, 0));
                    }
                    let mut seq = 0u32;
                    if with_fctl0 {
                        cs.push(fc(seq));
                        seq += 1;
                    }
                    match &splitter {
                        None => cs.push(RawChunk::new(b"IDAT", z.clone())),
                        Some(c) => {
                            cs.push(RawChunk::new(b"IDAT", if whole_runs { z.clone() } else { z1.to_vec() }));
                            cs.push(c.clone());
                            cs.push(RawChunk::new(b"IDAT", if whole_runs { z.clone() } else { z2.to_vec() }));
                        }
                    }
                    match tail {
                        0 => { cs.push(fc(seq)); cs.push(fd(seq + 1)); }
                        1 => { cs.push(fd(seq)); }
                        _ => {}
                    }
                    cs.push(RawChunk::new(b"IEND", vec![]));
                    let file = serialize(&cs);
                    for s in &seqs {
                        k += 1;
                        let cfg = Config { flags: if k % 5 == 0 { 1 } else { 0 }, ..Config::default() };
                        run(ctx, "animation-control-x-idat-split", &file, &with_ri(s), &cfg, &mut runs, &mut traces, k % 211 == 0);
                    }
                }
            }
        }
    }
    model_batch(ctx, &runs, &traces, "family");
}

/// grammar-level chunk soups: random chunk sequences with valid framing and CRCs
pub fn chunk_soups(rng: &mut Rng, n: usize) -> Vec<corpus::TestFile> {
    let mut out = vec![];
    for i in 0..n {
        let mut r = rng.fork(31_000 + i as u64);
        let (color, depth) = *r.pick(&LEGAL_PAIRS);
        let w = *r.pick(&[1u32, 2, 3, 8, 9]);
        let h = *r.pick(&[1u32, 2, 5]);
        let img = Img::random(&mut r, color, depth, w, h);
        let il = r.chance(1, 3);
        let (raw, _) = scanlines(&img, il, &Filters::Random, &mut r);
        let z = zlib_stream(&raw, &Deflater::Level(6));
        let mut cs = vec![ihdr(w, h, depth, color, il as u8)];
        let mut seq = 0u32;
        let len = r.usize(1, 9);
        for _ in 0..len {
            let c = match r.below(14) {
                0 => {
                    let n = *r.pick(&[0usize, 1, 2, 3, 4, 5, 6, 48, 766, 767, 768, 769, 770, 771, 800]);
                    RawChunk::new(b"PLTE", r.bytes(n))
                }
                1 => {
                    let n = *r.pick(&[0usize, 1, 2, 3, 5, 6, 7, 256, 257, 300]);
                    RawChunk::new(b"tRNS", r.bytes(n))
                }
                2 => actl(*r.pick(&[0u32, 1, 2, 3, u32::MAX]), r.below(3) as u32),
                3 | 4 => {
                    let full = r.chance(2, 3);
                    let f = Fctl { seq: if r.chance(4, 5) { seq } else { r.next() as u32 }, w: if full { w } else { *r.pick(&[0u32, 1, w, w + 1, u32::MAX]) }, h: if full { h } else { *r.pick(&[0u32, 1, h, h + 1, u32::MAX]) },
                        x: if full { 0 } else { *r.pick(&[0u32, 1, u32::MAX]) }, y: if full { 0 } else { *r.pick(&[0u32, 1, u32::MAX]) }, delay_num: 1, delay_den: 1, dispose: r.below(4) as u8, blend: r.below(3) as u8 };
                    seq += 1;
                    f.chunk()
                }
                5 | 6 => RawChunk::new(b"IDAT", if r.chance(3, 4) { z.clone() } else { r.bytes_between(0, 12) }),
                7 | 8 => {
                    let mut d = (if r.chance(4, 5) { seq } else { r.next() as u32 }).to_be_bytes().to_vec();
                    seq += 1;
                    if r.chance(1, 8) { d.truncate(r.usize(0, 3)); } else { d.extend(if r.chance(3, 4) { z.clone() } else { r.bytes_between(0, 12) }); }
                    RawChunk::new(b"fdAT", d)
                }
                9 => RawChunk::new(b"IEND", vec![]),
                10 => RawChunk::new(b"tEXt", if r.bool() { b"k\0v".to_vec() } else { r.bytes_between(0, 6) }),
                11 => RawChunk::new(b"IHDR", if r.bool() { vec![] } else { ihdr(w, h, depth, color, 0).data }),
                12 => RawChunk::new(&[*r.pick(b"abIz"), *r.pick(b"bDq"), *r.pick(b"CAx"), *r.pick(b"dTu")], r.bytes_between(0, 10)),
                _ => RawChunk::new(b"gAMA", r.bytes_between(0, 6)),
            };
            cs.push(c);
        }
        if r.chance(3, 4) {
            cs.push(RawChunk::new(b"IEND", vec![]));
        }
        out.push(corpus::TestFile { bytes: serialize(&cs), source: "chunk-soup".into(), model_domain: false });
    }
    out
}

/// directed regression probes for panics found earlier (kept so that a re-introduction is seen at once)
fn directed_probes(ctx: &mut Ctx) {
    let cfg = Config::default();
    let z = zlib_stream(&[0, 1, 2, 3, 0, 4, 5, 6], &Deflater::Stored(100));
    let fc = |seq: u32| Fctl { seq, w: 3, h: 2, x: 0, y: 0, delay_num: 1, delay_den: 1, dispose: 0, blend: 0 }.chunk();
    let fd = |seq: u32| { let mut d = seq.to_be_bytes().to_vec(); d.extend(z.clone()); RawChunk::new(b"fdAT", d) };
    let still = serialize(&[ihdr(3, 2, 8, 0, 0), RawChunk::new(b"IDAT", z.clone()), RawChunk::new(b"IEND", vec![])]);
    let apng = serialize(&[ihdr(3, 2, 8, 0, 0), actl(2, 0), fc(0), RawChunk::new(b"IDAT", z.clone()), fc(1), fd(2), RawChunk::new(b"IEND", vec![])]);
    let actl0 = serialize(&[ihdr(3, 2, 8, 0, 0), actl(0, 0), fc(0), RawChunk::new(b"IDAT", z.clone()), RawChunk::new(b"IEND", vec![])]);
    let trns_late = serialize(&[ihdr(3, 2, 8, 0, 0), actl(2, 0), fc(0), RawChunk::new(b"IDAT", z.clone()), RawChunk::new(b"tRNS", vec![0, 1]), fc(1), fd(2), RawChunk::new(b"IEND", vec![])]);
    // a stream whose first data chunk is an fdAT (no IDAT at all), tRNS between the frames (found by the Reader invariant proof)
    let fdat_first = unhex("89504e470d0a1a0a0000000d4948445200000002000000010800000000d1492056000000086163544c0000000200000000f38d93700000001a6663544c0000000000000002000000010000000000000000000100010000f57c59980000000f6664415400000001789c63e0120100002b001f6653984a0000000274524e53000a964624260000001a6663544c000000020000000200000001000000000000000000010001000018ea8a710000000f6664415400000003789c6390d30000006700479b3e7dbd0000000049454e44ae426082").unwrap_or_default();
    // an EMPTY PLTE (parsed since f31d047: palette = Some([])) on an indexed image, with and without tRNS, under EXPAND
    let zi = zlib_stream(&[0, 0, 1, 2, 0, 3, 4, 5], &Deflater::Stored(100));
    let empty_plte = serialize(&[ihdr(3, 2, 8, 3, 0), RawChunk::new(b"PLTE", vec![]), RawChunk::new(b"IDAT", zi.clone()), RawChunk::new(b"IEND", vec![])]);
    let empty_plte_trns = serialize(&[ihdr(3, 2, 8, 3, 0), RawChunk::new(b"PLTE", vec![]), RawChunk::new(b"tRNS", vec![]), RawChunk::new(b"IDAT", zi.clone()), RawChunk::new(b"IEND", vec![])]);
    let idat_end = apng.windows(4).position(|w| w == b"IDAT").unwrap() + 4 + z.len() + 4;
    let probes: Vec<(&str, Vec<u8>, usize, Vec<Op>, u8)> = vec![
        ("finish-then-next_frame_info", still.clone(), still.len(), vec![Op::ReadInfo, Op::Finish, Op::NextFrameInfo], 0),
        ("actl-zero-frames", actl0.clone(), actl0.len(), vec![Op::ReadInfo, Op::NextFrame(0), Op::NextRow, Op::NextRow, Op::NextRow, Op::NextRow], 0),
        ("failed-finish-then-rows", apng.clone(), idat_end, vec![Op::ReadInfo, Op::Finish, Op::Grow(apng.len()), Op::NextRow, Op::NextRow, Op::NextRow], 0),
        ("trns-after-idat", trns_late.clone(), trns_late.len(), vec![Op::ReadInfo, Op::NextFrame(0), Op::NextFrame(0), Op::NextFrame(0)], 1),
        ("trns-after-idat-rows", trns_late.clone(), trns_late.len(), vec![Op::ReadInfo, Op::NextRow, Op::NextRow, Op::NextRow, Op::NextRow, Op::NextRow], 1),
        ("fdat-first-trns-between-frames", fdat_first.clone(), fdat_first.len(), vec![Op::ReadInfo, Op::NextFrame(0), Op::NextFrameInfo, Op::NextFrame(0)], 1),
        ("empty-plte-expand", empty_plte.clone(), empty_plte.len(), vec![Op::ReadInfo, Op::NextFrame(0)], 1),
        ("empty-plte-expand-rows", empty_plte.clone(), empty_plte.len(), vec![Op::ReadInfo, Op::NextRow, Op::ReadRow, Op::Finish], 5),
        ("empty-plte-identity", empty_plte.clone(), empty_plte.len(), vec![Op::ReadInfo, Op::NextFrame(0)], 0),
        ("empty-plte-empty-trns-expand", empty_plte_trns.clone(), empty_plte_trns.len(), vec![Op::ReadInfo, Op::NextFrame(0), Op::Finish], 1),
        ("empty-plte-empty-trns-alpha", empty_plte_trns.clone(), empty_plte_trns.len(), vec![Op::ReadInfo, Op::NextRow, Op::NextRow, Op::NextRow], 5),
    ];
    let mut probe_runs = vec![];
    let mut probe_traces = vec![];
    for (name, file, v0, ops, flags) in probes {
        let mut c = Config::default();
        c.flags = flags;
        let t = rops::run_ops(&file, v0, &ops, &c);
        ctx.rep.eval(true, fnv64(&file) ^ fnv64(name.as_bytes()));
        ctx.rep.count("directed probe", name);
        if t.panicked {
            let site = t.tokens.last().cloned().unwrap_or_default();
            ctx.rep.violation("oracle", &format!("panic/{}", panic_key(&site)), &format!("probe {}: [{}]: {}", name, rops::ops_string(&ops), site), case(&file, v0, &ops, &c));
        }
        probe_runs.push((file.clone(), v0, ops.clone(), c.clone(), true));
        probe_traces.push(t);
    }
    model_batch(ctx, &probe_runs, &probe_traces, "probe");
    // extreme header geometry (each dimension at the edges of u32 and of the Adam7 8x8 grid), both interlace methods:
    // no arithmetic on width/height may overflow before the limits are charged
    let edge: [u32; 12] = [1, 2, 7, 8, 9, 0xFFFF, 0x1_0000, 0x7FFF_FFFF, 0x8000_0000, 0xFFFF_FFF8, 0xFFFF_FFF9, 0xFFFF_FFFF];
    for &w in &edge {
        for &h in &edge {
            if w < 0xFFFF && h < 0xFFFF {
                continue;
            }
            for il in [0u8, 1] {
                for (d, col) in [(8u8, 0u8), (1, 0), (16, 6), (2, 3)] {
                    let mut cs = vec![ihdr(w, h, d, col, il)];
                    if col == 3 {
                        cs.push(RawChunk::new(b"PLTE", vec![1, 2, 3, 4, 5, 6]));
                    }
                    cs.push(RawChunk::new(b"IDAT", z.clone()));
                    cs.push(RawChunk::new(b"IEND", vec![]));
                    let file = serialize(&cs);
                    // (with no effective limit and a tRNS chunk that widens the output pixels under EXPAND / ALPHA the size of the
                    // output buffer is only known once the chunks in front of the image data have been read)
                    if col == 0 || col == 3 {
                        let mut cs2 = cs.clone();
                        cs2.insert(cs2.len() - 2, RawChunk::new(b"tRNS", vec![0, 1]));
                        let file2 = serialize(&cs2);
                        for flags in [1u8, 5, 4] {
                            let ops = vec![Op::ReadInfo, Op::NextRow, Op::ShortFrame(1), Op::NextFrame(0), Op::Finish];
                            let c = Config { flags, limit: Some(1usize << 62), ..Config::default() };
                            let t = rops::run_ops(&file2, file2.len(), &ops, &c);
                            ctx.rep.eval(true, fnv64(&file2) ^ flags as u64 ^ 0x7125);
                            ctx.rep.count("directed probe", "extreme-geometry-trns-unlimited");
                            if t.panicked {
                                let site = t.tokens.last().cloned().unwrap_or_default();
                                ctx.rep.violation("oracle", &format!("panic/{}", panic_key(&site)), &format!("probe extreme-geometry {}x{} d{} c{} il{} with tRNS, no limit, flags {}: [{}]: {}", w, h, d, col, il, flags, rops::ops_string(&ops), site), case(&file2, file2.len(), &ops, &c));
                            }
                        }
                    }
                    for (limit, flags) in [(None, 0u8), (Some(1usize << 20), 1)] {
                        let ops = vec![Op::ReadInfo, Op::NextRow, Op::ReadRow, Op::NextFrameInfo, Op::NextFrame(0), Op::NextRow, Op::Finish];
                        let mut c = Config::default();
                        c.flags = flags;
                        c.limit = limit;
                        let t = rops::run_ops(&file, file.len(), &ops, &c);
                        ctx.rep.eval(true, fnv64(&file) ^ flags as u64);
                        ctx.rep.count("directed probe", "extreme-geometry");
                        if t.panicked {
                            let site = t.tokens.last().cloned().unwrap_or_default();
                            ctx.rep.violation("oracle", &format!("panic/{}", panic_key(&site)), &format!("probe extreme-geometry {}x{} d{} c{} il{}: [{}]: {}", w, h, d, col, il, rops::ops_string(&ops), site), case(&file, file.len(), &ops, &c));
                        }
                    }
                }
            }
        }
    }
    let _ = cfg;
}

// ------------------------------------------------------------------------------------------------
// getters on huge geometry (D25: `output_buffer_size()` overflowed when a tRNS chunk widened the output pixels; D26:
// `Info::raw_bytes()` overflowed on the filter bytes / under STRIP_16)

/// output bytes per pixel of a gray / RGB image of 8 or 16 bits, as DOCUMENTED for `Transformations` (independent of the crate
/// and of the model): STRIP_16 halves 16-bit samples; EXPAND / ALPHA add an alpha sample when there is a tRNS chunk or ALPHA is set
fn ref_out_bpp(color: u8, depth: u8, trns: bool, flags: u8) -> u128 {
    let (expand, strip, alpha) = (flags & 1 != 0, flags & 2 != 0, flags & 4 != 0);
    let bytes = if depth == 16 && !strip { 2 } else { 1 };
    let mut samples = if color == 2 { 3 } else { 1 };
    if (expand || alpha) && (trns || alpha) {
        samples += 1;
    }
    samples * bytes
}

struct GetterProbe {
    file: Vec<u8>,
    flags: u8,
    limit: Option<usize>,
    what: String,
    /// where the dimensions lie relative to the three products (reference arithmetic in u128), for the histogram
    region: &'static str,
}

/// one probe: `read_header_info` + `Info` accessors, `read_info`, every getter, a call, every getter again - each under `guarded`.
/// Returns the tokens of the calls the model knows (`ri`, `obs`, `ols<w>`, `rb`, `fin`) and the panics as (getter name, site).
fn run_getter_probe(p: &GetterProbe) -> (Vec<String>, Vec<(String, String)>) {
    let rd = PieceReader::new(p.file.clone(), vec![]);
    rd.visible.store(p.file.len(), Ordering::SeqCst);
    let mut dec = png::Decoder::new_with_options(rd, decode_options(&DEFAULT_OPTS));
    if let Some(l) = p.limit {
        dec.set_limits(png::Limits { bytes: l });
    }
    dec.set_transformations(rops::transformations(p.flags));
    let mut tokens = vec![];
    let mut panics: Vec<(String, String)> = vec![];
    // the accessors of the `Info` a `Decoder` hands out after the header
    let r = guarded(move || {
        let mut found: Vec<(String, String)> = vec![];
        if let Ok(info) = dec.read_header_info() {
            let info = info.clone();
            for (name, f) in info_accessors() {
                if let Err(site) = guarded(|| f(&info)) {
                    found.push((format!("decoder.info.{}", name), site));
                }
            }
        }
        (dec, found)
    });
    let dec = match r {
        Ok((d, found)) => {
            panics.extend(found);
            d
        }
        Err(site) => {
            panics.push(("read_header_info".into(), site));
            return (tokens, panics);
        }
    };
    let mut reader = match guarded(move || dec.read_info()) {
        Ok(Ok(r)) => {
            tokens.push("hdr".to_string());
            r
        }
        Ok(Err(e)) => {
            tokens.push(format!("err({})", match e {
                png::DecodingError::LimitsExceeded => "limits",
                png::DecodingError::Format(_) => "format",
                png::DecodingError::Parameter(_) => "parameter",
                png::DecodingError::IoError(_) => "eof",
            }));
            return (tokens, panics);
        }
        Err(site) => {
            tokens.push(format!("PANIC({})", site));
            panics.push(("read_info".into(), site));
            return (tokens, panics);
        }
    };
    let w = reader.info().width;
    for round in 0..2 {
        // the getters the model knows, as tokens
        let getters: Vec<(String, Box<dyn Fn(&png::Reader<PieceReader>) -> usize>)> = vec![
            ("output_buffer_size".into(), Box::new(|r| r.output_buffer_size())),
            (format!("output_line_size({})", w), Box::new(move |r| r.output_line_size(w))),
            ("output_line_size(u32::MAX)".into(), Box::new(|r| r.output_line_size(u32::MAX))),
            ("output_line_size(0)".into(), Box::new(|r| r.output_line_size(0))),
            ("info.raw_bytes".into(), Box::new(|r| r.info().raw_bytes())),
        ];
        for (name, f) in &getters {
            match guarded(|| f(&reader)) {
                Ok(n) => tokens.push(format!("size({})", n)),
                Err(site) => {
                    tokens.push(format!("PANIC({})", site));
                    panics.push((name.split('(').next().unwrap_or(name).to_string(), site));
                }
            }
        }
        // the others: no panic is all that is asked
        if let Err(site) = guarded(|| { let _ = reader.output_color_type(); }) {
            panics.push(("output_color_type".into(), site));
        }
        let info = reader.info().clone();
        for (name, f) in info_accessors() {
            if name == "raw_bytes" {
                continue;
            }
            if let Err(site) = guarded(|| f(&info)) {
                panics.push((format!("info.{}", name), site));
            }
        }
        if round == 0 {
            // a call in between: `finish` reads the (tiny) rest of the stream
            match guarded(|| reader.finish()) {
                Ok(Ok(())) => tokens.push("ok".into()),
                Ok(Err(e)) => tokens.push(format!("err({})", match e {
                    png::DecodingError::LimitsExceeded => "limits",
                    png::DecodingError::Format(_) => "format",
                    png::DecodingError::Parameter(_) => "parameter",
                    png::DecodingError::IoError(_) => "eof",
                })),
                Err(site) => {
                    tokens.push(format!("PANIC({})", site));
                    panics.push(("finish".into(), site));
                    break;
                }
            }
        }
    }
    (tokens, panics)
}

fn info_accessors() -> Vec<(&'static str, fn(&png::Info<'static>) -> usize)> {
    vec![
        ("raw_bytes", |i| i.raw_bytes()),
        ("raw_row_length", |i| i.raw_row_length()),
        ("raw_row_length_from_width(u32::MAX)", |i| i.raw_row_length_from_width(u32::MAX)),
        ("raw_row_length_from_width(0)", |i| i.raw_row_length_from_width(0)),
        ("bits_per_pixel", |i| i.bits_per_pixel()),
        ("bytes_per_pixel", |i| i.bytes_per_pixel()),
        ("size", |i| { let (w, h) = i.size(); (w as usize) ^ (h as usize) }),
        ("is_animated", |i| i.is_animated() as usize),
    ]
}

fn getter_model_line(p: &GetterProbe, w: u32) -> String {
    format!(
        "rdr run {} {} {} {} {} ri,obs,ols{},ols4294967295,ols0,rb,fin,obs,ols{},ols4294967295,ols0,rb",
        opts_string(&DEFAULT_OPTS),
        p.limit.map(|l| l.to_string()).unwrap_or("67108864".into()),
        p.flags,
        hex(&p.file),
        p.file.len(),
        w,
        w
    )
}

fn getter_case(p: &GetterProbe) -> J {
    J::obj().set("kind", J::s("getter-probe")).set("file", J::s(&hex(&p.file))).set("flags", J::i(p.flags))
        .set("limit", J::s(&p.limit.map(|l| l.to_string()).unwrap_or("default".into()))).set("what", J::s(&p.what))
}

/// tokens up to the first PANIC on either side must be equal; a PANIC must be a PANIC on both sides
fn getter_tokens_agree(model: &str, tokens: &[String]) -> bool {
    let mt = model.split(" | ").next().unwrap_or("");
    let mtoks: Vec<&str> = mt.split(' ').collect();
    for (i, tok) in tokens.iter().enumerate() {
        let m = match mtoks.get(i) {
            Some(m) => *m,
            None => return false,
        };
        let (ip, mp) = (tok.starts_with("PANIC"), m.starts_with("PANIC"));
        if ip || mp {
            if ip != mp {
                return false;
            }
            continue;
        }
        if m != tok {
            return false;
        }
    }
    // after a failed read_info the model answers the remaining tokens with err(parameter): nothing to compare
    tokens.len() == mtoks.len() || tokens.len() == 1
}

fn eval_getter_probes(ctx: &mut Ctx, probes: &[GetterProbe]) {
    let mut lines = vec![];
    let mut results = vec![];
    for p in probes {
        let (tokens, panics) = run_getter_probe(p);
        ctx.rep.eval(true, fnv64(&p.file) ^ ((p.flags as u64) << 8) ^ p.limit.map(|l| l as u64).unwrap_or(7));
        ctx.rep.count("directed probe", "getters-huge-geometry");
        ctx.rep.count("getter probe: region (limit, dimensions)", &format!("{} / {}", if p.limit.is_some() { "usize::MAX" } else { "default" }, p.region));
        ctx.rep.count("getter probe: read_info", tokens.first().map(|s| s.as_str()).unwrap_or("-"));
        for (name, site) in &panics {
            ctx.rep.violation("oracle", &format!("panic/getter/{}", name), &format!("getter probe {}: {} panicked: {}", p.what, name, site), getter_case(p));
        }
        let w = u32::from_be_bytes([p.file[16], p.file[17], p.file[18], p.file[19]]);
        lines.push(getter_model_line(p, w));
        results.push((tokens, panics.is_empty()));
    }
    let answers = model::ask(&lines);
    for (i, p) in probes.iter().enumerate() {
        ctx.rep.model_compared += 1;
        if model::outside_domain(&answers[i]) {
            ctx.rep.model_gaps += 1;
            continue;
        }
        if !getter_tokens_agree(&answers[i], &results[i].0) {
            ctx.rep.violation("model", "reader-model/getters", &format!("getter probe {}: model `{}` vs implementation `{}`", p.what, cut(&answers[i]), cut(&results[i].0.join(" "))), getter_case(p));
        }
    }
}

/// huge dimensions x {gray, RGB} x {8, 16} x tRNS present / absent x all 8 transformation subsets x Limits {default, usize::MAX}:
/// `read_info`, then every getter, a call, every getter again.  Oracle: no panic.  Model: the class of `read_info`'s result and the
/// values of `output_buffer_size()`, `output_line_size(w)`, `info().raw_bytes()`.
fn getter_probes(ctx: &mut Ctx) {
    let mut rng = ctx.rng.fork(0x6e77);
    let z = zlib_stream(&[0, 1, 2, 3, 0, 4, 5, 6], &Deflater::Stored(100));
    let per_k = ctx.n(1, 3);
    let mut probes = vec![];
    for color in [0u8, 2] {
        for depth in [8u8, 16] {
            for trns in [false, true] {
                for flags in 0u8..8 {
                    let bi = ref_out_bpp(color, depth, false, 0);
                    let bo_hdr = ref_out_bpp(color, depth, false, flags);
                    let bo_fin = ref_out_bpp(color, depth, trns, flags);
                    // dimensions: fixed extremes, the D25 file's, and for each pixel size k that one of the products uses the pairs
                    // (w, h) and (w + 1, h) with k·w·h just below / just above 2^64
                    let mut dims: Vec<(u32, u32)> = vec![(0x6000_0000, 0x6000_0000), (u32::MAX, u32::MAX), (0x8000_0000, 0x8000_0000), (u32::MAX, 1), (1, u32::MAX), (0x1_0000, 0x1_0000)];
                    let mut ks = vec![bi, bo_hdr, bo_fin];
                    ks.sort();
                    ks.dedup();
                    for &k in &ks {
                        for _ in 0..per_k {
                            let h = rng.range(1 << 31, u32::MAX as u64) as u128;
                            let w = ((1u128 << 64) - 1) / (k * h);
                            if w >= 1 && w < u32::MAX as u128 {
                                dims.push((w as u32, h as u32));
                                dims.push((w as u32 + 1, h as u32));
                            }
                        }
                    }
                    // the filter byte of every row: bi·w·h < 2^64 <= (bi·w + 1)·h (what `raw_bytes()` multiplies)
                    for _ in 0..64 {
                        let h = rng.range(1 << 31, u32::MAX as u64) as u128;
                        let w = ((1u128 << 64) - 1) / (bi * h);
                        if w >= 1 && w <= u32::MAX as u128 && bi * w * h < (1u128 << 64) && (bi * w + 1) * h >= (1u128 << 64) {
                            dims.push((w as u32, h as u32));
                            break;
                        }
                    }
                    for (w, h) in dims {
                        let mut cs = vec![ihdr(w, h, depth, color, 0)];
                        if trns {
                            cs.push(RawChunk::new(b"tRNS", if color == 2 { vec![0, 1, 0, 2, 0, 3] } else { vec![0, 1] }));
                        }
                        cs.push(RawChunk::new(b"IDAT", z.clone()));
                        cs.push(RawChunk::new(b"IEND", vec![]));
                        let file = serialize(&cs);
                        for limit in [None, Some(usize::MAX)] {
                            // with the default limits every huge row is refused before any getter exists: one transformation set is enough there
                            if limit.is_none() && !(flags == 1 || flags == 0) {
                                continue;
                            }
                            let (wh, two64) = (w as u128 * h as u128, 1u128 << 64);
                            let region = if bo_hdr * wh >= two64 {
                                "refused by the first check"
                            } else if bo_fin * wh >= two64 {
                                "output widened by tRNS overflows (D25)"
                            } else if (bi * w as u128 + 1) * h as u128 >= two64 {
                                "only raw_bytes exceeds usize (D26)"
                            } else {
                                "everything fits"
                            };
                            probes.push(GetterProbe { file: file.clone(), flags, limit, region, what: format!("{}x{} c{} d{} trns={} flags={} limit={}", w, h, color, depth, trns as u8, flags, if limit.is_some() { "max" } else { "default" }) });
                        }
                    }
                }
            }
        }
    }
    eval_getter_probes(ctx, &probes);
}

// ------------------------------------------------------------------------------------------------

pub fn replay(prop: &str, ctx: &mut Ctx, c: &J) {
    if c.get("kind").and_then(|k| k.as_str()) == Some("getter-probe") {
        let file = c.get("file").and_then(|f| f.as_str()).and_then(unhex).unwrap_or_default();
        let flags = c.get("flags").and_then(|f| f.as_i64()).unwrap_or(0) as u8;
        let limit = c.get("limit").and_then(|f| f.as_str()).and_then(|s| s.parse::<usize>().ok());
        let p = GetterProbe { file, flags, limit, region: "replay", what: c.get("what").and_then(|f| f.as_str()).unwrap_or("replay").to_string() };
        let (tokens, panics) = run_getter_probe(&p);
        println!("implementation: {}", tokens.join(" "));
        for (name, site) in &panics {
            println!("panic in {}: {}", name, site);
        }
        eval_getter_probes(ctx, &[p]);
        return;
    }
    if c.get("kind").and_then(|k| k.as_str()) == Some("low-level-terminal") {
        let bytes = c.get("file").and_then(|f| f.as_str()).and_then(unhex).unwrap_or_default();
        let f = corpus::TestFile { bytes, source: "replay".into(), model_domain: false };
        low_level_terminal(ctx, &[f]);
        return;
    }
    if c.get("kind").and_then(|k| k.as_str()) == Some("reset") {
        let a = c.get("a").and_then(|f| f.as_str()).and_then(unhex).unwrap_or_default();
        let b = c.get("b").and_then(|f| f.as_str()).and_then(unhex).unwrap_or_default();
        let fresh = crate::props::c04::run_streaming(&b, &[], &DEFAULT_OPTS);
        let mut dec = png::StreamingDecoder::new();
        let mut img = vec![];
        let mut buf = &a[..];
        let mut calls = 0usize;
        while !buf.is_empty() {
            calls += 1;
            if calls > crate::util::spin_budget(a.len()) {
                break;
            }
            match dec.update(buf, &mut img) {
                Ok((n, _)) => buf = &buf[n..],
                Err(_) => break,
            }
        }
        dec.reset();
        let s = stream_with(&mut dec, &b);
        ctx.rep.eval(true, fnv64(&b));
        if s != fresh {
            ctx.rep.violation("oracle", "reset/differs", &format!("after reset: `{}`; fresh: `{}`", cut(&s), cut(&fresh)), c.clone());
        }
        return;
    }
    let (file, v0, ops, cfg) = case_cfg(c);
    if has_short(&ops) {
        let nframes = c.get("valid_frames").and_then(|f| f.as_i64()).unwrap_or(0) as usize;
        ctx.rep.eval(true, fnv64(&file));
        println!("implementation: {}", rops::run_ops(&file, v0, &ops, &cfg).text());
        for (key, what) in short_frame_findings(&file, v0, &ops, &cfg, nframes > 0, nframes) {
            ctx.rep.violation("oracle", &key, &what, c.clone());
        }
        if prop == "C18" {
            let t = rops::run_ops(&file, v0, &ops, &cfg);
            if let Some(ti) = first_terminal(&t.tokens, &ops) {
                if let Some(j) = (ti + 1..t.tokens.len()).find(|&j| !(t.tokens[j].starts_with("err(") || t.tokens[j] == "none")) {
                    ctx.rep.violation("oracle", "success-after-terminal/replay", &format!("call {} returned `{}` after the terminal event at call {}", j, t.tokens[j], ti), c.clone());
                }
            }
        }
        return;
    }
    let t = rops::run_ops(&file, v0, &ops, &cfg);
    ctx.rep.eval(true, fnv64(&file));
    let ans = model::ask_one(&[rops::model_line(&file, v0, &ops, &cfg)]);
    println!("implementation: {}", t.text());
    println!("model:          {}", ans[0]);
    if t.panicked {
        ctx.rep.violation("oracle", "panic/replay", &t.tokens.last().cloned().unwrap_or_default(), c.clone());
    } else if !model::outside_domain(&ans[0]) && !rops::agree(&ans[0], &t) && !(ops.iter().any(|o| matches!(o, Op::Grow(_))) && rops::agree_modulo_eof(&ans[0], &t, &ops)) {
        ctx.rep.violation("model", &format!("reader-model/{}", prop), &format!("model `{}` vs implementation `{}`", cut(&ans[0]), cut(&t.text())), c.clone());
    }
    if prop == "C13" {
        let tail: Vec<Op> = ops.iter().filter(|o| !matches!(o, Op::ReadInfo)).cloned().collect();
        if let (Ok(a), Ok(refs)) = (assemble(&file, &tail, cfg.flags), reference_frames(&file, cfg.flags)) {
            for (k, px) in &a.frames {
                if refs.get(*k).map(|r| &r.pixels != px).unwrap_or(true) {
                    ctx.rep.violation("oracle", "frame-differs/replay", &format!("frame {} differs from the whole-frame decode", k), c.clone());
                }
            }
            for p in a.problems {
                ctx.rep.violation("oracle", "path-problem", &p, c.clone());
            }
        }
    }
}
