//! C16 — metadata is reported faithfully; malformed optional chunks never break the image.
//!
//! Reference-written ancillary chunks (random and boundary field values, several positions, duplicates,
//! malformed payloads, bodies crossing the 32 KiB chunk buffer) are decoded through `Reader`; `info()` is
//! compared field by field with (oracle) the values written and (model) the Lean framing model's `Info`;
//! pixels are compared with the same file without the chunk.
use crate::canon::*;
use crate::json::J;
use crate::model;
use crate::props::c04::{run_reader, same_modulo_error_detail, run_streaming};
use crate::refpng::*;
use crate::report::Ctx;
use crate::rng::{fnv64, Rng};
use crate::util::{hex, unhex};

fn edge_u32(rng: &mut Rng) -> u32 {
    match rng.below(8) {
        0 => 0,
        1 => 1,
        2 => 0x8000_0000,
        3 => u32::MAX,
        4 => 100_000,
        _ => rng.next() as u32,
    }
}
fn edge_u16(rng: &mut Rng) -> u16 {
    match rng.below(6) {
        0 => 0,
        1 => 1,
        2 => 0x8000,
        3 => u16::MAX,
        _ => rng.next() as u16,
    }
}

/// one well-formed instance of `kind` for an image of the given colour type/depth; returns the chunk and
/// the substring `info_canon` must contain for it
fn well_formed(kind: &str, rng: &mut Rng, color: u8, depth: u8, plte_entries: usize) -> Option<(RawChunk, String)> {
    Some(match kind {
        "gAMA" => {
            let g = edge_u32(rng);
            (RawChunk::new(b"gAMA", g.to_be_bytes().to_vec()), format!(" gama={} ", g))
        }
        "cHRM" => {
            let v: Vec<u32> = (0..8).map(|_| edge_u32(rng)).collect();
            let mut d = vec![];
            for x in &v {
                d.extend_from_slice(&x.to_be_bytes());
            }
            (RawChunk::new(b"cHRM", d), format!(" chrm={} ", v.iter().map(|x| x.to_string()).collect::<Vec<_>>().join(",")))
        }
        "sRGB" => {
            let r = rng.below(4) as u8;
            (RawChunk::new(b"sRGB", vec![r]), format!(" srgb={} ", r))
        }
        "pHYs" => {
            let (x, y, u) = (edge_u32(rng), edge_u32(rng), rng.below(2) as u8);
            let mut d = x.to_be_bytes().to_vec();
            d.extend_from_slice(&y.to_be_bytes());
            d.push(u);
            (RawChunk::new(b"pHYs", d), format!(" phys={},{},{} ", x, y, u))
        }
        "sBIT" => {
            let n = match color { 0 => 1, 2 | 3 => 3, 4 => 2, _ => 4 };
            let sd = if color == 3 { 8 } else { depth };
            let d: Vec<u8> = (0..n).map(|_| rng.range(1, sd as u64) as u8).collect();
            (RawChunk::new(b"sBIT", d.clone()), format!(" sbit={} ", hex(&d)))
        }
        "bKGD" => {
            let n = match color { 3 => 1, 0 | 4 => 2, _ => 6 };
            let d = rng.bytes(n);
            (RawChunk::new(b"bKGD", d.clone()), format!(" bkgd={} ", hex(&d)))
        }
        "tRNS" => match color {
            0 => {
                let d = rng.bytes(2);
                let stored = if depth < 16 { vec![d[1]] } else { d.clone() };
                (RawChunk::new(b"tRNS", d), format!(" trns={} ", hex(&stored)))
            }
            2 => {
                let d = rng.bytes(6);
                let stored = if depth < 16 { vec![d[1], d[3], d[5]] } else { d.clone() };
                (RawChunk::new(b"tRNS", d), format!(" trns={} ", hex(&stored)))
            }
            3 => {
                let n = rng.usize(1, plte_entries.max(1));
                let d = rng.bytes(n);
                (RawChunk::new(b"tRNS", d.clone()), format!(" trns={} ", hex(&d)))
            }
            _ => return None,
        },
        "cICP" => {
            let (a, b, f) = (rng.byte(), rng.byte(), rng.below(2) as u8);
            (RawChunk::new(b"cICP", vec![a, b, 0, f]), format!(" cicp={},{},0,{} ", a, b, f))
        }
        "mDCV" => {
            let c: Vec<u16> = (0..8).map(|_| edge_u16(rng)).collect(); // red, green, blue, white (x, y)
            let (mx, mn) = (edge_u32(rng), edge_u32(rng));
            let mut d = vec![];
            for x in &c {
                d.extend_from_slice(&x.to_be_bytes());
            }
            d.extend_from_slice(&mx.to_be_bytes());
            d.extend_from_slice(&mn.to_be_bytes());
            // reported as white, red, green, blue scaled x2
            let order = [6, 7, 0, 1, 2, 3, 4, 5];
            let s = order.iter().map(|&i| (c[i] as u32 * 2).to_string()).collect::<Vec<_>>().join(",");
            (RawChunk::new(b"mDCV", d), format!(" mdcv={};{};{} ", s, mx, mn))
        }
        "cLLI" => {
            let (a, b) = (edge_u32(rng), edge_u32(rng));
            let mut d = a.to_be_bytes().to_vec();
            d.extend_from_slice(&b.to_be_bytes());
            (RawChunk::new(b"cLLI", d), format!(" clli={},{} ", a, b))
        }
        "eXIf" => {
            let n = *rng.pick(&[1usize, 2, 30, 32766, 32768, 32770, 65536, 300_000]);
            let n = if rng.chance(3, 4) { n.min(200) } else { n };
            let d = rng.bytes(n);
            (RawChunk::new(b"eXIf", d.clone()), format!(" exif={} ", hex(&d)))
        }
        "iCCP" => {
            let name: Vec<u8> = (0..rng.usize(1, 79)).map(|_| rng.range(32, 126) as u8).collect();
            let n = *rng.pick(&[0usize, 1, 100, 40000]);
            let n = if rng.chance(3, 4) { n.min(100) } else { n };
            let profile = rng.class_bytes(n);
            let mut d = name;
            d.push(0);
            d.push(0);
            d.extend(zlib_stream(&profile, &Deflater::Level(6)));
            (RawChunk::new(b"iCCP", d), format!(" icc={} ", hex(&profile)))
        }
        "tEXt" => {
            let k: Vec<u8> = (0..rng.usize(1, 79)).map(|_| rng.range(1, 255) as u8).collect();
            let n = if rng.chance(1, 10) { 33000 } else { rng.usize(0, 60) };
            let t: Vec<u8> = (0..n).map(|_| rng.byte()).collect();
            let mut d = k.clone();
            d.push(0);
            d.extend_from_slice(&t);
            (RawChunk::new(b"tEXt", d), format!("t:{}:{}", hex(&k), hex(&t)))
        }
        "zTXt" => {
            let k: Vec<u8> = (0..rng.usize(1, 79)).map(|_| rng.range(1, 255) as u8).collect();
            let tn = rng.usize(0, 200);
            let t = rng.class_bytes(tn);
            let mut d = k.clone();
            d.push(0);
            d.push(0);
            d.extend(zlib_stream(&t, &Deflater::Level(6)));
            (RawChunk::new(b"zTXt", d), format!("z:{}:{}", hex(&k), hex(&t)))
        }
        "iTXt" => {
            let k: Vec<u8> = (0..rng.usize(1, 79)).map(|_| rng.range(1, 255) as u8).collect();
            let lang: Vec<u8> = (0..rng.usize(0, 8)).map(|_| rng.range(97, 122) as u8).collect();
            let trans: String = (0..rng.usize(0, 6)).map(|_| *rng.pick(&['a', 'é', '猫', '𝄞', ' '])).collect();
            let text: String = (0..rng.usize(0, 40)).map(|_| *rng.pick(&['x', 'ß', '語', '😀', '\n', '\u{0}'])).collect();
            let text = text.replace('\u{0}', "");
            let compressed = rng.bool();
            let mut d = k.clone();
            d.push(0);
            d.push(compressed as u8);
            d.push(0);
            d.extend_from_slice(&lang);
            d.push(0);
            d.extend_from_slice(trans.as_bytes());
            d.push(0);
            if compressed {
                d.extend(zlib_stream(text.as_bytes(), &Deflater::Level(6)));
            } else {
                d.extend_from_slice(text.as_bytes());
            }
            (RawChunk::new(b"iTXt", d), format!("i:{}:{}:{}:{}:{}", hex(&k), compressed as u8, hex(&lang), hex(trans.as_bytes()), hex(text.as_bytes())))
        }
        _ => return None,
    })
}

const KINDS: [&str; 16] = ["gAMA", "cHRM", "sRGB", "pHYs", "sBIT", "bKGD", "tRNS", "cICP", "mDCV", "cLLI", "eXIf", "iCCP", "tEXt", "zTXt", "iTXt", "unknown"];
/// kinds that are only honoured before the first IDAT
fn before_idat_only(k: &str) -> bool {
    matches!(k, "gAMA" | "cHRM" | "sRGB" | "pHYs" | "sBIT" | "bKGD" | "cICP" | "mDCV" | "iCCP")
}
/// kinds that must also precede PLTE to be honoured
fn before_plte_only(k: &str) -> bool {
    matches!(k, "sBIT" | "cICP" | "mDCV")
}

fn pixels_part(r: &str) -> String {
    r.split(' ').filter(|t| t.starts_with('f') && !t.starts_with("fctl") && !t.starts_with("fin")).collect::<Vec<_>>().join(" ")
}

struct Base {
    chunks: Vec<RawChunk>,
    color: u8,
    depth: u8,
    plte_at: Option<usize>,
    idat_at: usize,
    plte_entries: usize,
}

fn base_file(rng: &mut Rng) -> Base {
    let (color, depth) = *rng.pick(&LEGAL_PAIRS);
    let (iw, ih) = (rng.range(1, 8) as u32, rng.range(1, 6) as u32);
    let img = Img::random(rng, color, depth, iw, ih);
    let s = Still { img, interlace: rng.bool(), filters: Filters::Random, deflater: Deflater::Level(6), split: Split::Fixed(20) };
    let (chunks, _) = still_chunks(&s, rng);
    let plte_at = chunks.iter().position(|c| &c.ty == b"PLTE");
    let idat_at = chunks.iter().position(|c| &c.ty == b"IDAT").unwrap();
    Base { chunks, color, depth, plte_at, idat_at, plte_entries: 1usize << depth.min(8) }
}

fn judge(ctx: &mut Ctx, class: &str, file: &[u8], without: &[u8], expect: Option<&str>, must_absent: Option<&str>, model_ans: &str) {
    let r = run_reader(file, &[], &DEFAULT_OPTS, png::Transformations::IDENTITY);
    let r0 = run_reader(without, &[], &DEFAULT_OPTS, png::Transformations::IDENTITY);
    ctx.rep.eval(true, fnv64(file));
    ctx.rep.count("case", class);
    let case = || J::obj().set("class", J::s(class)).set("file", J::s(&hex(file))).set("without", J::s(&hex(without)))
        .set("expect", J::s(expect.unwrap_or(""))).set("absent", J::s(must_absent.unwrap_or("")));
    if r.starts_with("PANIC") {
        ctx.rep.violation("oracle", &format!("panic/{}", class), &format!("decoder panicked: {}", r), case());
        return;
    }
    // pixels must not be affected by the optional chunk
    if pixels_part(&r) != pixels_part(&r0) {
        ctx.rep.violation("oracle", &format!("pixels-affected/{}", class), &format!("frames with the chunk `{}` differ from frames without it `{}`", pixels_part(&r), pixels_part(&r0)), case());
        return;
    }
    let end = r.rsplit("end[").next().unwrap_or("");
    if let Some(e) = expect {
        if !end.contains(e.trim_end()) {
            ctx.rep.violation("oracle", &format!("value-not-reported/{}", class), &format!("expected `{}` in Info after finish(), got `{}`", e.trim(), &crate::util::shorten(end, 500, 0)), case());
            return;
        }
    }
    if let Some(a) = must_absent {
        // the whole Info must equal the Info of the file without the chunk
        let end0 = r0.rsplit("end[").next().unwrap_or("");
        if end != end0 {
            ctx.rep.violation("oracle", &format!("not-ignored/{}", class), &format!("a chunk that must be ignored ({}) changed the reported metadata: `{}` vs `{}`", a, &crate::util::shorten(end, 400, 0), &crate::util::shorten(end0, 400, 0)), case());
            return;
        }
    }
    // model: framing model's Info and event trace for the same bytes
    ctx.rep.model_compared += 1;
    let m = model_ans.rsplitn(2, " | ").last().unwrap_or("");
    let s = run_streaming(file, &[], &DEFAULT_OPTS);
    if !same_modulo_error_detail(m, &s) {
        ctx.rep.violation("model", &format!("framing-info/{}", class), &format!("framing model `{}` vs StreamingDecoder `{}`", &crate::util::shorten(m, 600, 0), &crate::util::shorten(&s, 600, 0)), case());
    }
}

/// "An sRGB chunk overrides the reported gamma and chromaticities": files that carry gAMA and cHRM with values that are NOT the sRGB
/// ones together with an sRGB chunk, in every order, and the same files without the sRGB chunk; what the ACCESSORS `Info::gamma()` /
/// `Info::chromaticities()` report (the canonical Info string prints the stored chunk values only): with sRGB the specification's
/// substitutes (gamma 45455; white 31270,32900; red 64000,33000; green 30000,60000; blue 15000,6000), without it the chunk values.
fn srgb_override_part(ctx: &mut Ctx, rng: &mut Rng) {
    const SUB_GAMMA: u32 = 45455;
    const SUB_CHRM: [u32; 8] = [31270, 32900, 64000, 33000, 30000, 60000, 15000, 6000];
    for k in 0..ctx.n(60, 400) {
        let mut r = rng.fork(4400 + k as u64);
        let b = base_file(&mut r);
        let g: u32 = *r.pick(&[1u32, 100000, 22222, 45454, 45456, u32::MAX]);
        let c: Vec<u32> = (0..8).map(|i| if r.chance(1, 4) { SUB_CHRM[i] } else { r.next() as u32 % 100001 }).collect();
        let mut cb = vec![];
        for v in &c {
            cb.extend_from_slice(&v.to_be_bytes());
        }
        let intent = r.below(4) as u8;
        let order = k % 6;
        let with_srgb = k % 5 != 4;
        let (have_g, have_c) = (k % 7 != 3, k % 7 != 5);
        let mut extra: Vec<RawChunk> = vec![];
        let sr = RawChunk::new(b"sRGB", vec![intent]);
        let ga = RawChunk::new(b"gAMA", g.to_be_bytes().to_vec());
        let ch = RawChunk::new(b"cHRM", cb.clone());
        let seq: Vec<u8> = match order { 0 => vec![0, 1, 2], 1 => vec![0, 2, 1], 2 => vec![1, 0, 2], 3 => vec![1, 2, 0], 4 => vec![2, 0, 1], _ => vec![2, 1, 0] };
        for x in seq {
            match x {
                0 if with_srgb => extra.push(sr.clone()),
                1 if have_g => extra.push(ga.clone()),
                2 if have_c => extra.push(ch.clone()),
                _ => {}
            }
        }
        let mut cs = b.chunks.clone();
        let at = b.plte_at.unwrap_or(b.idat_at).min(b.idat_at);
        for (i, c) in extra.into_iter().enumerate() {
            cs.insert(at + i, c);
        }
        let file = serialize(&cs);
        ctx.rep.eval(true, fnv64(&file));
        ctx.rep.count("case", if with_srgb { "sRGB together with gAMA / cHRM: accessors" } else { "gAMA / cHRM without sRGB: accessors" });
        let filec = file.clone();
        let res = crate::util::guarded(move || -> Result<(Option<u32>, Option<[u32; 8]>), String> {
            let rd = png::Decoder::new(std::io::Cursor::new(filec)).read_info().map_err(|e| format!("read_info: {}", e))?;
            let i = rd.info();
            let cc = i.chromaticities().map(|c| [c.white.0.into_scaled(), c.white.1.into_scaled(), c.red.0.into_scaled(), c.red.1.into_scaled(), c.green.0.into_scaled(), c.green.1.into_scaled(), c.blue.0.into_scaled(), c.blue.1.into_scaled()]);
            Ok((i.gamma().map(|g| g.into_scaled()), cc))
        });
        let case = || J::obj().set("class", J::s("srgb-override")).set("file", J::s(&hex(&file))).set("without", J::s(&hex(&file))).set("expect", J::s("")).set("absent", J::s(""));
        let want_g = if with_srgb { Some(SUB_GAMMA) } else if have_g { Some(g) } else { None };
        let mut want_c = None;
        if with_srgb {
            want_c = Some(SUB_CHRM);
        } else if have_c {
            let mut a = [0u32; 8];
            a.copy_from_slice(&c);
            want_c = Some(a);
        }
        match res {
            Err(p) => ctx.rep.violation("oracle", "panic/srgb-override", &format!("decoder panicked: {}", p), case()),
            Ok(Err(e)) => ctx.rep.violation("oracle", "pixels-affected/srgb-override", &format!("a file with well-formed sRGB / gAMA / cHRM chunks is refused: {}", e), case()),
            Ok(Ok((gg, cc))) => {
                if gg != want_g {
                    ctx.rep.violation("oracle", "accessor/gamma", &format!("Info::gamma() = {:?}, expected {:?} (sRGB chunk {}, gAMA {})", gg, want_g, if with_srgb { "present" } else { "absent" }, if have_g { g.to_string() } else { "absent".into() }), case());
                }
                if cc != want_c {
                    ctx.rep.violation("oracle", "accessor/chromaticities", &format!("Info::chromaticities() = {:?}, expected {:?} (sRGB chunk {}, cHRM {})", cc, want_c, if with_srgb { "present" } else { "absent" }, if have_c { "present" } else { "absent" }), case());
                }
            }
        }
    }
}

/// `Decoder::set_ignore_text_chunk(true)` / `Decoder::set_ignore_iccp_chunk(true)` on a `Decoder::new(..)` (the PUBLIC switches):
/// the text chunks / the ICC profile are absent from Info, pixels and all other metadata are unchanged - the complete canonical
/// result (Info at read_info, every frame, finish, Info at the end) equals that of the same file built WITHOUT those chunks,
/// decoded with default options.  Switched explicitly to `false` the result equals the default decode.  The low-level decoder
/// with the same options installed through its own setters is compared with the Lean framing model.
fn ignore_switches_part(ctx: &mut Ctx, rng: &mut Rng) {
    use crate::props::c04::{run_reader_route, run_streaming_route};
    let ident = png::Transformations::IDENTITY;
    let mut jobs: Vec<(String, Vec<u8>, [bool; 5])> = vec![];
    for i in 0..ctx.n(60, 240) {
        let mut r = rng.fork(i as u64);
        let b = base_file(&mut r);
        // the file with text chunks (all three kinds, before and after the image data), an ICC profile and other metadata
        let mut cs = b.chunks.clone();
        let mut is_text: Vec<bool> = vec![false; cs.len()];
        let mut is_icc: Vec<bool> = vec![false; cs.len()];
        let mut ins = |cs: &mut Vec<RawChunk>, at: usize, c: RawChunk, t: bool, p: bool, is_text: &mut Vec<bool>, is_icc: &mut Vec<bool>| {
            cs.insert(at, c);
            is_text.insert(at, t);
            is_icc.insert(at, p);
        };
        for kind in ["gAMA", "pHYs", "eXIf", "cLLI"] {
            if r.bool() {
                if let Some((c, _)) = well_formed(kind, &mut r, b.color, b.depth, b.plte_entries) {
                    let at = cs.iter().position(|c| &c.ty == b"IDAT").unwrap();
                    ins(&mut cs, at, c, false, false, &mut is_text, &mut is_icc);
                }
            }
        }
        if let Some((c, _)) = well_formed("iCCP", &mut r, b.color, b.depth, b.plte_entries) {
            ins(&mut cs, 1, c, false, true, &mut is_text, &mut is_icc);
        }
        for _ in 0..r.usize(1, 5) {
            let kind = *r.pick(&["tEXt", "zTXt", "iTXt"]);
            if let Some((c, _)) = well_formed(kind, &mut r, b.color, b.depth, b.plte_entries) {
                let idat = cs.iter().position(|c| &c.ty == b"IDAT").unwrap();
                let at = if r.bool() { r.usize(1, idat) } else { cs.len() - 1 };
                // (a text chunk in front of PLTE / tRNS is fine)
                ins(&mut cs, at, c, true, false, &mut is_text, &mut is_icc);
            }
        }
        let file = serialize(&cs);
        let drop = |text: bool, icc: bool| -> Vec<u8> {
            serialize(&cs.iter().enumerate().filter(|(k, _)| !((text && is_text[*k]) || (icc && is_icc[*k]))).map(|(_, c)| c.clone()).collect::<Vec<_>>())
        };
        let default = run_reader(&file, &[], &DEFAULT_OPTS, ident);
        for (text, icc) in [(true, false), (false, true), (true, true), (false, false)] {
            let opts = [true, false, text, icc, true];
            let name = format!("ignore text={} iccp={}", text, icc);
            let want = run_reader(&drop(text, icc), &[], &DEFAULT_OPTS, ident);
            let got = run_reader_route(&file, &[], &opts, ident, true);
            // non-trivial when the default decode does report what the switch removes
            ctx.rep.eval(default != want, fnv64(&file) ^ fnv64(name.as_bytes()));
            ctx.rep.count("public switches (Decoder setters)", &name);
            if got != want {
                let case = J::obj().set("class", J::s("public-switches")).set("file", J::s(&hex(&file))).set("without", J::s(&hex(&drop(text, icc)))).set("opts", J::s(&opts_string(&opts)));
                let key = if got.starts_with("PANIC") { "panic/public-switches".to_string() } else if pixels_part(&got) != pixels_part(&want) { format!("pixels-affected/public-switches/{}{}", if text { "text" } else { "" }, if icc { "iccp" } else { "" }) }
                    else { format!("not-ignored/public-switches/{}{}", if text { "text" } else { "" }, if icc { "iccp" } else { "" }) };
                ctx.rep.violation("oracle", &key, &format!("Decoder::set_ignore_text_chunk({}) + set_ignore_iccp_chunk({}): result `{}` differs from the decode of the file built without those chunks `{}`", text, icc, crate::util::shorten(&got, 400, 200), crate::util::shorten(&want, 400, 200)), case);
            }
            if file.len() < 40_000 && (text || icc) {
                jobs.push((name, file.clone(), opts));
            }
        }
    }
    // the low-level decoder with the options installed through ITS setters vs the framing model under the same options
    let lines: Vec<String> = jobs.iter().map(|j| format!("frm run {} max {} -", opts_string(&j.2), hex(&j.1))).collect();
    let answers = model::ask(&lines);
    for (k, (name, file, opts)) in jobs.iter().enumerate() {
        ctx.rep.model_compared += 1;
        let m = answers[k].rsplitn(2, " | ").last().unwrap_or("");
        let s = run_streaming_route(file, &[], opts, true);
        if model::outside_domain(&answers[k]) {
            ctx.rep.model_gaps += 1;
        } else if !same_modulo_error_detail(m, &s) {
            ctx.rep.violation("model", "framing-info/public-switches", &format!("{}: framing model `{}` vs StreamingDecoder (options through its setters) `{}`", name, &crate::util::shorten(m, 600, 0), &crate::util::shorten(&s, 600, 0)),
                J::obj().set("class", J::s("public-switches-model")).set("file", J::s(&hex(file))).set("opts", J::s(&opts_string(opts))));
        }
    }
}

pub fn run(ctx: &mut Ctx) {
    ctx.rep.rule = "reference-built stills x ancillary chunk kind (gAMA,cHRM,sRGB,pHYs,sBIT,bKGD,tRNS,cICP,mDCV,cLLI,eXIf,iCCP,tEXt,zTXt,iTXt,private) x field values (0,1,2^31,2^32-1,random; all enum members) \
        x position (before PLTE, between PLTE and IDAT, between IDATs is C10, after IDAT) x duplicate (first must win) x malformed payload (every truncation 0..len-1 and extensions +1..+3 of fixed-size kinds) \
        x bodies of 32 KiB +-2, 64 KiB, 300 KiB; each file decoded with and without the chunk through Reader (read_info, frames, finish) and through StreamingDecoder vs the Lean framing model; \
        non-trivial: all (each carries a chunk under test); distinct = hash of file; plus chunks malformed by value (cICP matrix / range flag, iCCP name / method / profile, tRNS after IDAT of an indexed image); \
        plus the public switches Decoder::set_ignore_text_chunk / set_ignore_iccp_chunk vs the same file built without those chunks (and StreamingDecoder setters vs the framing model)".into();
    let mut rng = ctx.rng.fork(1);
    let n = ctx.n(160, 600);
    let mut jobs: Vec<(String, Vec<u8>, Vec<u8>, Option<String>, Option<String>)> = vec![];
    for i in 0..n {
        let mut r = rng.fork(i as u64);
        let b = base_file(&mut r);
        let without = serialize(&b.chunks);
        for kind in KINDS.iter() {
            let (chunk, expect) = if *kind == "unknown" {
                let len = if r.chance(1, 6) { *r.pick(&[32766usize, 32768, 32770, 65536, 300_000]) } else { r.usize(0, 50) };
                let ty = *r.pick(&[*b"prVt", *b"prVT", *b"puBl", *b"zzZz"]);
                (RawChunk::new(&ty, r.bytes(len)), String::new())
            } else {
                match well_formed(kind, &mut r, b.color, b.depth, b.plte_entries) {
                    Some(x) => x,
                    None => continue,
                }
            };
            let is_text = matches!(*kind, "tEXt" | "zTXt" | "iTXt");
            // position 0: right after IHDR (before PLTE); 1: right before the first IDAT; 2: after the last IDAT
            for pos in 0..3 {
                if *kind == "tRNS" && b.color == 3 && pos == 0 {
                    continue; // before PLTE: an error class of its own (benign) - covered as malformed below
                }
                let at = match pos { 0 => 1, 1 => b.idat_at, _ => b.chunks.len() - 1 };
                let mut cs = b.chunks.clone();
                cs.insert(at, chunk.clone());
                // for indexed images bKGD refers to the palette and is only honoured after PLTE
                let honoured = if *kind == "unknown" || (*kind == "bKGD" && b.color == 3 && pos == 0) { false }
                    else if pos == 2 { !before_idat_only(kind) && *kind != "tRNS" || is_text || *kind == "eXIf" || *kind == "cLLI" }
                    else if pos == 1 && b.plte_at.is_some() { !before_plte_only(kind) }
                    else { true };
                // tRNS after IDAT for gray/RGB is accepted by the code (not in the benign-ignored set): leave unconstrained;
                // for an indexed image it is misplaced (outside PLTE..IDAT), a benign kind: must be ignored
                let unconstrained = *kind == "tRNS" && pos == 2 && b.color != 3;
                let class = format!("{}/{}", kind, ["after-ihdr", "before-idat", "after-idat"][pos]);
                if unconstrained {
                    continue;
                }
                if honoured {
                    jobs.push((class, serialize(&cs), without.clone(), Some(expect.clone()), None));
                } else {
                    jobs.push((format!("{}/ignored", class), serialize(&cs), without.clone(), None, Some(kind.to_string())));
                }
            }
            if *kind == "unknown" {
                continue;
            }
            // duplicate: the first accepted occurrence is kept (text kinds accumulate instead)
            if !is_text {
                if let Some((second, _)) = well_formed(kind, &mut r, b.color, b.depth, b.plte_entries) {
                    if second.data != chunk.data {
                        let mut cs = b.chunks.clone();
                        cs.insert(b.idat_at, second);
                        cs.insert(b.idat_at, chunk.clone());
                        let ok_here = !(b.plte_at.is_some() && before_plte_only(kind));
                        if ok_here {
                            jobs.push((format!("{}/duplicate-first-wins", kind), serialize(&cs), without.clone(), Some(expect.clone()), None));
                        }
                    }
                }
            }
            // malformed: truncations and extensions of fixed-size benign kinds must be ignored
            if matches!(*kind, "gAMA" | "cHRM" | "sRGB" | "pHYs" | "sBIT" | "cICP" | "mDCV" | "cLLI" | "bKGD") {
                let len = chunk.data.len();
                let mut variants: Vec<Vec<u8>> = (0..len).map(|k| chunk.data[..k].to_vec()).collect();
                // extensions are malformed only for the kinds that check for trailing bytes / exact length
                if matches!(*kind, "sBIT" | "cICP" | "mDCV" | "cLLI" | "bKGD") {
                    for extra in 1..=3 {
                        let mut d = chunk.data.clone();
                        d.extend(r.bytes(extra));
                        variants.push(d);
                    }
                }
                for d in variants {
                    let mut cs = b.chunks.clone();
                    cs.insert(if before_plte_only(kind) { 1 } else { b.idat_at }, RawChunk::new(&chunk.ty, d));
                    jobs.push((format!("{}/malformed-length", kind), serialize(&cs), without.clone(), None, Some(kind.to_string())));
                }
            }
            // malformed by VALUE (right length): cICP with matrix coefficients != 0 or a full-range flag other than 0 / 1
            if *kind == "cICP" {
                for which in 0..2 {
                    let mut d = chunk.data.clone();
                    if which == 0 { d[2] = r.range(1, 255) as u8; } else { d[3] = r.range(2, 255) as u8; }
                    let mut cs = b.chunks.clone();
                    cs.insert(1, RawChunk::new(b"cICP", d));
                    jobs.push((format!("cICP/malformed-{}", ["matrix-coefficients", "range-flag"][which]), serialize(&cs), without.clone(), None, Some(kind.to_string())));
                }
            }
            // malformed iCCP: empty profile name, a name of 80 bytes and more (no terminator within 80 bytes), a compression method
            // other than 0, a corrupt compressed profile: the chunk is ignored (no profile reported), the image is untouched
            if *kind == "iCCP" {
                let z = zlib_stream(&r.class_bytes(40), &Deflater::Level(6));
                let long: Vec<u8> = (0..r.usize(81, 90)).map(|_| r.range(32, 126) as u8).collect();
                let mut bodies: Vec<(&str, Vec<u8>)> = vec![];
                bodies.push(("empty-name", [&[0u8, 0][..], &z[..]].concat()));
                bodies.push(("name-too-long", [&long[..], &[0u8, 0][..], &z[..]].concat()));
                // the specification allows 1..79 bytes: a name of exactly 80 bytes is the shortest one that is too long
                bodies.push(("name-of-80-bytes", [&long[..80], &[0u8, 0][..], &z[..]].concat()));
                bodies.push(("compression-method", [&b"name"[..], &[0u8, r.range(1, 255) as u8][..], &z[..]].concat()));
                bodies.push(("corrupt-profile", [&b"name"[..], &[0u8, 0][..], &z[..z.len() / 2]].concat()));
                bodies.push(("no-terminator", b"name".to_vec()));
                for (what, d) in bodies {
                    let mut cs = b.chunks.clone();
                    cs.insert(b.idat_at, RawChunk::new(b"iCCP", d));
                    jobs.push((format!("iCCP/malformed-{}", what), serialize(&cs), without.clone(), None, Some(kind.to_string())));
                }
            }
        }
    }
    let lines: Vec<String> = jobs.iter().map(|j| format!("frm run {} max {} -", opts_string(&DEFAULT_OPTS), hex(&j.1))).collect();
    let answers = model::ask(&lines);
    for (k, (class, file, without, expect, absent)) in jobs.iter().enumerate() {
        judge(ctx, class, file, without, expect.as_deref(), absent.as_deref(), &answers[k]);
        if k < 3 {
            ctx.rep.sample(J::obj().set("class", J::s(class)).set("file_bytes", J::i(file.len() as u64)).set("expect", J::s(expect.as_deref().unwrap_or("(ignored)"))));
        }
    }
    let mut r = rng.fork(0x16_5e7);
    ignore_switches_part(ctx, &mut r);
    srgb_override_part(ctx, &mut r);
}

pub fn replay(ctx: &mut Ctx, case: &J) {
    let file = case.get("file").and_then(|f| f.as_str()).and_then(unhex).unwrap_or_default();
    let without = case.get("without").and_then(|f| f.as_str()).and_then(unhex).unwrap_or_default();
    let class = case.get("class").and_then(|f| f.as_str()).unwrap_or("replay").to_string();
    if class.starts_with("public-switches") {
        let mut opts = DEFAULT_OPTS;
        for (i, ch) in case.get("opts").and_then(|f| f.as_str()).unwrap_or("10001").chars().enumerate().take(5) {
            opts[i] = ch == '1';
        }
        ctx.rep.eval(true, fnv64(&file));
        if class == "public-switches" {
            let got = crate::props::c04::run_reader_route(&file, &[], &opts, png::Transformations::IDENTITY, true);
            let want = run_reader(&without, &[], &DEFAULT_OPTS, png::Transformations::IDENTITY);
            println!("through the setters: {}\nwithout the chunks:  {}", got, want);
            if got != want {
                ctx.rep.violation("oracle", "not-ignored/public-switches/replay", "the decode through the public switches differs from the decode of the file without the chunks", case.clone());
            }
        } else {
            let ans = model::ask_one(&[format!("frm run {} max {} -", opts_string(&opts), hex(&file))]);
            let m = ans[0].rsplitn(2, " | ").last().unwrap_or("").to_string();
            let s = crate::props::c04::run_streaming_route(&file, &[], &opts, true);
            if !same_modulo_error_detail(&m, &s) {
                ctx.rep.violation("model", "framing-info/public-switches", &format!("framing model `{}` vs StreamingDecoder `{}`", m, s), case.clone());
            }
        }
        return;
    }
    let expect = case.get("expect").and_then(|f| f.as_str()).filter(|s| !s.is_empty()).map(|s| s.to_string());
    let absent = case.get("absent").and_then(|f| f.as_str()).filter(|s| !s.is_empty()).map(|s| s.to_string());
    let ans = model::ask_one(&[format!("frm run {} max {} -", opts_string(&DEFAULT_OPTS), hex(&file))]);
    judge(ctx, &class, &file, &without, expect.as_deref(), absent.as_deref(), &ans[0]);
}
