//! C06, Reader side — the image-data path buffers (`ZlibStream::out_buffer`, `UnfilteringBuffer::data_stream`,
//! discard vectors, scratch row) against the Lean model `Model/DataPath.lean` and the bound of
//! `Props/C06Reader.lean` (`C06_reader_buffers_bounded`).
//!
//! Part 1 ("pair"): the REAL `UnfilteringBuffer` and `ZlibStream` (hooks `png::verif_hooks::{UnfBuf, Zlib}`) are driven
//! with real zlib streams the way `Reader` drives them (`next_raw_interlaced_row`: fetch only while
//! `curr_row_len() < rowlen`; one `decompress` per `decode_image_data`; `finish_compressed_chunks` + `reset` when the
//! chunk sequence ends; `finish_decoding_image_data` into a fresh vector per call).  After every operation
//! `(data_stream.len, prev_start, current_start)` and `(out_buffer.len, out_pos, read_pos)` are compared with the
//! model (fed with the observed per-call output counts: driver line `c06dp …`) and, independently, with the
//! theorem's bound.
//! Part 2 ("ledger"): the real `Reader` on generated APNGs under small `Limits`: `scratch_buffer.capacity()` (hook
//! `verif_counters`) after every public call against the model's `scratchLen` through std's growth policy
//! (`vecGrow`), and against what was charged to `Limits` (oracle).
#![allow(dead_code)]
use crate::json::J;
use crate::report::Ctx;

/// `2·(LOOKBACK_SIZE·4 + CHUNK_BUFFER_SIZE)` — `Png.C06.W` (`W_value`)
pub const W: usize = 327_680;

#[cfg(not(png_verif))]
pub fn run(ctx: &mut Ctx) {
    ctx.rep.notes.push("c06_datapath: hooks not compiled in (--cfg png_verif), skipped".into());
}
#[cfg(not(png_verif))]
pub fn replay(_ctx: &mut Ctx, _case: &J) -> bool {
    false
}

#[cfg(png_verif)]
pub use imp::{replay, run};

#[cfg(png_verif)]
mod imp {
    use super::W;
    use crate::json::J;
    use crate::model;
    use crate::refpng::*;
    use crate::report::Ctx;
    use crate::rng::{fnv64, Rng};
    use crate::util::{guarded, hex, shorten};
    use png::verif_hooks::{UnfBuf, Zlib};

    struct Pass {
        r: usize,
        /// (one filtered row, how many times)
        groups: Vec<(Vec<u8>, usize)>,
    }

    struct Frame {
        rowlen: usize,
        out_line: usize,
        bpp: usize,
        passes: Vec<Pass>,
        /// zero bytes after the image's rows (more data than the header promises)
        extra: usize,
        /// rows the caller asks for before it moves on
        read_rows: usize,
        via_scratch: bool,
        z: Vec<u8>,
        spec: String,
        stream: Vec<u8>,
    }

    fn build_frame(rng: &mut Rng, class: u8, corrupt: bool) -> Frame {
        let bpp = *rng.pick(&[1usize, 2, 3, 4, 6, 8]);
        let n = match class {
            0 => rng.usize(1, 40),
            1 => rng.usize(100, 1500),
            _ => rng.usize(4000, 9000),
        };
        let rowlen = 1 + bpp * n;
        let budget = match class {
            0 => rng.usize(rowlen, 6000.max(rowlen * 3)),
            1 => rng.usize(rowlen * 2, 400_000),
            _ => rng.usize(rowlen * 4, 1_400_000),
        };
        let npasses = if rng.chance(1, 3) { rng.usize(2, 7) } else { 1 };
        let mut passes = vec![];
        let mut total = 0usize;
        let mut segs: Vec<String> = vec![];
        let mut stream: Vec<u8> = vec![];
        for p in 0..npasses {
            let r = if npasses == 1 || p + 1 == npasses { rowlen } else { 1 + bpp * rng.usize(1, n) };
            let share = budget / npasses;
            let rows = (share / r).clamp(1, if class == 0 { 400 } else { 150 });
            let ngroups = rng.usize(1, 3).min(rows);
            let mut groups = vec![];
            let mut left = rows;
            for g in 0..ngroups {
                let cnt = if g + 1 == ngroups { left } else { rng.usize(1, left - (ngroups - g - 1)) };
                left -= cnt;
                // (the executable model's Sub/Avg/Paeth are quadratic in the row length: long rows use None/Up only;
                // sizes do not depend on the filter type)
                let ft = if corrupt && rng.chance(1, 6) { rng.range(5, 255) as u8 } else if r > 400 { *rng.pick(&[0u8, 2]) } else { rng.below(5) as u8 };
                let mut row = vec![ft];
                // compressible but not trivial: a short random motif repeated
                let mlen = rng.usize(1, 24);
                let motif = rng.bytes(mlen);
                row.extend((0..r - 1).map(|i| motif[i % motif.len()]));
                segs.push(format!("{}*{}", hex(&row), cnt));
                for _ in 0..cnt {
                    stream.extend_from_slice(&row);
                }
                total += cnt;
                groups.push((row, cnt));
            }
            passes.push(Pass { r, groups });
        }
        // truncated data (fewer bytes than the rows need) or a tail the header does not promise
        let mut extra = 0usize;
        match rng.below(6) {
            0 if stream.len() <= 60_000 => {
                let cut = rng.usize(0, stream.len().min(2 * rowlen));
                let keep = stream.len() - cut;
                stream.truncate(keep);
                segs = vec![hex_spec(&stream)];
            }
            1 | 2 => {
                extra = match class {
                    0 => rng.usize(1, 5000),
                    1 => rng.usize(1, 300_000),
                    _ => rng.usize(100_000, 1_200_000),
                };
                segs.push(format!("00*{}", extra));
                stream.extend(std::iter::repeat(0u8).take(extra));
            }
            _ => {}
        }
        let defl = match rng.below(8) {
            0 => Deflater::Stored(*rng.pick(&[1usize, 100, 4096, 65535])),
            1 => Deflater::Fdeflate,
            2 => Deflater::FixedDist(rng.usize(1, 300)),
            _ => Deflater::Level(rng.range(1, 9) as u32),
        };
        // `Stored(1)` of a megabyte is 5 MB of input and a million calls: keep stored blocks for small streams
        let defl = if stream.len() > 50_000 { match defl { Deflater::Stored(_) => Deflater::Stored(65535), d => d } } else { defl };
        let z = zlib_stream(&stream, &defl);
        let read_rows = match rng.below(4) {
            0 => rng.usize(0, total),
            _ => total + 1,
        };
        let out_line = match rng.below(4) {
            0 => (rowlen - 1) / 2,   // 16-bit samples stripped to 8
            1 => (rowlen - 1) * 2,   // expansion
            _ => rowlen - 1,
        };
        Frame { rowlen, out_line, bpp, passes, extra, read_rows, via_scratch: rng.bool(), z, spec: segs.join("+"), stream }
    }

    /// run-length description of a byte string for the driver (`<hex>*<count>` segments)
    fn hex_spec(b: &[u8]) -> String {
        if b.is_empty() { "-".into() } else { hex(b) }
    }

    struct Sim {
        zs: Zlib,
        ub: UnfBuf,
        scratch: usize,
        limit: usize,
        /// some frame start was refused by `Limits` (and, on the repaired tree, not installed)
        limit_hit: bool,
        flushed: bool,
        ops: Vec<String>,
        obs: Vec<String>,
        flush_high: usize,
        tmp_high: usize,
        z_high: usize,
        deliver_high: usize,
        ub_peak_pct: usize,
        /// first violated inequality of the theorem, if any
        oracle: Option<String>,
        rowlen: usize,
        dead: bool,
    }

    impl Sim {
        fn record(&mut self, op: String) {
            let z = self.zs.observe();
            self.record_z(op, z);
        }

        /// record with the `ZlibStream` observation taken earlier (the compaction of `as_mut_vec` happens before the
        /// call into the decoder; when that call then fails, the model needs the two steps separately)
        fn record_z(&mut self, op: String, z: (usize, usize, usize, usize)) {
            let (d, p, c) = self.ub.observe();
            let (len, out_pos, read_pos, _) = z;
            self.ops.push(op);
            self.obs.push(format!("{}:{}:{}/{}:{}:{}/{}/{}/{}{}", d.len(), p, c, len, out_pos, read_pos, self.scratch, self.limit,
                if self.flushed { "f" } else { "-" }, if self.limit_hit { "u" } else { "-" }));
            self.z_high = self.z_high.max(len);
            let m = W.max(self.flush_high);
            let bound = 2 * self.rowlen + m;
            self.ub_peak_pct = self.ub_peak_pct.max((d.len() + 2) * 100 / bound);
            if self.oracle.is_none() {
                let i = self.ops.len() - 1;
                if d.len() + 2 > bound {
                    self.oracle = Some(format!("data_stream.len() = {} > 2*{} - 2 + max(W, {}) after op {} ({})", d.len(), self.rowlen, self.flush_high, i, self.ops[i]));
                } else if len > W {
                    self.oracle = Some(format!("out_buffer.len() = {} > W = {} after op {}", len, W, i));
                } else if self.tmp_high > m {
                    self.oracle = Some(format!("a discard vector reached {} > max(W, {}) bytes (op {})", self.tmp_high, self.flush_high, i));
                } else if !(p <= c && c <= d.len()) || read_pos != out_pos || out_pos > 131072 || out_pos > len && len > 0 {
                    self.oracle = Some(format!("index invariants broken after op {}: ub ({}, {}, {}), zlib ({}, {}, {})", i, d.len(), p, c, len, out_pos, read_pos));
                }
            }
        }
    }

    enum Call {
        Nothing,
        Data(usize),
        Flushed(usize),
        /// `decompress` returned an error (only `prepare_vec_for_appending` has happened)
        Failed,
        /// `finish_compressed_chunks` returned an error (possibly after some iterations)
        FailedFlush,
        Stalled,
        /// the (corrupted) stream inflated to something else than the original: sizes no longer comparable
        Diverged,
    }

    /// one `decode_image_data(dest)`: one `decompress` on the next piece of the chunk data, or — when the chunk
    /// sequence has ended — `finish_compressed_chunks` + `reset`
    fn decode_image_data(s: &mut Sim, z: &[u8], pos: &mut usize, chunk: usize, dest: &mut Vec<u8>, want: &[u8], out: &mut usize) -> Call {
        let r = decode_image_data_raw(s, z, pos, chunk, dest);
        match r {
            Call::Data(k) | Call::Flushed(k) => {
                if *out + k > want.len() || dest[dest.len() - k..] != want[*out..*out + k] { return Call::Diverged; }
                *out += k;
                r
            }
            r => r,
        }
    }

    fn decode_image_data_raw(s: &mut Sim, z: &[u8], pos: &mut usize, chunk: usize, dest: &mut Vec<u8>) -> Call {
        let before_len = dest.len();
        if *pos < z.len() {
            let n = chunk.min(z.len() - *pos);
            let st0 = s.zs.observe();
            let r = guarded(|| s.zs.decompress(&z[*pos..*pos + n], dest));
            match r {
                Ok(Ok(c)) => {
                    *pos += c.min(n);
                    let got = dest.len() - before_len;
                    if got == 0 && s.zs.observe() == st0 {
                        if c == 0 { Call::Stalled } else { Call::Nothing }
                    } else {
                        Call::Data(got)
                    }
                }
                _ => Call::Failed,
            }
        } else {
            let r = guarded(|| s.zs.finish_compressed_chunks(dest));
            match r {
                Ok(Ok(())) => {
                    s.zs.reset();
                    Call::Flushed(dest.len() - before_len)
                }
                _ => Call::FailedFlush,
            }
        }
    }

    struct Outcome {
        line: String,
        obs: Vec<String>,
        sim: Sim,
        note: &'static str,
    }

    fn simulate(rng: &mut Rng, class: u8) -> Outcome {
        let corrupt_filter = rng.chance(1, 12);
        let corrupt_stream = rng.chance(1, 15);
        let nframes = if class == 2 { 1 } else { rng.usize(1, 3) };
        let mut frames: Vec<Frame> = (0..nframes).map(|_| build_frame(rng, class, corrupt_filter)).collect();
        if corrupt_stream {
            let f = rng.usize(0, nframes - 1);
            if frames[f].z.len() > 8 {
                let at = rng.usize(2, frames[f].z.len() - 1);
                frames[f].z[at] ^= 1 << rng.below(8);
            }
        }
        let junk = if rng.chance(1, 8) { rng.usize(1, 2000) } else { 0 };
        let l0 = frames[0].out_line + match rng.below(3) {
            0 => 0,
            1 => rng.usize(0, frames.iter().map(|f| f.out_line).sum::<usize>()),
            _ => 1 << 26,
        };
        let chunk = *rng.pick(&[7usize, 300, 8192, 100_000, usize::MAX]);
        let chunk = if class > 0 && chunk < 8192 { 8192 } else { chunk };
        let mut s = Sim {
            zs: Zlib::new(), ub: UnfBuf::new(), scratch: 0, limit: l0 - frames[0].out_line, limit_hit: false, flushed: false,
            ops: vec![], obs: vec![], flush_high: 0, tmp_high: 0, z_high: 0, deliver_high: 0, ub_peak_pct: 0, oracle: None,
            rowlen: frames[0].rowlen, dead: false,
        };
        let mut note = "complete";
        // `set_max_total_output` from the IHDR parser: right, doubled (interlaced), or wrong (malformed header)
        match rng.below(4) {
            0 => {}
            k => {
                let exact = frames[0].stream.len() - frames[0].extra;
                let m = match k { 1 => exact, 2 => exact * 2, _ => rng.usize(1, exact.max(2)) };
                s.zs.set_max_total_output(m);
                s.record(format!("m{}", m));
            }
        }
        let finish_early = rng.chance(1, 10);
        let mut finished = false;
        // output line of the frame that is installed (and paid for)
        let mut cur_line = frames[0].out_line;
        'frames: for (fi, f) in frames.iter().enumerate() {
            let mut z = f.z.clone();
            z.extend(rng.bytes(junk));
            let mut pos = 0usize;
            let mut out = 0usize;
            // the decoder has flushed this chunk sequence (`ImageDataFlushed`)
            let mut seq_done = false;
            if !finished {
                let mut installed = true;
                if fi > 0 {
                    // `Reader::read_until_image_data`: reserve FIRST, install the frame only on success
                    if f.out_line <= s.limit {
                        s.limit -= f.out_line;
                        s.ub = UnfBuf::new();
                        s.flushed = false;
                        s.rowlen = f.rowlen;
                        cur_line = f.out_line;
                        s.record(format!("N{}:{}:{}", f.rowlen, f.out_line, f.bpp));
                    } else {
                        // refused: the old frame stays (no rows, no frames left); the call returns LimitsExceeded
                        installed = false;
                        s.limit_hit = true;
                        s.record(format!("N{}:{}:{}", f.rowlen, f.out_line, f.bpp));
                        if rng.bool() {
                            // a row call answers Ok(None) after sizing the scratch row by the OLD, paid-for frame
                            s.scratch = cur_line;
                            s.record("s".into());
                        }
                        if rng.bool() {
                            // `finish()`: the rest (the refused frame's data included) is read and discarded
                            s.ub = UnfBuf::new();
                            finished = true;
                            s.record("e".into());
                        } else {
                            note = "frame-refused";
                            break 'frames;
                        }
                    }
                }
                let mut rows_done = 0usize;
                'passes: for p in &f.passes {
                    if !installed { break; }
                    let nrows: usize = p.groups.iter().map(|g| g.1).sum();
                    for line in 0..nrows {
                        if rows_done >= f.read_rows || (finish_early && rows_done >= 1) { break 'passes; }
                        if f.via_scratch {
                            s.scratch = f.out_line;
                            s.record("s".into());
                        }
                        if line == 0 {
                            s.ub.reset_prev_row();
                            s.record(format!("w{}", p.r));
                        }
                        let mut stalls = 0;
                        while s.ub.curr_row_len() < p.r {
                            if s.flushed { note = "NoMoreImageData"; break 'passes; }
                            let mut tmp = vec![];
                            let z_before = s.zs.observe();
                            match decode_image_data(&mut s, &z, &mut pos, chunk, &mut tmp, &f.stream, &mut out) {
                                Call::Nothing => { s.ub.append(&[]); s.record("n".into()); }
                                Call::Data(k) => { s.deliver_high = s.deliver_high.max(k); s.ub.append(&tmp); s.record(format!("p{}", k)); }
                                Call::Flushed(t) => { s.flush_high = s.flush_high.max(t); s.flushed = true; seq_done = true; s.ub.append(&tmp); s.record(format!("F{}", t)); }
                                Call::Failed => { s.ub.append(&[]); s.record_z("n".into(), z_before); s.record("z".into()); note = "inflater-error"; s.dead = true; break 'frames; }
                                Call::FailedFlush => { note = "inflater-error"; s.dead = true; break 'frames; }
                                Call::Diverged => { note = "corrupted-data-diverged"; s.dead = true; break 'frames; }
                                Call::Stalled => { stalls += 1; if stalls > 3 { note = "stalled"; s.dead = true; break 'frames; } s.ub.append(&[]); s.record("n".into()); }
                            }
                            if s.ops.len() > 5000 { note = "op-cap"; s.dead = true; break 'frames; }
                        }
                        match guarded(|| s.ub.unfilter_curr_row(p.r, f.bpp as u8)) {
                            Ok(Ok(())) => { s.record("r".into()); rows_done += 1; }
                            Ok(Err(_)) => { s.record("r".into()); note = "UnknownFilterMethod"; break 'passes; }
                            Err(_) => { note = "unfilter-panic"; s.oracle.get_or_insert("unfilter_curr_row panicked under the Reader's discipline".into()); s.dead = true; break 'frames; }
                        }
                    }
                }
                if finish_early && installed {
                    // `Reader::finish`: everything up to IEND is read and discarded, no further frame is started
                    s.ub = UnfBuf::new();
                    s.flushed = true;
                    finished = true;
                    s.record("e".into());
                }
            }
            // `finish_decoding_image_data` / `read_until_end_of_input`: skip what is left of this chunk sequence
            let mut stalls = 0;
            while !seq_done {
                let mut tmp = vec![];
                match decode_image_data(&mut s, &z, &mut pos, chunk, &mut tmp, &f.stream, &mut out) {
                    Call::Nothing => {}
                    Call::Data(k) => { s.deliver_high = s.deliver_high.max(k); s.tmp_high = s.tmp_high.max(tmp.len()); s.record(format!("k{}", k)); }
                    Call::Flushed(t) => { s.flush_high = s.flush_high.max(t); s.tmp_high = s.tmp_high.max(tmp.len()); s.flushed = true; seq_done = true; s.record(format!("G{}", t)); }
                    Call::Failed => { s.record("z".into()); note = "inflater-error"; s.dead = true; break 'frames; }
                    Call::FailedFlush => { note = "inflater-error"; s.dead = true; break 'frames; }
                    Call::Diverged => { note = "corrupted-data-diverged"; s.dead = true; break 'frames; }
                    Call::Stalled => { stalls += 1; if stalls > 3 { note = "stalled"; s.dead = true; break 'frames; } }
                }
                if s.ops.len() > 5000 { note = "op-cap"; s.dead = true; break 'frames; }
            }
        }
        let streams: Vec<String> = frames.iter().map(|f| if f.spec.is_empty() { "-".to_string() } else { f.spec.clone() }).collect();
        let line = format!("c06dp {} {}:{}:{} {} {}", l0, frames[0].rowlen, frames[0].out_line, frames[0].bpp, streams.join(";"),
            if s.ops.is_empty() { "-".to_string() } else { s.ops.join(",") });
        let obs = s.obs.clone();
        Outcome { line, obs, sim: s, note }
    }

    fn bucket(n: usize) -> &'static str {
        match n {
            0 => "0",
            1..=255 => "1-255",
            256..=8191 => "256-8191",
            8192..=32767 => "8 KiB-32 KiB",
            32768..=131071 => "32-128 KiB",
            131072..=262143 => "128-256 KiB",
            262144..=327680 => "256-320 KiB",
            _ => "> W",
        }
    }

    /// like `model::ask`, but parallel for short batches too (a line here can take seconds)
    fn ask_par(lines: &[String]) -> Vec<String> {
        let jobs = std::thread::available_parallelism().map(|n| n.get()).unwrap_or(4).min(16);
        if lines.len() < 2 || jobs == 1 {
            return model::ask_one(lines);
        }
        let chunk = (lines.len() + jobs - 1) / jobs;
        let mut out: Vec<Vec<String>> = Vec::new();
        std::thread::scope(|s| {
            let hs: Vec<_> = lines.chunks(chunk).map(|c| s.spawn(move || model::ask_one(c))).collect();
            for h in hs {
                out.push(h.join().expect("model thread"));
            }
        });
        out.into_iter().flatten().collect()
    }

    fn pair_sim(state: u64, class: u8) -> Outcome {
        let mut rng = Rng(state);
        simulate(&mut rng, class)
    }

    fn pair_judge(ctx: &mut Ctx, state: u64, class: u8, quiet: bool, o: &Outcome, answer: &str) {
        ctx.rep.eval(o.obs.len() > 2, fnv64(o.line.as_bytes()));
        if !quiet {
            ctx.rep.count("datapath: size class", &class.to_string());
            ctx.rep.count("datapath: run ended", o.note);
            ctx.rep.count("datapath: largest single decompress delivery", bucket(o.sim.deliver_high));
            ctx.rep.count("datapath: largest finish_compressed_chunks output (F)", bucket(o.sim.flush_high));
            ctx.rep.count("datapath: largest out_buffer.len()", bucket(o.sim.z_high));
            ctx.rep.count("datapath: peak data_stream.len() as % of bound", match o.sim.ub_peak_pct { 0..=9 => "<10", 10..=49 => "10-49", 50..=89 => "50-89", 90..=100 => "90-100", _ => ">100" });
        }
        let case = || J::obj().set("kind", J::s("dp-pair")).set("rng_state", J::s(&state.to_string())).set("class", J::i(class as u64)).set("line", J::s(&shorten(&o.line, 4000, 200)));
        if o.note == "stalled" || o.note == "unfilter-panic" {
            ctx.rep.violation("oracle", &format!("datapath/{}", o.note), &format!("the component pair {} under the Reader's discipline", o.note), case());
        }
        if let Some(w) = &o.sim.oracle {
            ctx.rep.violation("oracle", "datapath/over-bound", w, case());
        }
        ctx.rep.model_compared += 1;
        if model::outside_domain(answer) {
            ctx.rep.count("datapath: model", "outside-domain");
            return;
        }
        let toks: Vec<&str> = answer.split(' ').collect();
        let n = o.obs.len();
        // state tokens `ub/zlib/..`: equal, or equal except that the implementation's zlib output buffer is SHORTER than the model's
        // while still holding the write position (a gentler growth policy uses less memory than the bound the theorems give; a
        // longer buffer than the model's is a disagreement)
        let state_ok = |m: &str, i: &str| -> bool {
            if m == i { return true; }
            let (mp, ip): (Vec<&str>, Vec<&str>) = (m.split('/').collect(), i.split('/').collect());
            if mp.len() != ip.len() || mp.len() < 2 { return false; }
            for (k, (a, b)) in mp.iter().zip(&ip).enumerate() {
                if a == b { continue; }
                if k != 1 { return false; }
                let (mv, iv): (Vec<u64>, Vec<u64>) = (a.split(':').filter_map(|x| x.parse().ok()).collect(), b.split(':').filter_map(|x| x.parse().ok()).collect());
                if !(mv.len() == 3 && iv.len() == 3 && mv[1] == iv[1] && mv[2] == iv[2] && iv[0] <= mv[0] && iv[0] >= iv[1]) { return false; }
            }
            true
        };
        let ok_states = toks.len() == n + 2 && toks[..n].iter().zip(&o.obs).all(|(a, b)| state_ok(a, b));
        if ok_states && !toks[..n].iter().zip(&o.obs).all(|(a, b)| a == b) {
            ctx.rep.count("datapath: model", "equal positions, zlib output buffer shorter than the model's");
        }
        if !ok_states {
            let at = toks.iter().zip(&o.obs).position(|(a, b)| !state_ok(a, b)).unwrap_or(toks.len().min(n));
            ctx.rep.violation("model", "datapath/state", &format!("after op {} ({}): implementation {} model {} ({} ops; ub = data_stream.len:prev_start:current_start, zlib = out_buffer.len:out_pos:read_pos)",
                at, o.sim.ops.get(at).cloned().unwrap_or_default(), o.obs.get(at).cloned().unwrap_or_default(), toks.get(at).unwrap_or(&"?"), n), case());
            return;
        }
        let hw = format!("hw:{}:{}:{}", toks[n].split(':').nth(1).unwrap_or("?"), o.sim.tmp_high, o.sim.flush_high);
        // the model's zHigh may exceed what is visible between calls (inside the finish loop); tmpHigh and flushHigh must agree
        if toks[n] != hw {
            ctx.rep.violation("model", "datapath/high-water", &format!("high-water marks: implementation {} model {}", hw, toks[n]), case());
        }
        if toks[n + 1] != "bound:ok" {
            ctx.rep.violation("model", "datapath/model-bound", &format!("the model's own state violates the theorem's conclusion: {}", toks[n + 1]), case());
        }
        if !quiet && ctx.rep.samples.len() < 3 {
            ctx.rep.sample(J::obj().set("kind", J::s("dp-pair")).set("ops", J::i(n as u64)).set("line", J::s(&shorten(&o.line, 300, 60))).set("last_state", J::s(o.obs.last().map(|s| s.as_str()).unwrap_or("-"))));
        }
    }

    /// std's `RawVec::grow_amortized` (`vecGrow` in `Proofs/DataPath.lean`)
    fn vec_grow(cap: usize, need: usize) -> usize {
        if need <= cap { cap } else { (2 * cap).max(need).max(8) }
    }

    /// Part 2: the real `Reader` on an APNG whose frames have different widths, under a budget that some frame start
    /// may exceed.  The caller goes on after `LimitsExceeded` (the `Reader` stays usable).
    fn ledger_case(ctx: &mut Ctx, state: u64, quiet: bool) {
        let mut rng = Rng(state);
        let (color, depth, px) = *rng.pick(&[(6u8, 8u8, 4usize), (2, 8, 3), (0, 8, 1), (6, 16, 8), (0, 16, 2)]);
        let w = rng.usize(8, 3000) as u32;
        let h = rng.usize(1, 3) as u32;
        let nframes = rng.usize(2, 4);
        let strip16 = depth == 16 && rng.bool();
        let out_px = if strip16 { px / 2 } else { px };
        let widths: Vec<u32> = (0..nframes).map(|i| if i == 0 && rng.bool() { w } else { rng.usize(1, w as usize) as u32 }).collect();
        let lines: Vec<usize> = widths.iter().map(|&fw| fw as usize * out_px).collect();
        let total: usize = lines.iter().sum();
        let l0 = lines[0] + match rng.below(3) { 0 => rng.usize(0, total), 1 => rng.usize(0, lines[1.min(nframes - 1)]), _ => total };
        let mut cs = vec![ihdr(w, h, depth, color, 0), actl(nframes as u32, 0)];
        let mut seq = 0u32;
        for (k, &fw) in widths.iter().enumerate() {
            let fh = rng.usize(1, h as usize) as u32;
            cs.push(Fctl { seq, w: fw, h: fh, x: 0, y: 0, delay_num: 1, delay_den: 1, dispose: 0, blend: 0 }.chunk());
            seq += 1;
            let raw = vec![0u8; (fw as usize * px + 1) * fh as usize];
            let zd = zlib_stream(&raw, &Deflater::Level(6));
            if k == 0 {
                cs.push(RawChunk::new(b"IDAT", zd));
            } else {
                let mut d = seq.to_be_bytes().to_vec();
                seq += 1;
                d.extend(zd);
                cs.push(RawChunk::new(b"fdAT", d));
            }
        }
        cs.push(RawChunk::new(b"IEND", vec![]));
        let file = serialize(&cs);
        ctx.rep.eval(true, fnv64(&file) ^ l0 as u64);
        let mut ops: Vec<String> = vec![];
        let mut caps: Vec<usize> = vec![];
        let mut refused_then_row = None;
        let mut row_after_refusal = false;
        let mut charged = lines[0];
        let res = guarded(|| {
            let mut dec = png::Decoder::new_with_limits(std::io::Cursor::new(file.clone()), png::Limits { bytes: l0 });
            if strip16 { dec.set_transformations(png::Transformations::STRIP_16); }
            let mut r = match dec.read_info() { Ok(r) => r, Err(_) => return false };
            for k in 0..nframes {
                if k > 0 {
                    ops.push("gi".into());
                    caps.push(r.verif_counters().3);
                    let refused = match r.next_frame_info() {
                        Ok(_) => { charged += lines[k]; false }
                        Err(png::DecodingError::LimitsExceeded) => true,
                        Err(_) => return true,
                    };
                    ops.push(format!("N{}:{}:{}", widths[k] as usize * px + 1, lines[k], px.min(8)));
                    caps.push(r.verif_counters().3);
                    if refused && refused_then_row.is_none() { refused_then_row = Some(k); }
                }
                // rows through the Reader-owned scratch buffer until the frame is exhausted (or an error)
                for _ in 0..=h {
                    let got = matches!(r.next_row(), Ok(Some(_)));
                    ops.push("s".into());
                    caps.push(r.verif_counters().3);
                    if got && refused_then_row.is_some() { row_after_refusal = true; }
                    if !got { break; }
                }
            }
            true
        });
        if !quiet {
            ctx.rep.count("ledger: run", match (&res, refused_then_row) { (Err(_), _) => "panic", (Ok(false), _) => "read_info refused", (Ok(true), Some(_)) => "a later frame start refused", (Ok(true), None) => "all frames paid" });
        }
        let case = || J::obj().set("kind", J::s("dp-ledger")).set("rng_state", J::s(&state.to_string())).set("file", J::s(&hex(&file))).set("limit", J::i(l0 as u64));
        match res {
            Err(p) => { ctx.rep.violation("oracle", "ledger/panic", &format!("panic: {}", p), case()); return; }
            Ok(false) => {
                // cannot happen: the budget covers the first line and these files charge nothing else before IDAT
                ctx.rep.violation("oracle", "ledger/read-info-refused", &format!("read_info failed with Limits{{bytes: {}}} although the first output line needs {}", l0, lines[0]), case());
                return;
            }
            Ok(true) => {}
        }
        // oracle: after a refused frame start no row is delivered, and the scratch row is covered by what was charged
        // (capacity <= max(8, 2 * charged)); this is the defect repaired by 0a2b38f and must fire again if it returns
        let cap_max = caps.iter().copied().max().unwrap_or(0);
        if row_after_refusal || cap_max > (2 * charged).max(8) {
            ctx.rep.violation("oracle", "scratch-row-after-refused-frame", &format!("Limits{{bytes: {}}}: {} bytes charged for output lines; frame {} was refused with LimitsExceeded by next_frame_info; afterwards next_row delivered a row: {}; scratch_buffer.capacity() reached {} (Reader::read_until_image_data must reserve before it installs the subframe)",
                l0, charged, refused_then_row.map(|k| k.to_string()).unwrap_or("-".into()), row_after_refusal, cap_max), case());
        }
        // model: scratchLen after every op, through the growth policy, is the capacity
        let streams = vec!["-"; nframes].join(";");
        let line = format!("c06dp {} {}:{}:{} {} {}", l0, widths[0] as usize * px + 1, lines[0], px.min(8), streams, ops.join(","));
        let ans = model::ask_one(&[line.clone()]);
        ctx.rep.model_compared += 1;
        let toks: Vec<&str> = ans[0].split(' ').collect();
        let mut cap = 0usize;
        for (i, c) in caps.iter().enumerate() {
            let len: Option<usize> = toks.get(i).and_then(|t| t.split('/').nth(2)).and_then(|x| x.parse().ok());
            match len {
                Some(l) => cap = vec_grow(cap, l),
                None => { ctx.rep.violation("model", "ledger/model-run", &format!("model answered `{}` at op {} ({})", toks.get(i).unwrap_or(&"?"), i, ops[i]), case().set("line", J::s(&line))); return; }
            }
            if cap != *c {
                ctx.rep.violation("model", "ledger/scratch", &format!("after op {} ({}): scratch_buffer.capacity() = {}, model scratchLen through vecGrow = {}", i, ops[i], c, cap), case().set("line", J::s(&line)));
                return;
            }
        }
        let refused_model = toks.get(caps.len().saturating_sub(1)).map(|t| t.ends_with('u')).unwrap_or(false);
        if refused_model != refused_then_row.is_some() {
            ctx.rep.violation("model", "ledger/refusal", &format!("frame start refused: implementation {}, model {}", refused_then_row.is_some(), refused_model), case().set("line", J::s(&line)));
        }
    }

    pub fn run(ctx: &mut Ctx) {
        ctx.rep.rule.push_str(&format!(" || Reader-side data path (c06_datapath): (1) real UnfilteringBuffer + ZlibStream driven under the Reader's discipline on real zlib streams \
            (1-3 frames, 1-7 passes, row lengths 2..72001, streams up to 1.4 MB incl. tails beyond the image, truncated data, unknown filter bytes, corrupted streams, wrong max_total_output, \
            input pieces of 7 B..whole); after every operation (data_stream.len, prev_start, current_start, out_buffer.len, out_pos, read_pos) = model, and oracle: data_stream.len + 2 <= 2*rowlen + max(W, F), \
            out_buffer.len <= W = {}, discard vector <= max(W, F), F = largest finish_compressed_chunks output seen; (2) real Reader on APNGs under Limits a later frame may exceed: scratch_buffer.capacity() = vecGrow(model scratchLen), \
            oracle: after a refused frame start no row is delivered and capacity <= max(8, 2 * bytes charged for lines); non-trivial: more than 2 operations", W));
        let mut rng = ctx.rng.fork(0xC06D);
        let plan: [(u8, usize); 3] = [(0, ctx.n(120, 1500)), (1, ctx.n(30, 300)), (2, ctx.n(6, 60))];
        let (mut max_f, mut max_d, mut max_z) = (0usize, 0usize, 0usize);
        for (class, n) in plan {
            // simulate a batch on the real components, then ask the model for the whole batch (parallel driver processes)
            let mut left = n;
            while left > 0 {
                let b = left.min(256);
                left -= b;
                let states: Vec<u64> = (0..b).map(|_| rng.next()).collect();
                let outs: Vec<Outcome> = states.iter().map(|&st| pair_sim(st, class)).collect();
                let lines: Vec<String> = outs.iter().map(|o| o.line.clone()).collect();
                let answers = ask_par(&lines);
                for ((st, o), a) in states.iter().zip(&outs).zip(&answers) {
                    max_f = max_f.max(o.sim.flush_high);
                    max_d = max_d.max(o.sim.deliver_high);
                    max_z = max_z.max(o.sim.z_high);
                    pair_judge(ctx, *st, class, false, o, a);
                }
            }
        }
        ctx.rep.notes.push(format!("c06_datapath: largest finish_compressed_chunks output F = {} bytes, largest single decompress delivery = {} bytes, largest out_buffer.len() = {} bytes (theorem: W = {})", max_f, max_d, max_z, W));
        for _ in 0..ctx.n(150, 2000) {
            let state = rng.next();
            ledger_case(ctx, state, false);
        }
    }

    /// `true` if the case was one of this file's
    pub fn replay(ctx: &mut Ctx, case: &J) -> bool {
        let kind = case.get("kind").and_then(|k| k.as_str()).unwrap_or("");
        let state: u64 = case.get("rng_state").and_then(|s| s.as_str()).and_then(|s| s.parse().ok()).unwrap_or(0);
        match kind {
            "dp-pair" => {
                let class = case.get("class").and_then(|c| c.as_i64()).unwrap_or(0) as u8;
                let o = pair_sim(state, class);
                let a = model::ask_one(&[o.line.clone()]);
                pair_judge(ctx, state, class, true, &o, &a[0]);
                true
            }
            "dp-ledger" => { ledger_case(ctx, state, true); true }
            _ => false,
        }
    }
}
