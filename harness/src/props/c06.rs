//! C06 — decoder memory is bounded by the configured limit, not by what the file claims.
//!
//! Peak live heap bytes (counting global allocator) from `Decoder` construction to the end of decoding, minus
//! caller-owned buffers (allocated before the measured region), against the fixed linear bound
//! `SLOPE * L + CONST`, unless decoding fails with `LimitsExceeded`/another error first (then the peak until the
//! failure is what is measured).
use crate::alloc;
use crate::json::J;
use crate::refpng::*;
use crate::report::Ctx;
use crate::rng::{fnv64, Rng};
use crate::rops;
use crate::util::{guarded, hex, unhex};
use crate::watchdog;

/// the fixed linear function of L the measurements are held against (see DESIGN.md, C06: text chunks hold at most
/// ~29 bytes per charged byte; rows ~9 L; constant part: 32 KiB chunk buffer + <= 320 KiB inflate window + palette memo)
pub const SLOPE: usize = 40;
pub const CONST: usize = 1 << 20;

pub struct Measure {
    pub peak: usize,
    pub outcome: String,
}

/// path 0: next_frame (caller buffer pre-allocated), 1: next_row until the end, 2: read_info + finish only
pub fn measure(file: &[u8], limit: usize, flags: u8, path: u8, max_rows: usize) -> Result<Measure, String> {
    // learn the caller buffer size first (outside the measured region)
    let size = {
        let f = file.to_vec();
        guarded(move || {
            let mut d = png::Decoder::new_with_limits(std::io::Cursor::new(f), png::Limits { bytes: limit });
            d.set_transformations(rops::transformations(flags));
            d.read_info().map(|r| r.output_buffer_size()).unwrap_or(0)
        })
        .unwrap_or(0)
    };
    if path == 0 && size > (1 << 26) {
        return Ok(Measure { peak: 0, outcome: "skipped-caller-buffer-too-large".into() });
    }
    let mut caller_buf = if path == 0 { vec![0u8; size] } else { vec![] };
    let input = std::io::Cursor::new(file.to_vec());
    let base = alloc::begin();
    let r = guarded(move || -> String {
        let mut dec = png::Decoder::new_with_limits(input, png::Limits { bytes: limit });
        dec.set_transformations(rops::transformations(flags));
        let mut reader = match dec.read_info() {
            Ok(r) => r,
            Err(e) => return format!("read_info:{}", crate::canon::err_class(&e)),
        };
        let mut out = String::new();
        match path {
            0 => {
                for _ in 0..64 {
                    match reader.next_frame(&mut caller_buf) {
                        Ok(_) => out.push('F'),
                        Err(e) => {
                            out.push_str(&format!(" {}", crate::canon::err_class(&e)));
                            break;
                        }
                    }
                }
            }
            1 => {
                let mut rows = 0usize;
                'frames: for _ in 0..64 {
                    loop {
                        match reader.next_row() {
                            Ok(Some(_)) => {
                                rows += 1;
                                if rows >= max_rows {
                                    break 'frames;
                                }
                            }
                            Ok(None) => break,
                            Err(e) => {
                                out.push_str(&format!(" {}", crate::canon::err_class(&e)));
                                break 'frames;
                            }
                        }
                    }
                    if reader.next_frame_info().is_err() {
                        break;
                    }
                }
                out.push_str(&format!(" rows={}", rows.min(99)));
            }
            _ => {}
        }
        match reader.finish() {
            Ok(()) => out.push_str(" fin:ok"),
            Err(e) => out.push_str(&format!(" fin:{}", crate::canon::err_class(&e))),
        }
        out
    });
    let peak = alloc::peak_above(base);
    match r {
        Ok(outcome) => Ok(Measure { peak, outcome }),
        Err(p) => Err(p),
    }
}

struct Attack {
    name: &'static str,
    file: Vec<u8>,
}

fn text_chunk(rng: &mut Rng, ty: &[u8; 4], n: usize) -> RawChunk {
    let mut d = b"k".to_vec();
    d.push(0);
    if ty == b"zTXt" {
        d.push(0);
        d.extend(zlib_stream(&vec![b'a'; n], &Deflater::Level(9)));
    } else if ty == b"iTXt" {
        d.extend_from_slice(&[1, 0, 0, 0]);
        d.extend(zlib_stream(&vec![b'a'; n], &Deflater::Level(9)));
    } else {
        d.extend((0..n).map(|_| rng.range(32, 255) as u8));
    }
    RawChunk::new(ty, d)
}

fn attacks(rng: &mut Rng, thorough: bool) -> Vec<Attack> {
    let mut out = vec![];
    let small = Img::random(rng, 2, 8, 8, 8);
    let (raw, _) = scanlines(&small, false, &Filters::Uniform(0), rng);
    let z_small = zlib_stream(&raw, &Deflater::Level(6));
    let wrap = |mid: Vec<RawChunk>, post: Vec<RawChunk>| -> Vec<u8> {
        let mut cs = vec![ihdr(8, 8, 8, 2, 0)];
        cs.extend(mid);
        cs.push(RawChunk::new(b"IDAT", z_small.clone()));
        cs.extend(post);
        cs.push(RawChunk::new(b"IEND", vec![]));
        serialize(&cs)
    };
    // 1. deflate bombs: header claims what the stream delivers (so the decoder really has to stream it)
    for (w, h, lvl) in [(4096u32, 4096u32, 9u32), (16384, 1024, 9), (1024, 16384, 1)] {
        let raw = vec![0u8; (w as usize + 1) * h as usize];
        out.push(Attack { name: "bomb-matching-header", file: serialize(&[ihdr(w, h, 8, 0, 0), RawChunk::new(b"IDAT", zlib_stream(&raw, &Deflater::Level(lvl))), RawChunk::new(b"IEND", vec![])]) });
    }
    // bomb behind a tiny header: far more data than the image needs
    let raw = vec![0u8; 16 << 20];
    out.push(Attack { name: "bomb-behind-small-header", file: serialize(&[ihdr(8, 8, 8, 2, 0), RawChunk::new(b"IDAT", zlib_stream(&raw, &Deflater::Level(9))), RawChunk::new(b"IEND", vec![])]) });
    // 2. enormous declared dimensions with tiny data
    for (w, h, d, c) in [(0x7FFF_FFFFu32, 0x7FFF_FFFFu32, 16u8, 6u8), (1, 0x7FFF_FFFF, 8, 0), (0x7FFF_FFFF, 1, 1, 0), (1 << 20, 1 << 20, 8, 2), (60000, 60000, 16, 6)] {
        out.push(Attack { name: "huge-dimensions", file: serialize(&[ihdr(w, h, d, c, 0), RawChunk::new(b"IDAT", z_small.clone()), RawChunk::new(b"IEND", vec![])]) });
        out.push(Attack { name: "huge-dimensions-interlaced", file: serialize(&[ihdr(w, h, d, c, 1), RawChunk::new(b"IDAT", z_small.clone()), RawChunk::new(b"IEND", vec![])]) });
    }
    // 3. chunk length fields near 2^31 with short bodies (file simply ends)
    for ty in [*b"tEXt", *b"prVt", *b"eXIf", *b"iCCP", *b"PLTE", *b"IDAT"] {
        let mut f = serialize(&[ihdr(8, 8, 8, 2, 0)]);
        f.extend_from_slice(&0x7FFF_FFF0u32.to_be_bytes());
        f.extend_from_slice(&ty);
        f.extend(rng.bytes(5000));
        out.push(Attack { name: "huge-length-field", file: f });
    }
    // 4. floods of ancillary chunks
    let n = if thorough { 40000 } else { 12000 };
    for (name, ty, size) in [("flood-tEXt-small", *b"tEXt", 0usize), ("flood-tEXt-1k", *b"tEXt", 1000), ("flood-unknown", *b"prVt", 100), ("flood-eXIf", *b"eXIf", 500), ("flood-gAMA", *b"gAMA", 4), ("flood-iTXt", *b"iTXt", 2000), ("flood-zTXt", *b"zTXt", 2000)] {
        let count = if size >= 500 { n / 6 } else { n };
        let chunks: Vec<RawChunk> = (0..count).map(|_| match &ty { b"tEXt" | b"zTXt" | b"iTXt" => text_chunk(rng, &ty, size), b"gAMA" => RawChunk::new(&ty, vec![0, 1, 2, 3]), _ => RawChunk::new(&ty, rng.bytes(size)) }).collect();
        out.push(Attack { name, file: wrap(chunks.clone(), vec![]) });
        if matches!(&ty, b"tEXt" | b"iTXt" | b"prVt") {
            out.push(Attack { name: "flood-after-idat", file: wrap(vec![], chunks) });
        }
    }
    // 4b. iTXt floods with the bulk in each of the variable-length fields that are retained (language tag, translated keyword,
    //     uncompressed text): whatever is kept has to be paid for, not only the text field
    for (name, field) in [("flood-iTXt-language-tag", 0usize), ("flood-iTXt-translated-keyword", 1), ("flood-iTXt-plain-text", 2)] {
        let count = n / 6;
        let chunks: Vec<RawChunk> = (0..count)
            .map(|_| {
                let bulk: Vec<u8> = (0..2000).map(|_| rng.range(b'a' as u64, b'z' as u64) as u8).collect();
                let mut d = b"k\0\0\0".to_vec();
                if field == 0 { d.extend(&bulk); }
                d.push(0);
                if field == 1 { d.extend(&bulk); }
                d.push(0);
                if field == 2 { d.extend(&bulk); }
                RawChunk::new(b"iTXt", d)
            })
            .collect();
        out.push(Attack { name, file: wrap(chunks.clone(), vec![]) });
        out.push(Attack { name: "flood-after-idat", file: wrap(vec![], chunks) });
    }
    // 5. ancillary chunks larger than the chunk buffer under small limits
    for size in [40_000usize, 100_000, 1_000_000, 5_000_000] {
        for ty in [*b"prVt", *b"eXIf", *b"tEXt", *b"PLTE"] {
            let c = if &ty == b"tEXt" { text_chunk(rng, &ty, size) } else { RawChunk::new(&ty, rng.bytes(size)) };
            out.push(Attack { name: "big-ancillary", file: wrap(vec![c], vec![]) });
        }
    }
    // 6. expanding compressed metadata
    for exp in [1usize << 20, 32 << 20] {
        let mut d = b"icc\0\0".to_vec();
        d.extend(zlib_stream(&vec![7u8; exp], &Deflater::Level(9)));
        out.push(Attack { name: "iccp-bomb", file: wrap(vec![RawChunk::new(b"iCCP", d)], vec![]) });
        out.push(Attack { name: "ztxt-bomb", file: wrap(vec![text_chunk(rng, b"zTXt", exp)], vec![]) });
        out.push(Attack { name: "itxt-bomb", file: wrap(vec![text_chunk(rng, b"iTXt", exp)], vec![]) });
    }
    // 7. APNG: many frames; sub-frames much smaller than a huge canvas (the scratch-row defect D11)
    {
        let z1 = zlib_stream(&[0, 9, 9, 9], &Deflater::Stored(100));
        let mut cs = vec![ihdr(1 << 24, 1 << 6, 16, 6, 0), actl(400, 0)];
        let mut seq = 0u32;
        for k in 0..400u32 {
            cs.push(Fctl { seq, w: 1, h: 1, x: k, y: 0, delay_num: 1, delay_den: 1, dispose: 0, blend: 0 }.chunk());
            seq += 1;
            if k == 0 {
                cs.push(RawChunk::new(b"IDAT", zlib_stream(&[0, 1, 2, 3, 4, 5, 6, 7, 8], &Deflater::Stored(100))));
            } else {
                let mut d = seq.to_be_bytes().to_vec();
                seq += 1;
                d.extend(zlib_stream(&[0, 1, 2, 3, 4, 5, 6, 7, 8], &Deflater::Stored(100)));
                cs.push(RawChunk::new(b"fdAT", d));
            }
        }
        cs.push(RawChunk::new(b"IEND", vec![]));
        out.push(Attack { name: "apng-tiny-subframes-huge-canvas", file: serialize(&cs) });
        let _ = z1;
    }
    // 8. APNG: a narrow first frame, then frames as wide as a huge canvas (the row buffers of EVERY frame have to be
    //    charged, not only those of the first; seeded change C06_3)
    for (w, depth, color, bpp, later) in [(1u32 << 22, 8u8, 6u8, 4usize, 1usize), (1 << 21, 16, 6, 8, 2), (1 << 23, 8, 0, 1, 1), (1 << 22, 8, 3, 1, 1)] {
        let px = |n: usize| -> Vec<u8> { let mut r = vec![0u8]; r.extend(std::iter::repeat(0u8).take(n * bpp)); r };
        let mut cs = vec![ihdr(w, 1, depth, color, 0)];
        if color == 3 {
            cs.push(RawChunk::new(b"PLTE", vec![1, 2, 3, 4, 5, 6]));
        }
        cs.push(actl(1 + later as u32, 0));
        let mut seq = 0u32;
        cs.push(Fctl { seq, w: 1, h: 1, x: 0, y: 0, delay_num: 1, delay_den: 1, dispose: 0, blend: 0 }.chunk());
        seq += 1;
        cs.push(RawChunk::new(b"IDAT", zlib_stream(&px(1), &Deflater::Stored(100))));
        for _ in 0..later {
            cs.push(Fctl { seq, w, h: 1, x: 0, y: 0, delay_num: 1, delay_den: 1, dispose: 0, blend: 0 }.chunk());
            seq += 1;
            let mut d = seq.to_be_bytes().to_vec();
            seq += 1;
            d.extend(zlib_stream(&px(w as usize), &Deflater::Level(9)));
            cs.push(RawChunk::new(b"fdAT", d));
        }
        cs.push(RawChunk::new(b"IEND", vec![]));
        out.push(Attack { name: "apng-narrow-first-frame-wide-later-frames", file: serialize(&cs) });
    }
    out
}

pub fn run(ctx: &mut Ctx) {
    ctx.rep.rule = format!("adversarial files: deflate bombs (matching and behind a small header), IHDR dimensions up to 2^31-1 with tiny data (both interlace methods), chunk length fields near 2^31 with short bodies, \
        floods of 12000+ ancillary chunks (tEXt/zTXt/iTXt/unknown/eXIf/gAMA, before and after IDAT), ancillary chunks of 40 KB..5 MB, expanding iCCP/zTXt/iTXt (1 MiB and 32 MiB), a 400-frame APNG with 1x1 sub-frames on a 2^24-wide canvas, APNGs whose first frame is 1x1 and whose later frames are as wide as a 2^21..2^23-pixel canvas \
        x L in {{64 KiB, 256 KiB, 1 MiB, 16 MiB, 64 MiB}} x transformation sets x paths (next_frame with pre-allocated caller buffer, next_row, read_info+finish); measured: peak live heap bytes of the process above the baseline at Decoder construction \
        (caller buffers and the input are allocated before); oracle: peak <= {}*L + {} bytes; non-trivial: all; distinct = hash(file, L, flags, path)", SLOPE, CONST);
    let mut rng = ctx.rng.fork(1);
    let atk = attacks(&mut rng, !ctx.quick());
    let limits: Vec<usize> = if ctx.quick() { vec![64 << 10, 1 << 20, 64 << 20] } else { vec![64 << 10, 256 << 10, 1 << 20, 16 << 20, 64 << 20] };
    for (ai, a) in atk.iter().enumerate() {
        for &l in &limits {
            for path in 0..3u8 {
                let flags = if (ai + path as usize) % 3 == 0 { 0 } else { rng.below(8) as u8 };
                ctx.rep.eval(true, fnv64(&a.file) ^ (l as u64) ^ ((flags as u64) << 40) ^ ((path as u64) << 48));
                ctx.rep.count("attack", a.name);
                ctx.rep.count("limit", &l.to_string());
                watchdog::enter(&format!("c06 {} L={} path={}", a.name, l, path));
                crate::util::breadcrumb(&case(&a.file, l, flags, path, a.name));
                let m = measure(&a.file, l, flags, path, 2000);
                watchdog::leave();
                match m {
                    Err(p) => ctx.rep.violation("oracle", &format!("panic/{}", a.name), &format!("panic: {}", p), case(&a.file, l, flags, path, a.name)),
                    Ok(m) => {
                        let bound = SLOPE * l + CONST;
                        let limited = m.outcome.contains("limits");
                        ctx.rep.count("outcome", if limited { "LimitsExceeded" } else if m.outcome.contains("format") { "format error" } else if m.outcome.starts_with("skipped") { "skipped" } else { "decoded" });
                        let ratio = m.peak * 100 / bound;
                        ctx.rep.count("peak as % of bound", &(match ratio { 0 => "<1", 1..=9 => "1-9", 10..=49 => "10-49", 50..=99 => "50-99", _ => ">=100" }).to_string());
                        if m.peak > bound {
                            let key = if a.name.contains("subframes") { "scratch-row-unreserved".to_string() } else { format!("over-bound/{}", a.name) };
                            ctx.rep.violation("oracle", &key, &format!("{} under Limits{{bytes: {}}} (transformations {:#x}, path {}): peak {} bytes held, bound {}*L+{} = {}; outcome `{}`", a.name, l, flags, path, m.peak, SLOPE, CONST, bound, m.outcome),
                                case(&a.file, l, flags, path, a.name));
                        }
                        if ai < 2 && path == 0 && l == limits[0] {
                            ctx.rep.sample(J::obj().set("attack", J::s(a.name)).set("file_bytes", J::i(a.file.len() as u64)).set("limit", J::i(l as u64)).set("peak", J::i(m.peak as u64)).set("outcome", J::s(&m.outcome)));
                        }
                    }
                }
            }
        }
    }
    constructors_and_refusals(ctx);
    super::c06_datapath::run(ctx);
}

/// outcome of `read_info` + `next_frame` + `finish` for a reader built by one of the three public constructors
fn outcome_with(file: &[u8], ctor: u8) -> Result<String, String> {
    let file = file.to_vec();
    guarded(move || -> String {
        let input = std::io::Cursor::new(file);
        let dec = match ctor {
            0 => png::Decoder::new(input),
            1 => png::Decoder::new_with_options(input, png::DecodeOptions::default()),
            _ => png::Decoder::new_with_limits(input, png::Limits::default()),
        };
        let mut reader = match dec.read_info() {
            Ok(r) => r,
            Err(e) => return format!("read_info:{}", crate::canon::err_class(&e)),
        };
        let size = reader.output_buffer_size();
        let mut out = String::new();
        if size <= (1 << 26) {
            let mut buf = vec![0u8; size];
            match reader.next_frame(&mut buf) {
                Ok(_) => out.push('F'),
                Err(e) => out.push_str(&format!(" {}", crate::canon::err_class(&e))),
            }
        }
        match reader.finish() {
            Ok(()) => out.push_str(" fin:ok"),
            Err(e) => out.push_str(&format!(" fin:{}", crate::canon::err_class(&e))),
        }
        out
    })
}

/// (a) the default limit is in force however the `Decoder` is built: `new`, `new_with_options(default)` and
///     `new_with_limits(Limits::default())` answer alike on files that exceed it (seeded change C06_5);
/// (b) a frame start refused by `Limits` while rows of the PREVIOUS frame are still buffered and the end of its data has been
///     seen (a highly compressible frame just above the 32 KiB inflate buffer, read by rows almost to its end): no row and no
///     frame may be delivered after the refusal (seeded change C18_8)
fn constructors_and_refusals(ctx: &mut Ctx) {
    let mut rng = ctx.rng.fork(0xc06c);
    // (a)
    let mut over_default: Vec<(&str, Vec<u8>)> = vec![];
    over_default.push(("row-of-400-MB", serialize(&[ihdr(100_000_000, 1, 8, 6, 0), RawChunk::new(b"IDAT", zlib_stream(&[0, 1, 2, 3, 4], &Deflater::Level(6))), RawChunk::new(b"IEND", vec![])])));
    over_default.push(("row-of-2-GB-interlaced", serialize(&[ihdr(0x7fff_ffff, 3, 8, 0, 1), RawChunk::new(b"IDAT", zlib_stream(&[0, 1], &Deflater::Level(6))), RawChunk::new(b"IEND", vec![])])));
    {
        let mut d = b"icc\0\0".to_vec();
        d.extend(zlib_stream(&vec![7u8; 72 << 20], &Deflater::Level(9)));
        over_default.push(("iccp-inflating-to-72-MiB", serialize(&[ihdr(2, 2, 8, 0, 0), RawChunk::new(b"iCCP", d), RawChunk::new(b"IDAT", zlib_stream(&[0, 1, 2, 0, 3, 4], &Deflater::Level(6))), RawChunk::new(b"IEND", vec![])])));
    }
    for (name, file) in &over_default {
        let outs: Vec<Result<String, String>> = (0..3u8).map(|c| outcome_with(file, c)).collect();
        ctx.rep.eval(true, fnv64(file));
        ctx.rep.count("attack", "over-the-default-limit");
        let names = ["Decoder::new", "Decoder::new_with_options(default)", "Decoder::new_with_limits(default)"];
        for c in 0..3 {
            match &outs[c] {
                Err(p) => ctx.rep.violation("oracle", &format!("panic/{}", name), &format!("{}: panic: {}", names[c], p), case(file, 64 << 20, 0, 0, name)),
                Ok(o) => {
                    if !o.contains("limits") && *name != "iccp-inflating-to-72-MiB" || (outs[2].as_ref().ok() != Some(o)) {
                        ctx.rep.violation("oracle", &format!("default-limit-not-in-force/{}", name), &format!("{} on `{}` answers `{}`, a decoder with Limits::default() answers `{}`", names[c], name, o, outs[2].clone().unwrap_or_default()), case(file, 64 << 20, 0, 0, name));
                    }
                }
            }
        }
    }
    // (b)
    let (w, h) = (400u32, 3700u32);
    let z0 = zlib_stream(&vec![0u8; 9 * h as usize], &Deflater::Level(6));
    let z1 = zlib_stream(&vec![0u8; (w as usize + 1) * 2], &Deflater::Level(6));
    let mut fd = 2u32.to_be_bytes().to_vec();
    fd.extend(z1);
    let file = serialize(&[
        ihdr(w, h, 8, 0, 0), actl(2, 0),
        Fctl { seq: 0, w: 8, h, x: 0, y: 0, delay_num: 1, delay_den: 1, dispose: 0, blend: 0 }.chunk(), RawChunk::new(b"IDAT", z0),
        Fctl { seq: 1, w, h: 2, x: 0, y: 0, delay_num: 1, delay_den: 1, dispose: 0, blend: 0 }.chunk(), RawChunk::new(b"fdAT", fd),
        RawChunk::new(b"IEND", vec![]),
    ]);
    let probe = [rops::Op::ReadInfo, rops::Op::NextRow, rops::Op::NextFrameInfo];
    let mut limit = None;
    for l in [64usize, 96, 128, 192, 256, 320, 384] {
        let cfg = rops::Config { limit: Some(l), ..rops::Config::default() };
        let t = rops::run_ops(&file, file.len(), &probe, &cfg);
        if !t.panicked && t.tokens.len() == 3 && t.tokens[1].starts_with("row(") && t.tokens[2] == "err(limits)" {
            limit = Some(l);
            break;
        }
    }
    match limit {
        None => ctx.rep.notes.push("refused-frame-with-buffered-rows: no limit found that admits the first frame only (generator needs attention)".into()),
        Some(l) => {
            let cfg = rops::Config { limit: Some(l), ..rops::Config::default() };
            for k in [1u32, 2, 3, 5, 8, 13, 40, 200, 1000] {
                let mut ops = vec![rops::Op::ReadInfo];
                ops.extend((0..h - k).map(|_| rops::Op::NextRow));
                ops.extend([rops::Op::NextFrameInfo, rops::Op::NextRow, rops::Op::ReadRow, rops::Op::NextFrame(0), rops::Op::NextRow]);
                let t = rops::run_ops(&file, file.len(), &ops, &cfg);
                ctx.rep.eval(true, fnv64(&file) ^ k as u64);
                ctx.rep.count("attack", "refused-frame-with-buffered-rows");
                let at = (h - k) as usize + 1;
                if t.panicked {
                    ctx.rep.violation("oracle", "panic/refused-frame-with-buffered-rows", &format!("{} rows read, next_frame_info, then row / frame calls: {}", h - k, t.tokens.last().cloned().unwrap_or_default()), case(&file, l, 0, 1, "refused-frame-with-buffered-rows"));
                } else if t.tokens.get(at).map(|x| x == "err(limits)").unwrap_or(false) {
                    if let Some(bad) = t.tokens[at + 1..].iter().find(|x| x.starts_with("row(") || x.starts_with("frame(")) {
                        ctx.rep.violation("oracle", "delivered-after-refusal", &format!("Limits{{bytes: {}}}: {} of {} rows of the first frame read by row calls, next_frame_info refused with LimitsExceeded, then a later call delivered `{}`", l, h - k, h, bad),
                            case(&file, l, 0, 1, "refused-frame-with-buffered-rows"));
                    }
                } else {
                    ctx.rep.notes.push(format!("refused-frame-with-buffered-rows k={}: next_frame_info answered `{}`", k, t.tokens.get(at).cloned().unwrap_or_default()));
                }
            }
        }
    }
    let _ = &mut rng;
}

fn case(file: &[u8], l: usize, flags: u8, path: u8, name: &str) -> J {
    // large files are stored truncated with their generator name; small ones completely
    J::obj().set("attack", J::s(name)).set("limit", J::i(l as u64)).set("flags", J::i(flags)).set("path", J::i(path))
        .set("file_len", J::i(file.len() as u64)).set("file", J::s(&hex(&file[..file.len().min(400_000)])))
}

pub fn replay(ctx: &mut Ctx, c: &J) {
    if super::c06_datapath::replay(ctx, c) { return; }
    let file = c.get("file").and_then(|f| f.as_str()).and_then(unhex).unwrap_or_default();
    let l = c.get("limit").and_then(|f| f.as_i64()).unwrap_or(65536) as usize;
    let flags = c.get("flags").and_then(|f| f.as_i64()).unwrap_or(0) as u8;
    let path = c.get("path").and_then(|f| f.as_i64()).unwrap_or(0) as u8;
    ctx.rep.eval(true, fnv64(&file));
    crate::util::breadcrumb(c);
    match measure(&file, l, flags, path, 2000) {
        Err(p) => ctx.rep.violation("oracle", "panic/replay", &p, c.clone()),
        Ok(m) => {
            println!("peak {} bytes, bound {}, outcome {}", m.peak, SLOPE * l + CONST, m.outcome);
            if m.peak > SLOPE * l + CONST {
                ctx.rep.violation("oracle", "over-bound/replay", &format!("peak {} > bound {}", m.peak, SLOPE * l + CONST), c.clone());
            }
        }
    }
}
