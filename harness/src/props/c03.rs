//! C03 — encode then decode is lossless for every image and every setting.
//!
//! Real `Encoder`/`Writer::write_image_data`/`StreamWriter` output is decoded by (a) the real decoder
//! and (b) the Lean specification decoder; both must give back the input bytes.
use crate::json::J;
use crate::model;
use crate::props::c01::decode_first;
use crate::refpng::{Img, LEGAL_PAIRS};
use crate::report::Ctx;
use crate::rng::{fnv64, Rng};
use crate::util::{guarded, hex, unhex};
use std::io::Write;

/// sink that accepts at most `schedule[k % len]` bytes on its k-th write call (0 entries are treated as 1)
pub struct ShortSink {
    pub data: Vec<u8>,
    pub schedule: Vec<usize>,
    pub calls: usize,
}

impl Write for ShortSink {
    fn write(&mut self, buf: &[u8]) -> std::io::Result<usize> {
        if buf.is_empty() {
            return Ok(0);
        }
        let n = if self.schedule.is_empty() { buf.len() } else { self.schedule[self.calls % self.schedule.len()].max(1).min(buf.len()) };
        self.calls += 1;
        self.data.extend_from_slice(&buf[..n]);
        Ok(n)
    }
    fn flush(&mut self) -> std::io::Result<()> {
        Ok(())
    }
}

#[derive(Clone, Debug)]
pub struct EncCase {
    pub color: u8,
    pub depth: u8,
    pub w: u32,
    pub h: u32,
    pub pixels: Vec<u8>,
    pub filter: u8,      // 0..4, 5 adaptive
    pub compression: u8, // 0 NoCompression, 1 FdeflateUltraFast, 2..=11 Level(0..9), 12..16 presets, 17 Compression::default()
    pub path: u8,        // 0 write_image_data, 1 stream_writer, 2 into_stream_writer (the stream writer owns the Writer)
    pub stream_buf: usize,
    pub partition: Vec<usize>, // sizes of write() calls (cycled)
    pub sink: Vec<usize>,      // short-write schedule
    pub interlaced_flag: bool, // Info.interlaced = true through with_info (D12)
    /// stream paths only, empty = not used: the image is written ROW BY ROW and `StreamWriter::set_filter` is called before row r with
    /// filter `row_filters[r % len]` (a per-row public setting; the previous-row state has to survive every switch)
    pub row_filters: Vec<u8>,
}

fn color_of(c: u8) -> png::ColorType {
    match c {
        0 => png::ColorType::Grayscale,
        2 => png::ColorType::Rgb,
        3 => png::ColorType::Indexed,
        4 => png::ColorType::GrayscaleAlpha,
        _ => png::ColorType::Rgba,
    }
}
fn depth_of(d: u8) -> png::BitDepth {
    match d {
        1 => png::BitDepth::One,
        2 => png::BitDepth::Two,
        4 => png::BitDepth::Four,
        8 => png::BitDepth::Eight,
        _ => png::BitDepth::Sixteen,
    }
}
pub fn filter_of(f: u8) -> png::Filter {
    match f {
        0 => png::Filter::NoFilter,
        1 => png::Filter::Sub,
        2 => png::Filter::Up,
        3 => png::Filter::Avg,
        4 => png::Filter::Paeth,
        _ => png::Filter::Adaptive,
    }
}

impl EncCase {
    fn json(&self) -> J {
        J::obj()
            .set("color", J::i(self.color)).set("depth", J::i(self.depth)).set("w", J::i(self.w)).set("h", J::i(self.h))
            .set("pixels", J::s(&hex(&self.pixels))).set("filter", J::i(self.filter)).set("compression", J::i(self.compression))
            .set("path", J::i(self.path)).set("stream_buf", J::i(self.stream_buf as u64))
            .set("partition", J::Arr(self.partition.iter().map(|&x| J::i(x as u64)).collect()))
            .set("sink", J::Arr(self.sink.iter().map(|&x| J::i(x as u64)).collect()))
            .set("interlaced_flag", J::Bool(self.interlaced_flag))
            .set("row_filters", J::Arr(self.row_filters.iter().map(|&x| J::i(x)).collect()))
    }
    fn from_json(j: &J) -> Option<EncCase> {
        let g = |k: &str| j.get(k).and_then(|v| v.as_i64());
        let arr = |k: &str| -> Vec<usize> { j.get(k).and_then(|v| v.as_arr()).map(|a| a.iter().filter_map(|x| x.as_i64()).map(|x| x as usize).collect()).unwrap_or_default() };
        Some(EncCase {
            color: g("color")? as u8, depth: g("depth")? as u8, w: g("w")? as u32, h: g("h")? as u32,
            pixels: unhex(j.get("pixels")?.as_str()?)?, filter: g("filter")? as u8, compression: g("compression")? as u8,
            path: g("path")? as u8, stream_buf: g("stream_buf")? as usize, partition: arr("partition"), sink: arr("sink"),
            interlaced_flag: matches!(j.get("interlaced_flag"), Some(J::Bool(true))),
            row_filters: arr("row_filters").into_iter().map(|x| x as u8).collect(),
        })
    }
    fn summary(&self) -> J {
        let mut j = self.json();
        j.put("pixels", J::s(&format!("{} bytes", self.pixels.len())));
        j
    }
}

/// the pixel bytes through `StreamWriter::write` in the pieces of `c.partition`
fn feed<W: Write>(sw: &mut png::StreamWriter<W>, c: &EncCase) -> Result<(), String> {
    if !c.row_filters.is_empty() {
        let rb = (c.w as usize * crate::refpng::samples(c.color) * c.depth as usize + 7) / 8;
        for (r, row) in c.pixels.chunks(rb.max(1)).enumerate() {
            sw.set_filter(filter_of(c.row_filters[r % c.row_filters.len()]));
            sw.write_all(row).map_err(|e| format!("stream write_all (row {}): {}", r, e))?;
        }
        return Ok(());
    }
    let mut pos = 0;
    let mut k = 0;
    let mut stall = 0;
    while pos < c.pixels.len() {
        let want = if c.partition.is_empty() { c.pixels.len() } else { c.partition[k % c.partition.len()].max(1) };
        k += 1;
        let end = (pos + want).min(c.pixels.len());
        // write() may accept fewer bytes than offered: continue from what was accepted
        let n = sw.write(&c.pixels[pos..end]).map_err(|e| format!("stream write: {}", e))?;
        if n == 0 {
            stall += 1;
            if stall > 3 {
                return Err("stream write accepted 0 bytes repeatedly".into());
            }
        } else {
            stall = 0;
        }
        pos += n;
    }
    Ok(())
}

/// first image of the file under the given output transformations
fn decode_with(file: &[u8], t: png::Transformations) -> Result<Vec<u8>, String> {
    let file = file.to_vec();
    match guarded(move || -> Result<Vec<u8>, String> {
        let mut d = png::Decoder::new(std::io::Cursor::new(file));
        d.set_transformations(t);
        let mut r = d.read_info().map_err(|e| format!("read_info: {}", e))?;
        let mut buf = vec![0u8; r.output_buffer_size()];
        let info = r.next_frame(&mut buf).map_err(|e| format!("next_frame: {}", e))?;
        buf.truncate(info.buffer_size());
        Ok(buf)
    }) {
        Ok(r) => r,
        Err(p) => Err(format!("PANIC {}", p)),
    }
}

/// the sink of an owned stream writer (`into_stream_writer` wants a `'static` sink)
struct SharedShort(std::rc::Rc<std::cell::RefCell<ShortSink>>);

impl Write for SharedShort {
    fn write(&mut self, buf: &[u8]) -> std::io::Result<usize> {
        self.0.borrow_mut().write(buf)
    }
    fn flush(&mut self) -> std::io::Result<()> {
        self.0.borrow_mut().flush()
    }
}

pub fn encode(c: &EncCase) -> Result<Vec<u8>, String> {
    let c = c.clone();
    match guarded(move || -> Result<Vec<u8>, String> {
        let mut sink = ShortSink { data: vec![], schedule: c.sink.clone(), calls: 0 };
        if c.path == 2 {
            // the stream writer owns the `Writer`: its `finish` ends the file
            let shared = std::rc::Rc::new(std::cell::RefCell::new(sink));
            let w = configure(SharedShort(shared.clone()), &c)?.write_header().map_err(|e| format!("write_header: {}", e))?;
            let mut sw = if c.stream_buf == 0 { w.into_stream_writer() } else { w.into_stream_writer_with_size(c.stream_buf) }.map_err(|e| format!("into_stream_writer: {}", e))?;
            feed(&mut sw, &c)?;
            sw.finish().map_err(|e| format!("stream finish: {}", e))?;
            let data = std::mem::take(&mut shared.borrow_mut().data);
            return Ok(data);
        }
        {
            let mut w = configure(&mut sink, &c)?.write_header().map_err(|e| format!("write_header: {}", e))?;
            if c.path == 0 {
                w.write_image_data(&c.pixels).map_err(|e| format!("write_image_data: {}", e))?;
                w.finish().map_err(|e| format!("finish: {}", e))?;
            } else {
                let mut sw = if c.stream_buf == 0 { w.stream_writer() } else { w.stream_writer_with_size(c.stream_buf) }.map_err(|e| format!("stream_writer: {}", e))?;
                feed(&mut sw, &c)?;
                sw.finish().map_err(|e| format!("stream finish: {}", e))?;
            }
        }
        Ok(sink.data)
    }) {
        Ok(r) => r,
        Err(p) => Err(format!("PANIC {}", p)),
    }
}

/// `Encoder` on `sink` with the colour type, compression and filter settings of the case
fn configure<W: Write>(sink: W, c: &EncCase) -> Result<png::Encoder<'static, W>, String> {
    let mut enc = if c.interlaced_flag {
        let mut info = png::Info::default();
        info.width = c.w;
        info.height = c.h;
        info.color_type = color_of(c.color);
        info.bit_depth = depth_of(c.depth);
        info.interlaced = true;
        if c.color == 3 {
            info.palette = Some(vec![7u8; 3 * 256].into());
        }
        png::Encoder::with_info(sink, info).map_err(|e| format!("with_info: {}", e))?
    } else {
        let mut e = png::Encoder::new(sink, c.w, c.h);
        e.set_color(color_of(c.color));
        e.set_depth(depth_of(c.depth));
        if c.color == 3 {
            e.set_palette(vec![7u8; 3 * 256]);
        }
        e
    };
    match c.compression {
        0 => enc.set_deflate_compression(png::DeflateCompression::NoCompression),
        1 => enc.set_deflate_compression(png::DeflateCompression::FdeflateUltraFast),
        2..=11 => enc.set_deflate_compression(png::DeflateCompression::Level(c.compression - 2)),
        12 => enc.set_compression(png::Compression::NoCompression),
        13 => enc.set_compression(png::Compression::Fastest),
        14 => enc.set_compression(png::Compression::Fast),
        15 => enc.set_compression(png::Compression::Balanced),
        16 => enc.set_compression(png::Compression::High),
        _ => enc.set_compression(png::Compression::default()),
    }
    // the presets also choose a filter; an explicit filter afterwards overrides it
    if c.compression < 12 || c.filter != 5 {
        enc.set_filter(filter_of(c.filter));
    }
    Ok(enc)
}

/// an animation written frame by frame: every frame is an image "accepted by the encoder" and has to come back unchanged
#[derive(Clone, Debug)]
pub struct AnimCase {
    pub color: u8,
    pub depth: u8,
    pub w: u32,
    pub h: u32,
    /// (x, y, w, h, pixels, filter for this frame); the first frame covers the canvas
    pub frames: Vec<(u32, u32, u32, u32, Vec<u8>, u8)>,
    pub compression: u8,
    /// per frame: 0 write_image_data, 1 the stream writer that is open (a new one if none is), 2 a fresh stream writer
    pub modes: Vec<u8>,
    pub stream_buf: usize,
    pub partition: Vec<usize>,
}

impl AnimCase {
    fn json(&self) -> J {
        J::obj()
            .set("anim", J::Bool(true)).set("color", J::i(self.color)).set("depth", J::i(self.depth)).set("w", J::i(self.w)).set("h", J::i(self.h))
            .set("compression", J::i(self.compression)).set("stream_buf", J::i(self.stream_buf as u64))
            .set("modes", J::Arr(self.modes.iter().map(|&x| J::i(x)).collect()))
            .set("partition", J::Arr(self.partition.iter().map(|&x| J::i(x as u64)).collect()))
            .set("frames", J::Arr(self.frames.iter().map(|f| J::obj().set("x", J::i(f.0)).set("y", J::i(f.1)).set("w", J::i(f.2)).set("h", J::i(f.3)).set("pixels", J::s(&hex(&f.4))).set("filter", J::i(f.5))).collect()))
    }
    fn from_json(j: &J) -> Option<AnimCase> {
        let g = |k: &str| j.get(k).and_then(|v| v.as_i64());
        let arr = |k: &str| -> Vec<usize> { j.get(k).and_then(|v| v.as_arr()).map(|a| a.iter().filter_map(|x| x.as_i64()).map(|x| x as usize).collect()).unwrap_or_default() };
        let frames = j.get("frames")?.as_arr()?.iter().filter_map(|f| {
            let g = |k: &str| f.get(k).and_then(|v| v.as_i64());
            Some((g("x")? as u32, g("y")? as u32, g("w")? as u32, g("h")? as u32, unhex(f.get("pixels")?.as_str()?)?, g("filter")? as u8))
        }).collect();
        Some(AnimCase { color: g("color")? as u8, depth: g("depth")? as u8, w: g("w")? as u32, h: g("h")? as u32, frames, compression: g("compression")? as u8,
            modes: arr("modes").into_iter().map(|x| x as u8).collect(), stream_buf: g("stream_buf")? as usize, partition: arr("partition") })
    }
}

fn set_compression_of<W: Write>(enc: &mut png::Encoder<W>, compression: u8) {
    match compression {
        0 => enc.set_deflate_compression(png::DeflateCompression::NoCompression),
        1 => enc.set_deflate_compression(png::DeflateCompression::FdeflateUltraFast),
        2..=11 => enc.set_deflate_compression(png::DeflateCompression::Level(compression - 2)),
        _ => enc.set_deflate_compression(png::DeflateCompression::Level(6)),
    }
}

pub fn encode_anim(c: &AnimCase) -> Result<Vec<u8>, String> {
    let c = c.clone();
    match guarded(move || -> Result<Vec<u8>, String> {
        let mut sink = ShortSink { data: vec![], schedule: vec![], calls: 0 };
        {
            let mut enc = png::Encoder::new(&mut sink, c.w, c.h);
            enc.set_color(color_of(c.color));
            enc.set_depth(depth_of(c.depth));
            if c.color == 3 {
                enc.set_palette(vec![7u8; 3 * 256]);
            }
            enc.set_animated(c.frames.len() as u32, 0).map_err(|e| format!("set_animated: {}", e))?;
            set_compression_of(&mut enc, c.compression);
            enc.set_filter(filter_of(c.frames[0].5));
            let mut w = enc.write_header().map_err(|e| format!("write_header: {}", e))?;
            let n = c.frames.len();
            let mut i = 0;
            while i < n {
                let mode = c.modes[i % c.modes.len().max(1)];
                if mode == 0 {
                    let f = &c.frames[i];
                    if i > 0 {
                        w.reset_frame_position().map_err(|e| format!("reset_frame_position: {}", e))?;
                        w.reset_frame_dimension().map_err(|e| format!("reset_frame_dimension: {}", e))?;
                        w.set_frame_dimension(f.2, f.3).map_err(|e| format!("set_frame_dimension: {}", e))?;
                        w.set_frame_position(f.0, f.1).map_err(|e| format!("set_frame_position: {}", e))?;
                    }
                    w.set_filter(filter_of(f.5));
                    w.write_image_data(&f.4).map_err(|e| format!("write_image_data (frame {}): {}", i, e))?;
                    i += 1;
                } else {
                    // one stream writer for this frame and for the following frames of mode 1; a new stream writer begins its
                    // frame when it is created, so the rectangle and filter of that frame are set on the `Writer` before
                    if i > 0 {
                        let f = &c.frames[i];
                        w.reset_frame_position().map_err(|e| format!("reset_frame_position: {}", e))?;
                        w.reset_frame_dimension().map_err(|e| format!("reset_frame_dimension: {}", e))?;
                        w.set_frame_dimension(f.2, f.3).map_err(|e| format!("set_frame_dimension: {}", e))?;
                        w.set_frame_position(f.0, f.1).map_err(|e| format!("set_frame_position: {}", e))?;
                    }
                    w.set_filter(filter_of(c.frames[i].5));
                    let mut sw = if c.stream_buf == 0 { w.stream_writer() } else { w.stream_writer_with_size(c.stream_buf) }.map_err(|e| format!("stream_writer: {}", e))?;
                    let mut first = true;
                    let mut k = 0usize;
                    while i < n && (first || c.modes[i % c.modes.len().max(1)] == 1) {
                        let f = &c.frames[i];
                        if i > 0 && !first {
                            sw.reset_frame_position().map_err(|e| format!("stream reset_frame_position: {}", e))?;
                            sw.reset_frame_dimension().map_err(|e| format!("stream reset_frame_dimension: {}", e))?;
                            sw.set_frame_dimension(f.2, f.3).map_err(|e| format!("stream set_frame_dimension: {}", e))?;
                            sw.set_frame_position(f.0, f.1).map_err(|e| format!("stream set_frame_position: {}", e))?;
                        }
                        if !first {
                            sw.set_filter(filter_of(f.5));
                        }
                        let mut pos = 0;
                        let mut stall = 0;
                        while pos < f.4.len() {
                            let want = if c.partition.is_empty() { f.4.len() } else { c.partition[k % c.partition.len()].max(1) };
                            k += 1;
                            let end = (pos + want).min(f.4.len());
                            let m = sw.write(&f.4[pos..end]).map_err(|e| format!("stream write (frame {}): {}", i, e))?;
                            if m == 0 {
                                stall += 1;
                                if stall > 3 {
                                    return Err("stream write accepted 0 bytes repeatedly".into());
                                }
                            } else {
                                stall = 0;
                            }
                            pos += m;
                        }
                        first = false;
                        i += 1;
                    }
                    sw.finish().map_err(|e| format!("stream finish: {}", e))?;
                }
            }
            w.finish().map_err(|e| format!("finish: {}", e))?;
        }
        Ok(sink.data)
    }) {
        Ok(r) => r,
        Err(p) => Err(format!("PANIC {}", p)),
    }
}

/// every frame of the file through the real decoder: (x, y, w, h, bytes)
fn decode_frames(file: &[u8], n: usize) -> Result<Vec<(u32, u32, u32, u32, Vec<u8>)>, String> {
    let file = file.to_vec();
    match guarded(move || -> Result<Vec<(u32, u32, u32, u32, Vec<u8>)>, String> {
        let mut d = png::Decoder::new(std::io::Cursor::new(file));
        d.set_transformations(png::Transformations::IDENTITY);
        let mut r = d.read_info().map_err(|e| format!("read_info: {}", e))?;
        let mut buf = vec![0u8; r.output_buffer_size()];
        let mut out = vec![];
        for i in 0..n {
            let info = r.next_frame(&mut buf).map_err(|e| format!("next_frame {}: {}", i, e))?;
            let fc = r.info().frame_control().ok_or_else(|| format!("frame {} has no frame control", i))?;
            out.push((fc.x_offset, fc.y_offset, fc.width, fc.height, buf[..info.buffer_size()].to_vec()));
        }
        r.finish().map_err(|e| format!("finish: {}", e))?;
        Ok(out)
    }) {
        Ok(r) => r,
        Err(p) => Err(format!("PANIC {}", p)),
    }
}

fn judge_anim(c: &AnimCase, file: &Result<Vec<u8>, String>) -> Option<(&'static str, String, String)> {
    let uses_stream = c.modes.iter().any(|&m| m != 0);
    let tag = if uses_stream { "animation/stream" } else { "animation/image" };
    let file = match file {
        Err(e) => {
            let k = if e.starts_with("PANIC") { "panic" } else { "refused" };
            return Some(("oracle", format!("encode-{}/{}", k, tag), format!("encoder failed on an acceptable animation: {}", e)));
        }
        Ok(f) => f,
    };
    match decode_frames(file, c.frames.len()) {
        Err(e) => Some(("oracle", format!("undecodable/{}", tag), format!("encoder output is not decodable: {}", e))),
        Ok(fs) => {
            for (i, (got, want)) in fs.iter().zip(&c.frames).enumerate() {
                if (got.0, got.1, got.2, got.3) != (want.0, want.1, want.2, want.3) {
                    return Some(("oracle", format!("frame-rectangle/{}", tag), format!("frame {}: rectangle read back {:?}, written {:?}", i, (got.0, got.1, got.2, got.3), (want.0, want.1, want.2, want.3))));
                }
                if got.4 != want.4 {
                    let at = got.4.iter().zip(&want.4).position(|(a, b)| a != b).unwrap_or(0);
                    return Some(("oracle", format!("lossy/{}", tag), format!("frame {} (filter {}): decoded bytes differ from the bytes given at offset {} (decoded {} bytes, gave {})", i, want.5, at, got.4.len(), want.4.len())));
                }
            }
            None
        }
    }
}

fn gen_anim(rng: &mut Rng) -> AnimCase {
    let (color, depth) = *rng.pick(&LEGAL_PAIRS);
    let w = rng.range(1, 12) as u32;
    let h = rng.range(1, 8) as u32;
    let n = rng.usize(2, 4);
    let same_filter = rng.below(3) != 0;
    let f0 = rng.below(6) as u8;
    let mut frames = vec![];
    for i in 0..n {
        let (x, y, fw, fh) = if i == 0 || rng.below(2) == 0 { (0, 0, w, h) } else {
            let fw = rng.range(1, w as u64) as u32;
            let fh = rng.range(1, h as u64) as u32;
            (rng.range(0, (w - fw) as u64) as u32, rng.range(0, (h - fh) as u64) as u32, fw, fh)
        };
        let mut img = Img::random(rng, color, depth, fw, fh);
        if rng.below(4) == 0 {
            // a last row that is far from zero: what a stale predecessor row would be filtered against
            let rb = img.row_bytes();
            let len = img.pixels.len();
            for b in &mut img.pixels[len - rb..] { *b |= 0xa5; }
        }
        frames.push((x, y, fw, fh, img.pixels, if same_filter { f0 } else { rng.below(6) as u8 }));
    }
    let modes = match rng.below(5) { 0 => vec![0], 1 => vec![1], 2 => vec![2], 3 => vec![1, 1, 0], _ => (0..n).map(|_| rng.below(3) as u8).collect() };
    AnimCase { color, depth, w, h, frames, compression: *rng.pick(&[0u8, 1, 3, 8]), modes, stream_buf: *rng.pick(&[0usize, 1, 7, 64]),
        partition: match rng.below(3) { 0 => vec![], 1 => vec![1], _ => (0..rng.usize(1, 4)).map(|_| rng.usize(1, 40)).collect() } }
}

fn judge(c: &EncCase, model_ans: Option<&str>, file: &Result<Vec<u8>, String>) -> Option<(&'static str, String, String)> {
    let tag = format!("{}{}", match c.path { 0 => "image", 1 => "stream", _ => "owned-stream" }, if c.interlaced_flag { "+interlaced-flag" } else { "" });
    let file = match file {
        Err(e) => {
            let k = if e.starts_with("PANIC") { "panic" } else { "refused" };
            return Some(("oracle", format!("encode-{}/{}", k, tag), format!("encoder failed on an acceptable image: {}", e)));
        }
        Ok(f) => f,
    };
    match decode_first(file) {
        Err(e) => Some(("oracle", format!("undecodable/{}", tag), format!("encoder output is not decodable: {}", e))),
        Ok(d) => {
            if d.pixels != c.pixels || (d.w, d.h, d.color, d.depth) != (c.w, c.h, c.color, c.depth) {
                let at = d.pixels.iter().zip(&c.pixels).position(|(a, b)| a != b).unwrap_or(0);
                return Some(("oracle", format!("lossy/{}", tag), format!("decoded bytes differ from the bytes given at offset {} (decoded {} bytes, gave {})", at, d.pixels.len(), c.pixels.len())));
            }
            if c.path == 2 || c.compression == 17 {
                // the directed cases also through the two named transformation sets: the default one is the identity,
                // and `normalize_to_color8` (EXPAND | STRIP_16) has nothing to do on 8-bit samples without palette / tRNS
                let mut sets = vec![("Transformations::default()", png::Transformations::default())];
                if c.depth == 8 && c.color != 3 {
                    sets.push(("Transformations::normalize_to_color8()", png::Transformations::normalize_to_color8()));
                }
                for (name, t) in sets {
                    match decode_with(file, t) {
                        Ok(px) if px == c.pixels => {}
                        Ok(px) => return Some(("oracle", format!("lossy/{}", tag), format!("decoded with {}: {} bytes that differ from the {} bytes given", name, px.len(), c.pixels.len()))),
                        Err(e) => return Some(("oracle", format!("undecodable/{}", tag), format!("decoded with {}: {}", name, e))),
                    }
                }
            }
            if let Some(ans) = model_ans {
                let want = format!("ok {} {} {} {} {} 1 {}:{}:{}:{:016x}", c.w, c.h, c.color, c.depth, d.interlaced as u8, c.w, c.h, c.pixels.len(), fnv64(&c.pixels));
                if ans != want {
                    // the Lean specification decoder disagrees about the encoder's output: the output is not
                    // what the specification reconstructs to the input
                    return Some(("model", format!("spec-decode/{}", tag), format!("specification decode of the encoder output gives `{}`, expected `{}`", ans, want)));
                }
            }
            None
        }
    }
}

fn gen(rng: &mut Rng, big: bool) -> EncCase {
    let (color, depth) = *rng.pick(&LEGAL_PAIRS);
    let w = match rng.below(6) {
        // rows of several KiB (heuristics and buffers that only matter beyond 1 KiB / 4 KiB of row data)
        5 => *rng.pick(&[1025u64, 1500, 2049, 4097]) / (if depth == 16 { 2 } else { 1 }).max(1) + rng.below(3),
        0 => rng.range(1, 9),
        1 => *rng.pick(&[31u64, 32, 33, 34, 63, 64, 65, 66, 127, 128, 129, 130]),
        _ => rng.range(1, if big { 600 } else { 60 }),
    } as u32;
    let h = match rng.below(4) {
        0 => *rng.pick(&[1u64, 2, 3, 5, 17]),
        _ => rng.range(1, if big { 200 } else { 24 }),
    } as u32;
    let img = Img::random(rng, color, depth, w, h);
    let path = rng.below(2) as u8;
    let total = img.pixels.len();
    let rb = img.row_bytes();
    let partition = match rng.below(5) {
        0 => vec![1],
        1 => vec![],
        2 => (0..rng.usize(1, 6)).map(|_| rng.usize(1, total.max(1))).collect(),
        3 => vec![rb.saturating_sub(1).max(1), 2, rb + 1],
        _ => (0..rng.usize(1, 5)).map(|_| rng.usize(1, 2 * rb + 3)).collect(),
    };
    let sink = match rng.below(4) {
        0 => vec![],
        1 => vec![1],
        2 => (0..rng.usize(1, 5)).map(|_| rng.usize(1, 40)).collect(),
        _ => vec![rng.usize(1, 5000)],
    };
    EncCase {
        color, depth, w, h, pixels: img.pixels,
        filter: rng.below(6) as u8,
        compression: rng.below(17) as u8,
        path,
        stream_buf: *rng.pick(&[0usize, 1, 2, 7, 64, 4096]),
        partition, sink,
        interlaced_flag: false,
        row_filters: vec![],
    }
}

pub fn run(ctx: &mut Ctx) {
    ctx.rep.rule = "real Encoder output decoded by the real decoder and by the Lean specification decoder: 15 colour/depth pairs x widths {1..9, 31..34, 63..66, 127..130, random} x heights \
        x 6 filter settings x 18 compression settings (NoCompression, FdeflateUltraFast, Level 0..9, 5 presets, Compression::default()) x {write_image_data, stream_writer / into_stream_writer with buffer size in {default,1,2,7,64,4096}} \
        x write() partitions (1-byte, whole, random, straddling row ends) x sink short-write schedules; adversarial pixel data classes; plus Info.interlaced=true through with_info; plus animations of 2..4 frames (whole canvas and sub-frames, 15 colour/depth pairs, per-frame filters, \
        frames written by write_image_data / one stream writer across frames / a fresh stream writer per frame / mixed) read back frame by frame; \
        non-trivial = at least 2 rows and filter != NoFilter and compression != NoCompression; distinct = hash of all case parameters".into();
    let mut rng = ctx.rng.fork(1);
    let n = ctx.n(900, 15000);
    let mut cases: Vec<EncCase> = (0..n).map(|i| { let mut r = rng.fork(i as u64); gen(&mut r, i % 40 == 0) }).collect();
    // Info.interlaced = true via with_info (the encoder never interlaces)
    for k in 0..3 {
        let mut r = rng.fork(900_000 + k);
        let mut c = gen(&mut r, false);
        c.interlaced_flag = true;
        c.path = (k % 2) as u8;
        cases.push(c);
    }
    // the stream writer that owns the `Writer` (`into_stream_writer()` of the default size / `_with_size`), and the default
    // preset `Compression::default()` on all three paths
    for k in 0..ctx.n(90, 900) {
        let mut r = rng.fork(950_000 + k as u64);
        let mut c = gen(&mut r, false);
        c.path = if k % 3 == 2 { (k % 2) as u8 } else { 2 };
        c.stream_buf = *r.pick(&[0usize, 0, 1, 7, 4096]);
        if k % 3 != 0 {
            c.compression = 17;
        }
        cases.push(c);
    }
    // the filter switched between rows inside one stream session (NoFilter rows followed by a row that looks at the previous row,
    // and every other transition): what the decoder reconstructs must still be what was written
    for k in 0..ctx.n(160, 1600) {
        let mut r = rng.fork(970_000 + k as u64);
        let mut c = gen(&mut r, false);
        c.path = 1 + (k % 2) as u8;
        c.sink = vec![];
        c.row_filters = match k % 4 {
            0 => vec![0, 2],
            1 => vec![0, 0, *r.pick(&[2u8, 3, 4, 5])],
            2 => (0..r.usize(2, 5)).map(|_| r.below(6) as u8).collect(),
            _ => vec![*r.pick(&[1u8, 5]), 0, 4, 0, 3],
        };
        cases.push(c);
    }
    // tiny images over a small alphabet, exhaustively, with the adaptive filter: rows on which several candidate filters
    // score exactly the same are common here (the heuristic's tie-breaking decides which bytes go with which type byte)
    {
        let alphabet: [u8; 5] = [0, 5, 10, 15, 20];
        let shapes: &[(u32, u32, usize)] = if ctx.tier == crate::report::Tier::Thorough { &[(2, 2, 5), (3, 2, 5), (2, 3, 4)] } else { &[(2, 2, 5), (3, 2, 4)] };
        for &(w, h, a) in shapes {
            let n = (w * h) as usize;
            let total = a.pow(n as u32);
            for code in 0..total {
                let mut x = code;
                let pixels: Vec<u8> = (0..n).map(|_| { let v = alphabet[x % a]; x /= a; v }).collect();
                cases.push(EncCase { color: 0, depth: 8, w, h, pixels, filter: 5, compression: if code % 2 == 0 { 1 } else { 0 }, path: (code % 3 == 0) as u8, stream_buf: 4096, partition: vec![], sink: vec![], interlaced_flag: false, row_filters: vec![] });
            }
        }
        // the same idea for RGB8 (bpp 3) and Gray16 (bpp 2): two-row images whose second row repeats / offsets the first
        for k in 0..ctx.n(2000, 20000) {
            let mut r = rng.fork(7_000_000 + k as u64);
            let (color, depth, bpp) = *r.pick(&[(2u8, 8u8, 3usize), (0, 16, 2), (6, 8, 4), (4, 8, 2)]);
            let w = r.range(1, 4) as u32;
            let h = r.range(2, 3) as u32;
            let rb = w as usize * bpp;
            let vals: [u8; 4] = [0, 1, 2, 255];
            let pixels: Vec<u8> = (0..rb * h as usize).map(|_| *r.pick(&vals)).collect();
            cases.push(EncCase { color, depth, w, h, pixels, filter: 5, compression: 1, path: (k % 2) as u8, stream_buf: 64, partition: vec![], sink: vec![], interlaced_flag: false, row_filters: vec![] });
        }
    }
    // highly compressible images whose raw size lies just above a power-of-two size of the decoder's inflate buffer (see C01)
    for (k, (w, h, color, depth, _)) in crate::props::c01::near_boundary_shapes(&mut rng, ctx.n(8, 40)).into_iter().enumerate() {
        let mut r = rng.fork(8_000_000 + k as u64);
        let mut img = Img::random(&mut r, color, depth, w, h);
        let rb = img.row_bytes();
        let keep = if k % 2 == 0 { 0 } else { r.usize(0, 3).min(h as usize) };
        for b in img.pixels[keep * rb..].iter_mut() {
            *b = 0;
        }
        cases.push(EncCase { color, depth, w, h, pixels: img.pixels, filter: *r.pick(&[0u8, 0, 5, 2]), compression: *r.pick(&[3u8, 8, 11, 1, 13, 16]), path: (k % 2) as u8, stream_buf: *r.pick(&[0usize, 4096]), partition: vec![], sink: vec![], interlaced_flag: false, row_filters: vec![] });
    }
    let files: Vec<Result<Vec<u8>, String>> = cases.iter().map(encode).collect();
    let lines: Vec<String> = files.iter().map(|f| match f { Ok(f) => format!("c01 decode {}", hex(f)), Err(_) => "c01 skip".to_string() }).collect();
    let answers = model::ask(&lines);
    for (i, c) in cases.iter().enumerate() {
        let nontrivial = c.h >= 2 && c.filter != 0 && c.compression != 0 && c.compression != 12;
        ctx.rep.eval(nontrivial, fnv64(c.json().to_string().as_bytes()));
        ctx.rep.model_compared += 1;
        ctx.rep.count("colour/depth", &format!("{}/{}", c.color, c.depth));
        ctx.rep.count("filter", &c.filter.to_string());
        ctx.rep.count("compression", &c.compression.to_string());
        ctx.rep.count("path", match c.path { 0 => "write_image_data", 1 => "stream_writer", _ => "into_stream_writer" });
        if c.path >= 1 {
            ctx.rep.count("stream buffer", &c.stream_buf.to_string());
        }
        ctx.rep.count("sink", if c.sink.is_empty() { "full writes" } else if c.sink == [1] { "1 byte" } else { "short" });
        let ans = if files[i].is_ok() { Some(answers[i].as_str()) } else { None };
        if let Some((kind, class, what)) = judge(c, ans, &files[i]) {
            ctx.rep.violation(kind, &class, &what, c.json());
        }
        if i < 3 {
            ctx.rep.sample(c.summary());
        }
    }
    // animations: every frame (whole canvas or sub-frame; whole-image call, one stream writer across frames, a fresh stream
    // writer per frame, mixed) must come back unchanged
    for k in 0..ctx.n(1500, 20000) {
        let mut r = rng.fork(9_000_000 + k as u64);
        let c = gen_anim(&mut r);
        let nontrivial = c.frames.len() >= 2 && c.frames.iter().skip(1).any(|f| f.5 >= 2 && f.3 >= 1);
        ctx.rep.eval(nontrivial, fnv64(c.json().to_string().as_bytes()));
        ctx.rep.count("animation frames", &c.frames.len().to_string());
        ctx.rep.count("animation path", &c.modes.iter().map(|m| m.to_string()).collect::<Vec<_>>().join(""));
        ctx.rep.count("animation later-frame filter", &c.frames[1].5.to_string());
        let file = encode_anim(&c);
        if let Some((kind, class, what)) = judge_anim(&c, &file) {
            ctx.rep.violation(kind, &class, &what, c.json());
        }
    }
}

pub fn replay(ctx: &mut Ctx, case: &J) {
    if matches!(case.get("anim"), Some(J::Bool(true))) {
        if let Some(c) = AnimCase::from_json(case) {
            let file = encode_anim(&c);
            if let (Ok(f), Ok(path)) = (&file, std::env::var("VERIF_DUMP")) {
                let _ = std::fs::write(path, f);
            }
            ctx.rep.eval(true, 1);
            if let Some((kind, class, what)) = judge_anim(&c, &file) {
                ctx.rep.violation(kind, &class, &what, c.json());
            }
        }
        return;
    }
    if let Some(c) = EncCase::from_json(case) {
        let file = encode(&c);
        if let (Ok(f), Ok(path)) = (&file, std::env::var("VERIF_DUMP")) {
            let _ = std::fs::write(path, f);
        }
        let ans = match &file { Ok(f) => Some(model::ask_one(&[format!("c01 decode {}", hex(f))])[0].clone()), Err(_) => None };
        ctx.rep.eval(true, 1);
        if let Some((kind, class, what)) = judge(&c, ans.as_deref(), &file) {
            ctx.rep.violation(kind, &class, &what, c.json());
        }
    }
}
