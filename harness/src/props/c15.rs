//! C15 — Adam7 pass geometry is exact for every image size and pixel size.
//!
//! Tie B for `PngVerif/Model/Adam7.lean`:
//!  * geometry (needs the `adam7_rows` hook): `Adam7Iterator::new(w, h)` against the model's
//!    `iterRows` / `iterRowsFuel` / `passW` / `passH` and against an independent oracle that counts
//!    columns and rows straight from the PNG specification's 8x8 pattern — exhaustively for all small
//!    `(w, h)`, and for boundary values up to 2^32 - 1 (truncated with `take(max)`);
//!  * scatter (public API only): `png::expand_interlaced_row` with `png::Adam7Info::new` for the nine
//!    pixel sizes x all `(w, h) <= 17 x 17` x four stride kinds x three destination pre-fills, every
//!    row of the image in order, against the model's `deinterlace` (repaired mask-then-or store) and
//!    against an independent reference de-interlacer (every pixel at its position, every other bit
//!    equal to the pre-fill); plus single rows with arbitrary `Adam7Info`, row and image lengths
//!    (including too short ones: the panic must agree with the model's `panic`).
//!
//! Failure classes: `rows/<kind>`; `expand/subbyte-or/bits<k>` when the implementation's result is
//! exactly what OR-ing the pixels into the stale destination bits gives (sub-byte sizes, defect D7);
//! `expand/bits<k>` for any other wrong bit.
use crate::json::J;
use crate::model;
use crate::report::Ctx;
use crate::rng::{fnv64, Rng};
use crate::util::{guarded, hex, unhex};

const BITS: [u8; 9] = [1, 2, 4, 8, 16, 24, 32, 48, 64];
const STRIDE_KINDS: [&str; 4] = ["packed", "+1", "+7", "x2"];
const PREFILL_KINDS: [&str; 3] = ["00", "ff", "rand"];

// ---------------------------------------------------------------------------------------------
// Independent oracle: PNG specification, section 8.2 (nothing here comes from the crate or the model)
// ---------------------------------------------------------------------------------------------

const PATTERN: [[u8; 8]; 8] = [
    [1, 6, 4, 6, 2, 6, 4, 6],
    [7, 7, 7, 7, 7, 7, 7, 7],
    [5, 6, 5, 6, 5, 6, 5, 6],
    [7, 7, 7, 7, 7, 7, 7, 7],
    [3, 6, 4, 6, 3, 6, 4, 6],
    [7, 7, 7, 7, 7, 7, 7, 7],
    [5, 6, 5, 6, 5, 6, 5, 6],
    [7, 7, 7, 7, 7, 7, 7, 7],
];

/// (starting_col, starting_row, col_increment, row_increment) of passes 1..7, as tabulated in the
/// specification's sample code; cross-checked against `PATTERN` by `oracle_selfcheck`.
const SPEC: [(u64, u64, u64, u64); 7] =
    [(0, 0, 8, 8), (4, 0, 8, 8), (0, 4, 4, 8), (2, 0, 4, 4), (0, 2, 2, 4), (1, 0, 2, 2), (0, 1, 1, 2)];

fn col_has(p: u8, x: u64) -> bool {
    (0..8).any(|y| PATTERN[y][(x % 8) as usize] == p)
}
fn row_has(p: u8, y: u64) -> bool {
    (0..8).any(|x| PATTERN[(y % 8) as usize][x] == p)
}
/// brute force: number of columns (rows) below `n` that contain pixels of pass `p`
fn count_brute(n: u64, p: u8, cols: bool) -> u64 {
    (0..n).filter(|&v| if cols { col_has(p, v) } else { row_has(p, v) }).count() as u64
}
/// |{ v < n : v = start (mod inc) }|
fn count_closed(n: u64, start: u64, inc: u64) -> u64 {
    if n > start {
        (n - start + inc - 1) / inc
    } else {
        0
    }
}
const BRUTE_LIMIT: u64 = 300;
fn spec_dims(w: u64, h: u64) -> [(u64, u64); 7] {
    let mut out = [(0, 0); 7];
    for p in 0..7 {
        let (sc, sr, ci, ri) = SPEC[p];
        let pw = if w <= BRUTE_LIMIT { count_brute(w, p as u8 + 1, true) } else { count_closed(w, sc, ci) };
        let ph = if h <= BRUTE_LIMIT { count_brute(h, p as u8 + 1, false) } else { count_closed(h, sr, ri) };
        out[p] = (pw, ph);
    }
    out
}
/// the closed form used beyond `BRUTE_LIMIT` is the brute-force count (checked up to 4 * BRUTE_LIMIT)
fn oracle_selfcheck() -> bool {
    for p in 0..7 {
        let (sc, sr, ci, ri) = SPEC[p];
        let (mut cw, mut ch) = (0u64, 0u64);
        for n in 0..=4 * BRUTE_LIMIT {
            if cw != count_closed(n, sc, ci) || ch != count_closed(n, sr, ri) {
                return false;
            }
            if col_has(p as u8 + 1, n) {
                cw += 1;
            }
            if row_has(p as u8 + 1, n) {
                ch += 1;
            }
        }
    }
    true
}
/// the first `max` rows `(pass, line, width)` the specification defines, empty passes skipped
fn spec_rows(w: u64, h: u64, max: usize) -> Vec<(u8, u32, u32)> {
    let dims = spec_dims(w, h);
    let mut out = Vec::new();
    for p in 0..7 {
        let (pw, ph) = dims[p];
        if pw == 0 {
            continue;
        }
        for l in 0..ph {
            if out.len() >= max {
                return out;
            }
            out.push((p as u8 + 1, l as u32, pw as u32));
        }
    }
    out
}

fn get_bit(buf: &[u8], k: usize) -> bool {
    (buf[k / 8] >> (7 - k % 8)) & 1 == 1
}
fn put_bit(buf: &mut [u8], k: usize, v: bool, or_mode: bool) {
    let m = 1u8 << (7 - k % 8);
    if v {
        buf[k / 8] |= m;
    } else if !or_mode {
        buf[k / 8] &= !m;
    }
}

/// Reference de-interlacer, written as a *gather* from the destination's point of view: pixel
/// `(x, y)` is transmitted in pass `PATTERN[y % 8][x % 8]`, in the line numbered by that pass's rows
/// above `y`, at the index numbered by that pass's columns left of `x`.  `or_mode` = what OR-ing
/// into stale bits would give.  Every bit outside the `w x h` pixel fields keeps the pre-fill.
fn ref_deinterlace(c: &ImgCase, or_mode: bool) -> Vec<u8> {
    let mut out = c.img.clone();
    let bits = c.bits as usize;
    let infos = spec_rows(c.w as u64, c.h as u64, usize::MAX);
    for y in 0..c.h as u64 {
        for x in 0..c.w as u64 {
            let p = PATTERN[(y % 8) as usize][(x % 8) as usize];
            let line = count_brute(y, p, false) as u32;
            let idx = count_brute(x, p, true) as usize;
            let r = infos.iter().position(|&(pp, ll, _)| pp == p && ll == line).expect("row of pixel");
            let row = &c.rows[r];
            for t in 0..bits {
                let v = get_bit(row, idx * bits + t);
                put_bit(&mut out, (y as usize * c.stride) * 8 + x as usize * bits + t, v, or_mode);
            }
        }
    }
    out
}

/// Reference for one call of `expand_interlaced_row` with arbitrary arguments (scatter form, from
/// `SPEC`): the pixels present in the row (at most `width`) go to their fields; `None` = some
/// store is out of range (the crate panics).
fn ref_expand_row(c: &RowCase, or_mode: bool) -> Option<Vec<u8>> {
    let mut out = c.img.clone();
    let bits = c.bits as usize;
    let (sc, sr, ci, ri) = SPEC[c.pass as usize - 1];
    let y = c.line as usize * ri as usize + sr as usize;
    let n_px = if bits < 8 {
        (c.width as usize).min(c.row.len() * 8 / bits)
    } else {
        (c.width as usize).min((c.row.len() + bits / 8 - 1) / (bits / 8))
    };
    for i in 0..n_px {
        let x = i * ci as usize + sc as usize;
        let nb = if bits < 8 { bits } else { (bits / 8).min(c.row.len() - i * (bits / 8)) * 8 };
        for t in 0..nb {
            let dst = y * c.stride * 8 + x * bits + t;
            if dst / 8 >= out.len() {
                return None;
            }
            let v = get_bit(&c.row, i * bits + t);
            put_bit(&mut out, dst, v, or_mode);
        }
    }
    Some(out)
}

// ---------------------------------------------------------------------------------------------
// Cases
// ---------------------------------------------------------------------------------------------

#[derive(Clone, Debug)]
pub struct GeoCase {
    pub w: u32,
    pub h: u32,
    /// `None`: all rows (`c15 rows`), `Some(n)`: the first `n` (`c15 rows-max`)
    pub max: Option<usize>,
}

impl GeoCase {
    fn line(&self) -> String {
        match self.max {
            None => format!("c15 rows {} {}", self.w, self.h),
            Some(n) => format!("c15 rows-max {} {} {}", self.w, self.h, n),
        }
    }
    fn json(&self) -> J {
        J::obj()
            .set("op", J::s("rows"))
            .set("w", J::i(self.w as u64))
            .set("h", J::i(self.h as u64))
            .set("max", J::i(self.max.map(|m| m as i64).unwrap_or(-1)))
    }
    fn from_json(j: &J) -> Option<GeoCase> {
        let m = j.get("max")?.as_i64()?;
        Some(GeoCase {
            w: j.get("w")?.as_i64()? as u32,
            h: j.get("h")?.as_i64()? as u32,
            max: if m < 0 { None } else { Some(m as usize) },
        })
    }
}

#[derive(Clone, Debug)]
pub struct RowCase {
    pub bits: u8,
    pub stride: usize,
    pub pass: u8,
    pub line: u32,
    pub width: u32,
    pub img: Vec<u8>,
    pub row: Vec<u8>,
}

impl RowCase {
    fn line_with(&self, op: &str) -> String {
        format!(
            "c15 {} {} {} {} {} {} {} {}",
            op,
            self.bits,
            self.stride,
            self.pass,
            self.line,
            self.width,
            hex(&self.img),
            hex(&self.row)
        )
    }
    fn json(&self) -> J {
        J::obj()
            .set("op", J::s("expand"))
            .set("bits", J::i(self.bits))
            .set("stride", J::i(self.stride as u64))
            .set("pass", J::i(self.pass))
            .set("line", J::i(self.line as u64))
            .set("width", J::i(self.width as u64))
            .set("img", J::s(&hex(&self.img)))
            .set("row", J::s(&hex(&self.row)))
    }
    fn from_json(j: &J) -> Option<RowCase> {
        Some(RowCase {
            bits: j.get("bits")?.as_i64()? as u8,
            stride: j.get("stride")?.as_i64()? as usize,
            pass: j.get("pass")?.as_i64()? as u8,
            line: j.get("line")?.as_i64()? as u32,
            width: j.get("width")?.as_i64()? as u32,
            img: unhex(j.get("img")?.as_str()?)?,
            row: unhex(j.get("row")?.as_str()?)?,
        })
    }
    /// the row has exactly the length the decoder hands out and every store is inside `img`
    fn in_domain(&self) -> bool {
        BITS.contains(&self.bits) && self.row.len() == (self.width as usize * self.bits as usize + 7) / 8 && ref_expand_row(self, false).is_some()
    }
}

#[derive(Clone, Debug)]
pub struct ImgCase {
    pub bits: u8,
    pub stride: usize,
    pub w: u32,
    pub h: u32,
    pub img: Vec<u8>,
    pub rows: Vec<Vec<u8>>,
    pub stride_kind: usize,
    pub prefill_kind: usize,
}

impl ImgCase {
    fn line_with(&self, op: &str) -> String {
        let rows = if self.rows.is_empty() {
            "-".to_string()
        } else {
            self.rows.iter().map(|r| hex(r)).collect::<Vec<_>>().join(",")
        };
        format!("c15 {} {} {} {} {} {} {}", op, self.bits, self.stride, self.w, self.h, hex(&self.img), rows)
    }
    fn json(&self) -> J {
        J::obj()
            .set("op", J::s("deint"))
            .set("bits", J::i(self.bits))
            .set("stride", J::i(self.stride as u64))
            .set("w", J::i(self.w as u64))
            .set("h", J::i(self.h as u64))
            .set("img", J::s(&hex(&self.img)))
            .set("rows", J::Arr(self.rows.iter().map(|r| J::s(&hex(r))).collect()))
    }
    fn from_json(j: &J) -> Option<ImgCase> {
        let mut rows = Vec::new();
        for r in j.get("rows")?.as_arr()? {
            rows.push(unhex(r.as_str()?)?);
        }
        Some(ImgCase {
            bits: j.get("bits")?.as_i64()? as u8,
            stride: j.get("stride")?.as_i64()? as usize,
            w: j.get("w")?.as_i64()? as u32,
            h: j.get("h")?.as_i64()? as u32,
            img: unhex(j.get("img")?.as_str()?)?,
            rows,
            stride_kind: 0,
            prefill_kind: 2,
        })
    }
    fn row_case(&self, img: &[u8], r: usize) -> RowCase {
        let (pass, line, width) = spec_rows(self.w as u64, self.h as u64, usize::MAX)[r];
        RowCase { bits: self.bits, stride: self.stride, pass, line, width, img: img.to_vec(), row: self.rows[r].clone() }
    }
}

// ---------------------------------------------------------------------------------------------
// Implementation answers
// ---------------------------------------------------------------------------------------------

/// `png::expand_interlaced_row`; `None` = panic
fn impl_expand(c: &RowCase) -> Option<Vec<u8>> {
    let mut img = c.img.clone();
    guarded(|| {
        let info = png::Adam7Info::new(c.pass, c.line, c.width);
        png::expand_interlaced_row(&mut img, c.stride, &c.row, &info, c.bits);
    })
    .ok()?;
    Some(img)
}

fn show(o: &Option<Vec<u8>>) -> String {
    match o {
        None => "panic".to_string(),
        Some(v) => hex(v),
    }
}

type Verdict = Option<(&'static str, String, String)>;

/// One call of `expand_interlaced_row` against the references and the model's `expand` answer.
fn judge_row(c: &RowCase, model_ans: &str) -> Verdict {
    let imp = impl_expand(c);
    if !BITS.contains(&c.bits) {
        // not a PNG pixel size: the property says nothing; the model must still mirror the panics
        if show(&imp) != model_ans {
            return Some((
                "model",
                format!("expand/model/bits{}", c.bits),
                format!("expandPass (model) answers {} but expand_interlaced_row gives {}", short(model_ans), short(&show(&imp))),
            ));
        }
        return None;
    }
    let want = ref_expand_row(c, false);
    let want_or = ref_expand_row(c, true);
    let stale = c.bits < 8 && want_or != want && imp == want_or;
    if c.in_domain() && imp != want {
        let what = match (&imp, &want) {
            (Some(a), Some(b)) => {
                let byte = a.iter().zip(b).position(|(x, y)| x != y).unwrap_or(0);
                format!(
                    "expand_interlaced_row(bits={}, stride={}, pass={}, line={}, width={}): destination byte {} is {:#04x}, \
                     the specification gives {:#04x} (previous contents {:#04x}){}",
                    c.bits, c.stride, c.pass, c.line, c.width, byte, a[byte], b[byte], c.img[byte],
                    if stale { " — the pixel was OR-ed into the stale bits" } else { "" }
                )
            }
            _ => format!("expand_interlaced_row(bits={}, pass={}, line={}, width={}) panicked on a row that fits", c.bits, c.pass, c.line, c.width),
        };
        let key = if stale { format!("expand/subbyte-or/bits{}", c.bits) } else { format!("expand/bits{}", c.bits) };
        return Some(("oracle", key, what));
    }
    if show(&imp) != model_ans {
        if stale {
            // partial / over-long row, but the same stale-bit dependence
            return Some((
                "oracle",
                format!("expand/subbyte-or/bits{}", c.bits),
                format!("expand_interlaced_row(bits={}, pass={}, line={}, width={}) OR-ed pixels into stale destination bits", c.bits, c.pass, c.line, c.width),
            ));
        }
        return Some((
            "model",
            format!("expand/model/bits{}", c.bits),
            format!("expandPass (model) answers {} but expand_interlaced_row gives {}", short(model_ans), short(&show(&imp))),
        ));
    }
    None
}

fn short(s: &str) -> String {
    if s.len() > 48 {
        format!("{}…({} hex digits)", &s[..48], s.len())
    } else {
        s.to_string()
    }
}

/// A whole image: every row in order.  On an oracle failure the first offending row is isolated
/// and returned as a single-row case.
fn judge_img(c: &ImgCase, model_ans: &str) -> Option<(&'static str, String, String, J)> {
    let infos = spec_rows(c.w as u64, c.h as u64, usize::MAX);
    let mut img = c.img.clone();
    let mut panicked = false;
    for (r, &(pass, line, width)) in infos.iter().enumerate() {
        let rc = RowCase { bits: c.bits, stride: c.stride, pass, line, width, img: std::mem::take(&mut img), row: c.rows[r].clone() };
        match impl_expand(&rc) {
            Some(v) => img = v,
            None => {
                panicked = true;
                img = rc.img;
                break;
            }
        }
    }
    let want = ref_deinterlace(c, false);
    if panicked || img != want {
        // locate the first row whose expansion is wrong, starting again from the pre-fill
        let mut state = c.img.clone();
        for r in 0..infos.len() {
            let rc = c.row_case(&state, r);
            let imp = impl_expand(&rc);
            let exp = ref_expand_row(&rc, false);
            if imp != exp {
                // the model's answer is only consulted when the isolated row is outside the oracle's domain
                let ans = if rc.in_domain() { vec![String::new()] } else { model::ask_one(&[rc.line_with("expand")]) };
                if let Some((kind, key, what)) = judge_row(&rc, &ans[0]) {
                    return Some((kind, key, format!("{}x{} image, row {} of {}: {}", c.w, c.h, r, infos.len(), what), rc.json()));
                }
            }
            match imp {
                Some(v) => state = v,
                None => break,
            }
        }
        return Some((
            "oracle",
            format!("expand/bits{}", c.bits),
            format!("{}x{} image, bits={}, stride={}: the de-interlaced image differs from the reference although every single row matched", c.w, c.h, c.bits, c.stride),
            c.json(),
        ));
    }
    if hex(&img) != model_ans {
        return Some((
            "model",
            format!("deint/model/bits{}", c.bits),
            format!("deinterlace (model) answers {} but the crate gives {}", short(model_ans), short(&hex(&img))),
            c.json(),
        ));
    }
    None
}

fn rows_kind(got: &[(u8, u32, u32)], want: &[(u8, u32, u32)]) -> &'static str {
    for (a, b) in got.iter().zip(want) {
        if a.0 != b.0 {
            return "pass";
        }
        if a.1 != b.1 {
            return "line";
        }
        if a.2 != b.2 {
            return "width";
        }
    }
    "count"
}

fn show_rows(rs: &[(u8, u32, u32)]) -> String {
    if rs.is_empty() {
        return "-".into();
    }
    rs.iter().map(|r| format!("{}:{}:{}", r.0, r.1, r.2)).collect::<Vec<_>>().join(",")
}

#[cfg(png_verif)]
fn judge_geo(c: &GeoCase, model_ans: &str) -> Verdict {
    let max = c.max.unwrap_or(usize::MAX);
    let (w, h) = (c.w, c.h);
    let imp = match guarded(|| png::verif_hooks::adam7_rows(w, h, max)) {
        Ok(v) => v,
        Err(p) => return Some(("oracle", "rows/panic".into(), format!("Adam7Iterator::new({}, {}) panicked: {}", w, h, p))),
    };
    let want = spec_rows(w as u64, h as u64, max);
    if imp != want {
        let kind = rows_kind(&imp, &want);
        let at = imp.iter().zip(&want).position(|(a, b)| a != b).unwrap_or(imp.len().min(want.len()));
        return Some((
            "oracle",
            format!("rows/{}", kind),
            format!(
                "Adam7Iterator::new({}, {}): item {} is {:?}, the specification says {:?} ({} vs {} rows)",
                w, h, at, imp.get(at), want.get(at), imp.len(), want.len()
            ),
        ));
    }
    if model_ans == "MISMATCH" {
        return Some(("model", "rows/model-spec".into(), format!("model: iterRows {} {} differs from specRows", w, h)));
    }
    if show_rows(&imp) != model_ans {
        return Some(("model", "rows/model".into(), format!("iterRows (model) for {}x{} answers {} but the iterator gives {}", w, h, short(model_ans), short(&show_rows(&imp)))));
    }
    None
}

// ---------------------------------------------------------------------------------------------
// Generators
// ---------------------------------------------------------------------------------------------

fn boundary_values() -> Vec<u32> {
    let mut v: Vec<u64> = Vec::new();
    for k in 0..=32u32 {
        let p = 1u64 << k;
        for d in 0..=8u64 {
            v.push(p + d);
            v.push(p.saturating_sub(d));
        }
    }
    v.push((1 << 31) - 1);
    v.push((1 << 32) - 1);
    let mut v: Vec<u32> = v.into_iter().filter(|&x| x >= 1 && x <= u32::MAX as u64).map(|x| x as u32).collect();
    v.sort();
    v.dedup();
    v
}

fn gen_geo(ctx: &mut Ctx) -> Vec<GeoCase> {
    let mut rng = ctx.rng.fork(1);
    let mut out = Vec::new();
    let lim = ctx.n(64, 200) as u32;
    for w in 0..=lim {
        for h in 0..=lim {
            out.push(GeoCase { w, h, max: None });
        }
    }
    let b = boundary_values();
    let reps = ctx.n(1, 8);
    for &a in &b {
        for _ in 0..reps {
            // huge x small: the whole list is short, all seven passes are seen with huge widths / line counts
            let small = rng.range(1, 17) as u32;
            out.push(GeoCase { w: a, h: small, max: Some(4096) });
            out.push(GeoCase { w: small, h: a, max: Some(96) });
            let other = *rng.pick(&b);
            out.push(GeoCase { w: a, h: other, max: Some(64) });
            let r = rng.range(1, u32::MAX as u64) as u32;
            out.push(GeoCase { w: r, h: a, max: Some(32) });
        }
    }
    out
}

fn packed(w: u32, bits: u8) -> usize {
    (w as usize * bits as usize + 7) / 8
}

fn gen_img(rng: &mut Rng, bits: u8, w: u32, h: u32, stride_kind: usize, prefill_kind: usize) -> ImgCase {
    let pk = packed(w, bits);
    let stride = match stride_kind {
        0 => pk,
        1 => pk + 1,
        2 => pk + 7,
        _ => 2 * pk,
    };
    let len = match rng.below(10) {
        0 => (h as usize - 1) * stride + pk, // the last line is only as long as its pixels
        1 => h as usize * stride + 5,
        _ => h as usize * stride,
    };
    let img = match prefill_kind {
        0 => vec![0u8; len],
        1 => vec![0xFFu8; len],
        _ => rng.bytes(len),
    };
    let rows = spec_rows(w as u64, h as u64, usize::MAX)
        .iter()
        .map(|&(_, _, pw)| {
            let n = packed(pw, bits);
            if rng.chance(1, 6) {
                rng.class_bytes(n)
            } else {
                rng.bytes(n)
            }
        })
        .collect();
    ImgCase { bits, stride, w, h, img, rows, stride_kind, prefill_kind }
}

fn gen_imgs(ctx: &mut Ctx) -> Vec<ImgCase> {
    let mut rng = ctx.rng.fork(2);
    let mut out = Vec::new();
    let mut counter = 0usize;
    for &bits in &BITS {
        for w in 1..=17u32 {
            for h in 1..=17u32 {
                if ctx.quick() {
                    // three of the twelve (stride, pre-fill) combinations per image size: all three
                    // pre-fills with one stride kind, the stride kind cycling with the size
                    for j in 0..3 {
                        let k = (counter * 5 + j * 4) % 12;
                        out.push(gen_img(&mut rng, bits, w, h, k % 4, k / 4));
                    }
                    counter += 1;
                } else {
                    for k in 0..12 {
                        out.push(gen_img(&mut rng, bits, w, h, k % 4, k / 4));
                    }
                }
            }
        }
    }
    out
}

fn gen_rows(ctx: &mut Ctx) -> Vec<RowCase> {
    let mut rng = ctx.rng.fork(3);
    let n = ctx.n(3000, 40000);
    let mut out = Vec::with_capacity(n);
    for _ in 0..n {
        let bits = *rng.pick(&BITS);
        let pass = rng.range(1, 7) as u8;
        let line = rng.range(0, 4) as u32;
        let width = rng.range(1, 12) as u32;
        let (sc, sr, ci, ri) = SPEC[pass as usize - 1];
        let max_x = (width as u64 - 1) * ci + sc;
        let y = line as u64 * ri + sr;
        let need_line = packed(max_x as u32 + 1, bits);
        let stride = need_line + rng.usize(0, 9);
        let need = y as usize * stride + need_line;
        // mostly a fitting image; sometimes too short (panic expected), sometimes with slack
        let len = match rng.below(8) {
            0 => rng.usize(0, need),
            1 => need + rng.usize(0, 20),
            _ => need,
        };
        let img = match rng.below(3) {
            0 => vec![0u8; len],
            1 => vec![0xFFu8; len],
            _ => rng.bytes(len),
        };
        let exact = packed(width, bits);
        let rlen = match rng.below(8) {
            0 => rng.usize(0, exact), // short row: fewer pixels are stored
            1 => exact + rng.usize(1, 9),
            _ => exact,
        };
        out.push(RowCase { bits, stride, pass, line, width, img, row: rng.bytes(rlen) });
    }
    // pixel sizes PNG does not have (outside the property): only the model's panic modelling is compared
    for i in 0..ctx.n(60, 600) {
        let bits = [0u8, 3, 5, 6, 7, 12, 20][i % 7];
        let rlen = if i % 3 == 0 { 0 } else { rng.usize(1, 6) };
        let len = rng.usize(0, 40);
        out.push(RowCase {
            bits,
            stride: rng.usize(0, 6),
            pass: rng.range(1, 7) as u8,
            line: rng.range(0, 2) as u32,
            width: rng.range(1, 5) as u32,
            img: rng.bytes(len),
            row: rng.bytes(rlen),
        });
    }
    out
}

// ---------------------------------------------------------------------------------------------


// ---------------------------------------------------------------------------------------------
// Reader level: the rows `Reader::next_interlaced_row` REPORTS for interlaced stills and for APNG frames (sub-frames
// narrower / lower than the canvas, separate default image) are the specification's rows of the FRAME's own size, and
// scattering them with `png::expand_interlaced_row` at the frame's own stride gives the frame's pixels.
// (The glue between the pass iterator and the Reader - which width and height the iterator is created with for a
// sub-frame - is not visible to the iterator-level part above.)
// ---------------------------------------------------------------------------------------------

fn reader_rows_part(ctx: &mut Ctx) {
    use crate::refpng;
    let mut rng = ctx.rng.fork(1507);
    let n = ctx.n(120, 900);
    for k in 0..n {
        let mut a = refpng::random_anim(&mut rng, if k % 4 == 0 { 40 } else { 12 }, 3);
        a.interlace = true;
        if k % 3 == 0 {
            // force a sub-frame strictly narrower AND lower than the canvas where the canvas allows it
            if a.w >= 2 && a.h >= 2 {
                if let Some(f) = a.frames.last_mut() {
                    let fw = rng.range(1, (a.w - 1) as u64) as u32;
                    let fh = rng.range(1, (a.h - 1) as u64) as u32;
                    f.img = refpng::Img::random(&mut rng, a.color, a.depth, fw, fh);
                    f.x = rng.range(0, (a.w - fw) as u64) as u32;
                    f.y = rng.range(0, (a.h - fh) as u64) as u32;
                }
                if a.default_image.is_none() && a.frames.len() == 1 {
                    // the IDAT frame of an animation covers the canvas: add a full first frame in front
                    let full = refpng::AnimFrame { x: 0, y: 0, img: refpng::Img::random(&mut rng, a.color, a.depth, a.w, a.h), ..a.frames[0].clone() };
                    a.frames.insert(0, full);
                }
            }
        }
        let (chunks, expected) = refpng::anim_chunks(&a, &mut rng);
        let file = refpng::serialize(&chunks);
        let bits = (refpng::samples(a.color) * a.depth as usize) as u8;
        let narrower = expected.iter().any(|e| e.w < a.w || e.h < a.h);
        ctx.rep.eval(true, fnv64(&file));
        ctx.rep.count("reader rows: file", if narrower { "APNG with a sub-frame smaller than the canvas" } else { "frames of canvas size" });
        let case = || J::obj().set("op", J::s("reader-rows")).set("file", J::s(&hex(&file)));
        let res = guarded(|| -> Result<(), (String, String)> {
            let mut d = png::Decoder::new(std::io::Cursor::new(file.clone()));
            d.set_transformations(png::Transformations::IDENTITY);
            let mut r = d.read_info().map_err(|e| ("reader-rows/rejected".to_string(), format!("read_info: {}", e)))?;
            for (fi, e) in expected.iter().enumerate() {
                if fi > 0 {
                    r.next_frame_info().map_err(|e| ("reader-rows/rejected".to_string(), format!("next_frame_info for frame {}: {}", fi, e)))?;
                }
                let want = spec_rows(e.w as u64, e.h as u64, usize::MAX);
                let stride = (e.w as usize * bits as usize + 7) / 8;
                let mut img = vec![0u8; stride * e.h as usize];
                let mut got = Vec::new();
                loop {
                    let row = r.next_interlaced_row().map_err(|er| ("reader-rows/rejected".to_string(), format!("frame {} ({}x{} on a {}x{} canvas), row {}: {}", fi, e.w, e.h, a.w, a.h, got.len(), er)))?;
                    let row = match row { Some(x) => x, None => break };
                    let info = match row.interlace() { png::InterlaceInfo::Adam7(i) => *i, _ => return Err(("reader-rows/not-adam7".to_string(), "a row of an interlaced image is reported as not interlaced".to_string())) };
                    // the fields are not public: read them from the Debug form "Adam7Info { pass: 1, line: 0, width: 4 }"
                    let dbg = format!("{:?}", info);
                    let nums: Vec<u64> = dbg.split(|c: char| !c.is_ascii_digit()).filter(|x| !x.is_empty()).filter_map(|x| x.parse().ok()).collect();
                    // leading "7" of "Adam7Info"
                    let t = (nums.get(1).copied().unwrap_or(0) as u8, nums.get(2).copied().unwrap_or(0) as u32, nums.get(3).copied().unwrap_or(0) as u32);
                    let idx = got.len();
                    if want.get(idx) != Some(&t) {
                        return Err(("reader-rows/geometry".to_string(), format!("frame {} ({}x{} on a {}x{} canvas): row {} reported as (pass, line, width) = {:?}, the specification says {:?}", fi, e.w, e.h, a.w, a.h, idx, t, want.get(idx))));
                    }
                    let need = (t.2 as usize * bits as usize + 7) / 8;
                    if row.data().len() != need {
                        return Err(("reader-rows/row-length".to_string(), format!("frame {} row {}: {} bytes returned, a row of {} pixels of {} bits has {}", fi, idx, row.data().len(), t.2, bits, need)));
                    }
                    png::expand_interlaced_row(&mut img, stride, row.data(), &info, bits);
                    got.push(t);
                    if got.len() > want.len() + 8 { break; }
                }
                if got.len() != want.len() {
                    return Err(("reader-rows/count".to_string(), format!("frame {} ({}x{}): {} rows delivered, the specification has {}", fi, e.w, e.h, got.len(), want.len())));
                }
                if img != e.pixels {
                    return Err(("reader-rows/pixels".to_string(), format!("frame {} ({}x{} on a {}x{} canvas): the rows scattered with expand_interlaced_row do not give the frame's pixels", fi, e.w, e.h, a.w, a.h)));
                }
            }
            Ok(())
        });
        match res {
            Ok(Ok(())) => {}
            Ok(Err((key, what))) => ctx.rep.violation("oracle", &key, &what, case()),
            Err(p) => ctx.rep.violation("oracle", "reader-rows/panic", &format!("reading the rows of an interlaced file panicked: {}", p), case()),
        }
    }
}

pub fn run(ctx: &mut Ctx) {
    ctx.rep.rule = "geometry: all (w, h) in [0, 64]^2 (quick) / [0, 200]^2 (thorough) in full, plus boundary values \
        2^k, 2^k +- 1..8, 2^31 - 1, 2^32 - 1 paired with small / boundary / random partners, truncated with take(max); \
        scatter: 9 pixel sizes x all (w, h) in [1, 17]^2 x stride kinds {packed, +1, +7, x2} x destination pre-fill {00, ff, random} \
        (quick: 3 of the 12 stride/pre-fill combinations per size, cycling) with random row contents, every row in order; \
        single rows: random pass, line, width, stride, image length (incl. too short) and row length (incl. short / long); \
        a case is non-trivial when w * h >= 2 (single rows: width >= 2); distinct = hash of the canonical model line"
        .into();
    if !oracle_selfcheck() {
        ctx.rep.violation("model", "oracle-selfcheck", "harness bug: closed-form residue count differs from the brute-force count", J::Null);
        return;
    }
    let imgs = gen_imgs(ctx);
    let rows = gen_rows(ctx);
    #[cfg(png_verif)]
    let geos = gen_geo(ctx);
    #[cfg(not(png_verif))]
    let geos: Vec<GeoCase> = {
        ctx.rep.notes.push("hooks unavailable: the pass iterator is not reachable directly, geometry part skipped (scatter part runs on the public API)".into());
        let _ = gen_geo as fn(&mut Ctx) -> Vec<GeoCase>;
        Vec::new()
    };

    // one batch for the model
    let mut lines: Vec<String> = Vec::new();
    lines.extend(geos.iter().map(|c| c.line()));
    let dims_at = lines.len();
    let _ = dims_at;
    let huge: Vec<&GeoCase> = geos.iter().filter(|c| c.max.is_some()).collect();
    lines.extend(huge.iter().map(|c| format!("c15 dims {} {}", c.w, c.h)));
    let imgs_at = lines.len();
    lines.extend(imgs.iter().map(|c| c.line_with("deint")));
    let rows_at = lines.len();
    lines.extend(rows.iter().map(|c| c.line_with("expand")));
    let answers = model::ask(&lines);

    // geometry
    #[cfg(png_verif)]
    {
        let mut all_ok = true;
        for (i, c) in geos.iter().enumerate() {
            ctx.rep.eval(c.w as u64 * c.h as u64 >= 2, fnv64(lines[i].as_bytes()));
            ctx.rep.model_compared += 1;
            ctx.rep.count("geometry", if c.max.is_none() { "exhaustive small" } else { "boundary / huge" });
            if c.max.is_none() {
                ctx.rep.count("w mod 8 (geometry)", &(c.w % 8).to_string());
                ctx.rep.count("h mod 8 (geometry)", &(c.h % 8).to_string());
            }
            if let Some((kind, key, what)) = judge_geo(c, &answers[i]) {
                all_ok = false;
                ctx.rep.violation(kind, &key, &what, c.json());
            }
        }
        for (j, c) in huge.iter().enumerate() {
            let want = spec_dims(c.w as u64, c.h as u64).iter().map(|d| format!("{}:{}", d.0, d.1)).collect::<Vec<_>>().join(",");
            if answers[dims_at + j] != want {
                all_ok = false;
                ctx.rep.violation(
                    "model",
                    "rows/model-dims",
                    &format!("passW/passH (model) for {}x{} answer {} but the specification's counts are {}", c.w, c.h, answers[dims_at + j], want),
                    c.json(),
                );
            }
        }
        if all_ok {
            let lim = ctx.n(64, 200);
            ctx.rep.exhaustive.push(format!("Adam7Iterator on all (w, h) in [0, {}]^2 vs iterRows/specRows (model) and the pattern-counting oracle", lim));
        }
        for c in geos.iter().filter(|c| c.max.is_some() && c.w > 1 << 20).take(2) {
            ctx.rep.sample(c.json());
        }
    }

    // whole images
    for (i, c) in imgs.iter().enumerate() {
        ctx.rep.eval(c.w as u64 * c.h as u64 >= 2, fnv64(lines[imgs_at + i].as_bytes()));
        ctx.rep.model_compared += 1;
        ctx.rep.count("bits", &format!("{:02}", c.bits));
        ctx.rep.count("stride", STRIDE_KINDS[c.stride_kind]);
        ctx.rep.count("prefill", PREFILL_KINDS[c.prefill_kind]);
        ctx.rep.count("w mod 8", &(c.w % 8).to_string());
        ctx.rep.count("h mod 8", &(c.h % 8).to_string());
        if let Some((kind, key, what, case)) = judge_img(c, &answers[imgs_at + i]) {
            ctx.rep.count("failing images by bits/prefill", &format!("{:02}/{}", c.bits, PREFILL_KINDS[c.prefill_kind]));
            ctx.rep.violation(kind, &key, &what, case);
        }
    }
    // single rows
    for (i, c) in rows.iter().enumerate() {
        ctx.rep.eval(c.width >= 2, fnv64(lines[rows_at + i].as_bytes()));
        ctx.rep.model_compared += 1;
        ctx.rep.count(
            "single row",
            if !BITS.contains(&c.bits) {
                "not a PNG pixel size"
            } else if c.in_domain() {
                "fits"
            } else if ref_expand_row(c, false).is_none() {
                "out of range (panic)"
            } else {
                "short / long row"
            },
        );
        if let Some((kind, key, what)) = judge_row(c, &answers[rows_at + i]) {
            // shrink only the first case of a class (the report keeps one case per class)
            let seen = ctx.rep.violation_counts.contains_key(&format!("{}:{}", kind, key));
            let small = if seen { c.clone() } else { shrink_row(c, &key) };
            ctx.rep.violation(kind, &key, &what, small.json());
        }
    }
    for c in imgs.iter().filter(|c| c.w == 3 && c.h == 3 && c.bits == 2).take(2) {
        ctx.rep.sample(c.json());
    }
    for c in rows.iter().filter(|c| c.in_domain() && c.width >= 2 && c.img.len() <= 24).take(2) {
        ctx.rep.sample(c.json());
    }
    reader_rows_part(ctx);
}

/// shrink a failing single-row case: fewer pixels, zeroed row bytes, simpler destination bytes
fn shrink_row(c: &RowCase, class: &str) -> RowCase {
    let fails = |x: &RowCase| {
        let ans = model::ask_one(&[x.line_with("expand")]);
        judge_row(x, &ans[0]).map(|(_, k, _)| k == class).unwrap_or(false)
    };
    let mut best = c.clone();
    let mut budget = 60;
    while best.width > 1 && budget > 0 {
        let mut t = best.clone();
        t.width -= 1;
        t.row.truncate(packed(t.width, t.bits));
        budget -= 1;
        if fails(&t) {
            best = t;
        } else {
            break;
        }
    }
    for i in 0..best.row.len().min(16) {
        if budget == 0 {
            break;
        }
        if best.row[i] != 0 {
            let mut t = best.clone();
            t.row[i] = 0;
            budget -= 1;
            if fails(&t) {
                best = t;
            }
        }
    }
    best
}

pub fn replay(ctx: &mut Ctx, case: &J) {
    match case.get("op").and_then(|o| o.as_str()) {
        Some("rows") => {
            #[cfg(png_verif)]
            if let Some(c) = GeoCase::from_json(case) {
                let ans = model::ask_one(&[c.line()]);
                ctx.rep.eval(true, fnv64(c.line().as_bytes()));
                if let Some((kind, key, what)) = judge_geo(&c, &ans[0]) {
                    ctx.rep.violation(kind, &key, &what, c.json());
                }
            }
            #[cfg(not(png_verif))]
            {
                let _ = GeoCase::from_json as fn(&J) -> Option<GeoCase>;
                ctx.rep.notes.push("hooks unavailable: geometry case not replayed".into());
            }
        }
        Some("expand") => {
            if let Some(c) = RowCase::from_json(case) {
                if !(1..=7).contains(&c.pass) || c.width == 0 {
                    return;
                }
                let ans = model::ask_one(&[c.line_with("expand")]);
                ctx.rep.eval(true, fnv64(c.line_with("expand").as_bytes()));
                if let Some((kind, key, what)) = judge_row(&c, &ans[0]) {
                    ctx.rep.violation(kind, &key, &what, c.json());
                }
            }
        }
        Some("deint") => {
            if let Some(c) = ImgCase::from_json(case) {
                let infos = spec_rows(c.w as u64, c.h as u64, usize::MAX);
                let fits = c.w >= 1
                    && c.h >= 1
                    && c.rows.len() == infos.len()
                    && c.rows.iter().zip(&infos).all(|(r, i)| r.len() >= packed(i.2, c.bits))
                    && c.stride >= packed(c.w, c.bits)
                    && c.img.len() >= (c.h as usize - 1) * c.stride + packed(c.w, c.bits);
                if !fits {
                    return;
                }
                let ans = model::ask_one(&[c.line_with("deint")]);
                ctx.rep.eval(true, fnv64(c.line_with("deint").as_bytes()));
                if let Some((kind, key, what, j)) = judge_img(&c, &ans[0]) {
                    ctx.rep.violation(kind, &key, &what, j);
                }
            }
        }
        _ => {}
    }
}
