//! C20 — text payload coding is exact and decompression of text is bounded on request.
//!
//! Tie B for `PngVerif/Model/Text.lean`, through the public API only:
//! `png::text_metadata::{TEXtChunk, ZTXtChunk, ITXtChunk, EncodableTextChunk, DECOMPRESSION_LIMIT}`,
//! `png::Encoder::add_{text,ztxt,itxt}_chunk`, `Writer::write_text_chunk`, and `png::Decoder` →
//! `reader.info().{uncompressed_latin1_text, compressed_latin1_text, utf8_text}`.
//!
//! Chunks in the `Compressed` state with an arbitrary payload can only be obtained by decoding a
//! file, so the harness has its own minimal PNG writer (signature, IHDR 1x1 gray8, one IDAT holding
//! a stored-deflate zlib stream, IEND; CRC-32 and Adler-32 computed here) into which arbitrary,
//! possibly malformed, text chunk bodies are injected before or after IDAT.  A malformed text chunk
//! is NOT benign for the decoder (`parse_chunk`, stream.rs:1024-1037 does not list tEXt/zTXt/iTXt): it
//! makes `read_info`/`finish` fail with `DecodingError::Format`, whose `Display` text identifies the
//! `TextDecodingError` variant.  That variant is what is compared with the model's error.
//!
//! Oracles are independent of the model: Latin-1 via `char::from(u8)` / `u8::try_from(c as u32)`,
//! UTF-8 via `std::str::from_utf8`, zlib via `miniz_oxide`, chunk layout via a reference splitter
//! written from the PNG specification, CRC by the table below.
//!
//! The model's codec is a toy (`0x78 :: x`), see `PngVerif/Driver/C20.lean`: where a compressed payload
//! is involved the model is given the toy form of the text the crate was given as a real zlib stream
//! (`00` for a corrupt stream) and results / texts / state kinds are compared, never payload bytes.
//!
//! Allocation: the peak of live heap bytes during `decompress_text_with_limit(limit)` is measured with the counting global
//! allocator and held against 6*limit + 256 KiB (bombs of up to 64 MiB behind limits of 0 .. 1 MiB), next to the size of what
//! the call stores (≤ limit) and that the call fails without changing the chunk when the limit is too small.
use crate::json::J;
use crate::model;
use crate::report::Ctx;
use crate::rng::{fnv64, Rng};
use crate::util::{guarded, hex, unhex};
use png::text_metadata::{EncodableTextChunk, ITXtChunk, TEXtChunk, ZTXtChunk, DECOMPRESSION_LIMIT};
use std::io::{Cursor, Write};

type Fail = (&'static str, String, String);

// ---------------------------------------------------------------------------------------------
// own PNG writer
// ---------------------------------------------------------------------------------------------

fn crc32(data: &[u8]) -> u32 {
    let mut c = 0xFFFF_FFFFu32;
    for &b in data {
        c ^= b as u32;
        for _ in 0..8 {
            c = if c & 1 != 0 { 0xEDB8_8320 ^ (c >> 1) } else { c >> 1 };
        }
    }
    !c
}

fn adler32(data: &[u8]) -> u32 {
    let (mut a, mut b) = (1u32, 0u32);
    for &x in data {
        a = (a + x as u32) % 65521;
        b = (b + a) % 65521;
    }
    (b << 16) | a
}

/// zlib stream made of stored blocks only
fn zlib_stored(data: &[u8]) -> Vec<u8> {
    let mut out = vec![0x78, 0x01];
    let mut blocks: Vec<&[u8]> = data.chunks(65535).collect();
    if blocks.is_empty() {
        blocks.push(&[]);
    }
    let n = blocks.len();
    for (i, b) in blocks.iter().enumerate() {
        out.push(if i + 1 == n { 1 } else { 0 });
        out.extend_from_slice(&(b.len() as u16).to_le_bytes());
        out.extend_from_slice(&(!(b.len() as u16)).to_le_bytes());
        out.extend_from_slice(b);
    }
    out.extend_from_slice(&adler32(data).to_be_bytes());
    out
}

fn zlib_level(data: &[u8], level: u32) -> Vec<u8> {
    let mut e = flate2::write::ZlibEncoder::new(Vec::new(), flate2::Compression::new(level));
    e.write_all(data).unwrap();
    e.finish().unwrap()
}

fn put_chunk(out: &mut Vec<u8>, ty: &[u8; 4], body: &[u8]) {
    out.extend_from_slice(&(body.len() as u32).to_be_bytes());
    let start = out.len();
    out.extend_from_slice(ty);
    out.extend_from_slice(body);
    let c = crc32(&out[start..]);
    out.extend_from_slice(&c.to_be_bytes());
}

/// 1x1 8-bit grayscale image with extra chunks before and after the single IDAT
fn build_png(before: &[([u8; 4], Vec<u8>)], after: &[([u8; 4], Vec<u8>)]) -> Vec<u8> {
    let mut f = vec![137, 80, 78, 71, 13, 10, 26, 10];
    put_chunk(&mut f, b"IHDR", &[0, 0, 0, 1, 0, 0, 0, 1, 8, 0, 0, 0, 0]);
    for (t, b) in before {
        put_chunk(&mut f, t, b);
    }
    put_chunk(&mut f, b"IDAT", &zlib_stored(&[0, 0x55]));
    for (t, b) in after {
        put_chunk(&mut f, t, b);
    }
    put_chunk(&mut f, b"IEND", &[]);
    f
}

fn kind_type(kind: char) -> [u8; 4] {
    match kind {
        't' => *b"tEXt",
        'z' => *b"zTXt",
        _ => *b"iTXt",
    }
}

// ---------------------------------------------------------------------------------------------
// calling the crate
// ---------------------------------------------------------------------------------------------

#[derive(Clone, Debug, Default)]
struct Texts {
    t: Vec<TEXtChunk>,
    z: Vec<ZTXtChunk>,
    i: Vec<ITXtChunk>,
}

fn dec_class(e: &png::DecodingError) -> String {
    match e {
        png::DecodingError::Format(f) => {
            let m = f.to_string();
            let table = [
                ("Unrepresentable data", "unrepresentable"),
                ("Keyword empty or longer", "invalidKeywordSize"),
                ("No null separator", "missingNullSeparator"),
                ("Invalid compressed text data", "inflationError"),
                ("Out of decompression space", "outOfDecompressionSpace"),
                ("unrecognized byte as compression method", "invalidCompressionMethod"),
                ("as a compression flag", "invalidCompressionFlag"),
                ("No compression flag", "missingCompressionFlag"),
            ];
            // the variant name from the Debug form first (a reworded message does not change it), the Display text as a fall-back
            let dbg = format!("{:?}", f);
            for v in ["Unrepresentable", "InvalidKeywordSize", "MissingNullSeparator", "InflationError", "OutOfDecompressionSpace", "InvalidCompressionMethod", "InvalidCompressionFlag", "MissingCompressionFlag"] {
                if dbg.contains(&format!("BadTextEncoding({})", v)) {
                    let mut n = v.to_string();
                    n[..1].make_ascii_lowercase();
                    return format!("err:{}", n);
                }
            }
            for (pat, name) in table {
                if m.contains(pat) {
                    return format!("err:{}", name);
                }
            }
            format!("format:{}", m)
        }
        png::DecodingError::IoError(e) => format!("io:{:?}", e.kind()),
        png::DecodingError::Parameter(p) => format!("parameter:{}", p),
        png::DecodingError::LimitsExceeded => "limits".to_string(),
    }
}

fn enc_class(e: &png::EncodingError) -> String {
    match e {
        png::EncodingError::Format(f) => {
            let m = f.to_string();
            let dbg = format!("{:?}", f);
            if dbg.contains("BadTextEncoding(Unrepresentable)") {
                "err:unrepresentable".into()
            } else if dbg.contains("BadTextEncoding(InvalidKeywordSize)") {
                "err:invalidKeywordSize".into()
            } else if dbg.contains("BadTextEncoding(CompressionError)") {
                "err:compressionError".into()
            } else if m.contains("cannot be encoded into valid ISO 8859-1") {
                "err:unrepresentable".into()
            } else if m.contains("Invalid keyword size") {
                "err:invalidKeywordSize".into()
            } else if m.contains("Unable to compress") {
                "err:compressionError".into()
            } else {
                format!("format:{}", m)
            }
        }
        png::EncodingError::IoError(e) => format!("io:{:?}", e.kind()),
        png::EncodingError::Parameter(p) => format!("parameter:{}", p),
        png::EncodingError::LimitsExceeded => "limits".to_string(),
    }
}

/// Decode a whole file and collect the text chunks seen before and after the image data.
fn decode_texts(file: &[u8]) -> Result<Result<Texts, String>, String> {
    let file = file.to_vec();
    guarded(move || {
        let dec = png::Decoder::new(Cursor::new(file));
        let mut reader = match dec.read_info() {
            Ok(r) => r,
            Err(e) => return Err(dec_class(&e)),
        };
        let mut buf = vec![0u8; reader.output_buffer_size()];
        if let Err(e) = reader.next_frame(&mut buf) {
            return Err(dec_class(&e));
        }
        if let Err(e) = reader.finish() {
            return Err(dec_class(&e));
        }
        let info = reader.info();
        Ok(Texts {
            t: info.uncompressed_latin1_text.clone(),
            z: info.compressed_latin1_text.clone(),
            i: info.utf8_text.clone(),
        })
    })
}

/// Inject one text chunk body into an own-built file and decode it.
fn decode_body(kind: char, body: &[u8], after_idat: bool) -> Result<Result<Texts, String>, String> {
    let c = vec![(kind_type(kind), body.to_vec())];
    let f = if after_idat { build_png(&[], &c) } else { build_png(&c, &[]) };
    decode_texts(&f)
}

/// `EncodableTextChunk::encode` into a vector; checks the chunk framing with our own CRC and
/// returns the chunk data.
fn encode_body<T: EncodableTextChunk>(c: &T, ty: &[u8; 4]) -> Result<Result<Vec<u8>, String>, String> {
    guarded(|| {
        let mut v = Vec::new();
        match c.encode(&mut v) {
            Err(e) => {
                if v.is_empty() {
                    Err(enc_class(&e))
                } else {
                    Err(format!("{}+wrote{}", enc_class(&e), v.len()))
                }
            }
            Ok(()) => {
                if v.len() < 12 {
                    return Err("framing:short".into());
                }
                let n = u32::from_be_bytes([v[0], v[1], v[2], v[3]]) as usize;
                if v.len() != n + 12 || &v[4..8] != ty {
                    return Err("framing:length-or-type".into());
                }
                let crc = u32::from_be_bytes([v[n + 8], v[n + 9], v[n + 10], v[n + 11]]);
                if crc != crc32(&v[4..n + 8]) {
                    return Err("framing:crc".into());
                }
                Ok(v[8..n + 8].to_vec())
            }
        }
    })
}

/// Observable state of the private `OptCompressed` field through `Debug` (derived, public).
fn is_compressed_dbg(dbg: &str) -> bool {
    dbg.contains("text: Compressed(")
}

// ---------------------------------------------------------------------------------------------
// independent oracles
// ---------------------------------------------------------------------------------------------

fn ref_latin1_decode(b: &[u8]) -> String {
    b.iter().map(|&x| char::from(x)).collect()
}

fn ref_latin1_encode(s: &str) -> Option<Vec<u8>> {
    s.chars().map(|c| u8::try_from(c as u32).ok()).collect()
}

fn ref_inflate(z: &[u8]) -> Option<Vec<u8>> {
    miniz_oxide::inflate::decompress_to_vec_zlib(z).ok()
}

fn split0(b: &[u8]) -> Option<(&[u8], &[u8])> {
    let i = b.iter().position(|&x| x == 0)?;
    Some((&b[..i], &b[i + 1..]))
}

/// fields of a text chunk as the PNG specification lays them out (11.3.4.3-5)
#[derive(Clone, Debug, PartialEq)]
enum RefChunk {
    T { kw: String, text: String },
    Z { kw: String, payload: Vec<u8> },
    I { kw: String, compressed: bool, lang: String, tk: String, text: Option<String>, payload: Vec<u8> },
}

fn ref_parse(kind: char, body: &[u8]) -> Option<RefChunk> {
    let (kw, rest) = split0(body)?;
    if kw.is_empty() || kw.len() > 79 {
        return None;
    }
    let kw = ref_latin1_decode(kw);
    match kind {
        't' => Some(RefChunk::T { kw, text: ref_latin1_decode(rest) }),
        'z' => {
            if rest.first() != Some(&0) {
                return None;
            }
            Some(RefChunk::Z { kw, payload: rest[1..].to_vec() })
        }
        _ => {
            if rest.len() < 2 || rest[0] > 1 {
                return None;
            }
            let compressed = rest[0] == 1;
            if compressed && rest[1] != 0 {
                return None;
            }
            let (lang, rest2) = split0(&rest[2..])?;
            if !lang.is_ascii() {
                return None;
            }
            let (tk, text) = split0(rest2)?;
            let tk = std::str::from_utf8(tk).ok()?.to_string();
            let lang = std::str::from_utf8(lang).ok()?.to_string();
            if compressed {
                Some(RefChunk::I { kw, compressed, lang, tk, text: None, payload: text.to_vec() })
            } else {
                let t = std::str::from_utf8(text).ok()?.to_string();
                Some(RefChunk::I { kw, compressed, lang, tk, text: Some(t), payload: vec![] })
            }
        }
    }
}

fn shex(s: &str) -> String {
    hex(s.as_bytes())
}

// ---------------------------------------------------------------------------------------------
// cases
// ---------------------------------------------------------------------------------------------

#[derive(Clone, Debug)]
struct Item {
    kind: char,
    kw: String,
    text: String,
    tail: bool,
    flag: bool,
    lang: String,
    tk: String,
}

#[derive(Clone, Debug)]
enum Case {
    /// Latin-1 bytes -> string -> bytes, through tEXt and zTXt
    L1 { bytes: Vec<u8> },
    /// any string -> Latin-1 encoding outcome
    L1Enc { s: String },
    /// an arbitrary chunk body injected into an own-built file
    Body { kind: char, body: Vec<u8>, after: bool },
    /// a chunk object built through the public API, encoded, and read back
    Enc { it: Item, pre: bool },
    /// the crate's encoder writes a file with several chunks, the crate's decoder reads it
    File { items: Vec<Item> },
    /// like `File`, but item `bad` cannot be represented: the encoder must refuse it (`add_*_chunk` or
    /// `write_header` for a head item, `write_text_chunk` for a tail item) and write nothing of it
    Refuse { items: Vec<Item>, bad: usize },
    /// a (possibly invalid) compressed payload x a limit
    Inflate { kind: char, payload: Vec<u8>, limit: usize, strict: bool },
    /// operation sequence on one chunk object
    Ops { kind: char, text: String, start_compressed: bool, ops: Vec<String> },
}

fn item_json(it: &Item) -> J {
    J::obj()
        .set("kind", J::s(&it.kind.to_string()))
        .set("kw", J::s(&shex(&it.kw)))
        .set("text", J::s(&shex(&it.text)))
        .set("tail", J::Bool(it.tail))
        .set("flag", J::Bool(it.flag))
        .set("lang", J::s(&shex(&it.lang)))
        .set("tk", J::s(&shex(&it.tk)))
}

fn jbool(j: &J, k: &str) -> Option<bool> {
    match j.get(k)? {
        J::Bool(b) => Some(*b),
        _ => None,
    }
}
fn jstr(j: &J, k: &str) -> Option<String> {
    String::from_utf8(unhex(j.get(k)?.as_str()?)?).ok()
}
fn jbytes(j: &J, k: &str) -> Option<Vec<u8>> {
    unhex(j.get(k)?.as_str()?)
}
fn jkind(j: &J) -> Option<char> {
    j.get("kind")?.as_str()?.chars().next()
}

fn item_from(j: &J) -> Option<Item> {
    Some(Item {
        kind: jkind(j)?,
        kw: jstr(j, "kw")?,
        text: jstr(j, "text")?,
        tail: jbool(j, "tail")?,
        flag: jbool(j, "flag")?,
        lang: jstr(j, "lang")?,
        tk: jstr(j, "tk")?,
    })
}

impl Case {
    fn json(&self) -> J {
        match self {
            Case::L1 { bytes } => J::obj().set("op", J::s("l1")).set("bytes", J::s(&hex(bytes))),
            Case::L1Enc { s } => J::obj().set("op", J::s("l1enc")).set("s", J::s(&shex(s))),
            Case::Body { kind, body, after } => J::obj()
                .set("op", J::s("body"))
                .set("kind", J::s(&kind.to_string()))
                .set("body", J::s(&hex(body)))
                .set("after", J::Bool(*after)),
            Case::Enc { it, pre } => J::obj().set("op", J::s("enc")).set("item", item_json(it)).set("pre", J::Bool(*pre)),
            Case::File { items } => J::obj().set("op", J::s("file")).set("items", J::Arr(items.iter().map(item_json).collect())),
            Case::Refuse { items, bad } => J::obj()
                .set("op", J::s("refuse"))
                .set("items", J::Arr(items.iter().map(item_json).collect()))
                .set("bad", J::i(*bad as u64)),
            Case::Inflate { kind, payload, limit, strict } => J::obj()
                .set("op", J::s("inflate"))
                .set("kind", J::s(&kind.to_string()))
                .set("payload", J::s(&hex(payload)))
                .set("limit", J::i(*limit as u64))
                .set("strict", J::Bool(*strict)),
            Case::Ops { kind, text, start_compressed, ops } => J::obj()
                .set("op", J::s("ops"))
                .set("kind", J::s(&kind.to_string()))
                .set("text", J::s(&shex(text)))
                .set("start_compressed", J::Bool(*start_compressed))
                .set("ops", J::s(&ops.join(","))),
        }
    }

    fn from_json(j: &J) -> Option<Case> {
        match j.get("op")?.as_str()? {
            "l1" => Some(Case::L1 { bytes: jbytes(j, "bytes")? }),
            "l1enc" => Some(Case::L1Enc { s: jstr(j, "s")? }),
            "body" => Some(Case::Body { kind: jkind(j)?, body: jbytes(j, "body")?, after: jbool(j, "after")? }),
            "enc" => Some(Case::Enc { it: item_from(j.get("item")?)?, pre: jbool(j, "pre")? }),
            "file" => match j.get("items")? {
                J::Arr(a) => Some(Case::File { items: a.iter().map(item_from).collect::<Option<Vec<_>>>()? }),
                _ => None,
            },
            "refuse" => match j.get("items")? {
                J::Arr(a) => Some(Case::Refuse {
                    items: a.iter().map(item_from).collect::<Option<Vec<_>>>()?,
                    bad: j.get("bad")?.as_i64()? as usize,
                }),
                _ => None,
            },
            "inflate" => Some(Case::Inflate {
                kind: jkind(j)?,
                payload: jbytes(j, "payload")?,
                limit: j.get("limit")?.as_i64()? as usize,
                strict: jbool(j, "strict")?,
            }),
            "ops" => Some(Case::Ops {
                kind: jkind(j)?,
                text: jstr(j, "text")?,
                start_compressed: jbool(j, "start_compressed")?,
                ops: j.get("ops")?.as_str()?.split(',').map(|s| s.to_string()).collect(),
            }),
            _ => None,
        }
    }

    fn key(&self) -> u64 {
        fnv64(self.json().to_string().as_bytes())
    }

    fn name(&self) -> &'static str {
        match self {
            Case::L1 { .. } => "l1",
            Case::L1Enc { .. } => "l1enc",
            Case::Body { .. } => "body",
            Case::Enc { .. } => "enc",
            Case::File { .. } => "file",
            Case::Refuse { .. } => "refuse",
            Case::Inflate { .. } => "inflate",
            Case::Ops { .. } => "ops",
        }
    }

    /// non-trivial: carries at least one byte/character of text or payload (an empty tEXt with a
    /// one-letter keyword is trivial), or is a body of at least 3 bytes
    fn nontrivial(&self) -> bool {
        match self {
            Case::L1 { bytes } => !bytes.is_empty(),
            Case::L1Enc { s } => !s.is_empty(),
            Case::Body { body, .. } => body.len() >= 3,
            Case::Enc { it, .. } => !it.text.is_empty(),
            Case::File { items } => items.iter().any(|i| !i.text.is_empty()),
            Case::Refuse { items, bad } => *bad < items.len(),
            Case::Inflate { payload, .. } => !payload.is_empty(),
            Case::Ops { text, ops, .. } => !text.is_empty() && ops.len() >= 2,
        }
    }
}

// ---------------------------------------------------------------------------------------------
// observing chunk objects
// ---------------------------------------------------------------------------------------------

/// payload of a chunk in the `Compressed` state, read off the derived `Debug` output
/// (`… text: Compressed([1, 2, 3]) }`); `None` when the chunk is in the `Uncompressed` state
fn dbg_payload(dbg: &str) -> Option<Vec<u8>> {
    if !dbg.ends_with("]) }") {
        return None;
    }
    let pat = "text: Compressed([";
    let i = dbg.rfind(pat)?;
    let inner = &dbg[i + pat.len()..dbg.len() - 4];
    if inner.is_empty() {
        return Some(vec![]);
    }
    inner.split(", ").map(|t| t.parse::<u8>().ok()).collect()
}

fn z_state(c: &ZTXtChunk) -> String {
    match dbg_payload(&format!("{:?}", c)) {
        Some(p) => format!("c:{}", hex(&p)),
        None => match c.get_text() {
            Ok(s) => format!("u:{}", shex(&s)),
            Err(e) => format!("u:?{}", dec_class(&e)),
        },
    }
}

fn i_state(c: &ITXtChunk) -> String {
    match dbg_payload(&format!("{:?}", c)) {
        Some(p) => format!("c:{}", hex(&p)),
        None => match c.get_text() {
            Ok(s) => format!("u:{}", shex(&s)),
            Err(e) => format!("u:?{}", dec_class(&e)),
        },
    }
}

/// the crate's answer for an injected body, in the model's output format
fn impl_body_answer(kind: char, body: &[u8], after: bool) -> Result<(String, Option<RefChunk>), String> {
    let r = decode_body(kind, body, after)?;
    Ok(match r {
        Err(class) => (class, None),
        Ok(tx) => {
            let n = (tx.t.len(), tx.z.len(), tx.i.len());
            match kind {
                't' if n == (1, 0, 0) => {
                    let c = &tx.t[0];
                    (
                        format!("ok {} {}", shex(&c.keyword), shex(&c.text)),
                        Some(RefChunk::T { kw: c.keyword.clone(), text: c.text.clone() }),
                    )
                }
                'z' if n == (0, 1, 0) => {
                    let c = &tx.z[0];
                    let st = z_state(c);
                    let payload = dbg_payload(&format!("{:?}", c)).unwrap_or_default();
                    (format!("ok {} {}", shex(&c.keyword), st), Some(RefChunk::Z { kw: c.keyword.clone(), payload }))
                }
                'i' if n == (0, 0, 1) => {
                    let c = &tx.i[0];
                    let st = i_state(c);
                    let payload = dbg_payload(&format!("{:?}", c));
                    let text = if payload.is_none() { c.get_text().ok() } else { None };
                    (
                        format!(
                            "ok {} {} {} {} {}",
                            shex(&c.keyword),
                            if c.compressed { 1 } else { 0 },
                            shex(&c.language_tag),
                            shex(&c.translated_keyword),
                            st
                        ),
                        Some(RefChunk::I {
                            kw: c.keyword.clone(),
                            compressed: c.compressed,
                            lang: c.language_tag.clone(),
                            tk: c.translated_keyword.clone(),
                            text,
                            payload: payload.unwrap_or_default(),
                        }),
                    )
                }
                _ => (format!("count:{:?}", n), None),
            }
        }
    })
}

// ---------------------------------------------------------------------------------------------
// model lines
// ---------------------------------------------------------------------------------------------

/// raw bytes a text stands for in a compressed payload (Latin-1 for zTXt, UTF-8 for iTXt)
fn raw_of(kind: char, text: &str) -> Option<Vec<u8>> {
    if kind == 'i' {
        Some(text.as_bytes().to_vec())
    } else {
        ref_latin1_encode(text)
    }
}

fn toy(raw: &[u8]) -> String {
    let mut v = vec![0x78u8];
    v.extend_from_slice(raw);
    hex(&v)
}

/// largest text/payload for which the model is asked (hex lines of twice that size)
const MODEL_MAX: usize = 3 << 20;

impl Case {
    fn lines(&self) -> Vec<String> {
        match self {
            Case::L1 { bytes } => {
                let mut body = vec![0x6b, 0];
                body.extend_from_slice(bytes);
                vec![format!("c20 l1dec {}", hex(bytes)), format!("c20 text {}", hex(&body))]
            }
            Case::L1Enc { s } => vec![format!("c20 l1enc {}", shex(s)), format!("c20 enctext 6b {}", shex(s))],
            Case::Body { kind, body, .. } => {
                let op = match kind {
                    't' => "text",
                    'z' => "ztxt",
                    _ => "itxt",
                };
                vec![format!("c20 {} {}", op, hex(body))]
            }
            Case::Enc { it, pre } => {
                // state the chunk object will be in when `encode` is called
                let state = match (it.kind != 't' && *pre, raw_of(it.kind, &it.text)) {
                    (true, Some(raw)) => format!("c:{}", toy(&raw)),
                    _ => format!("u:{}", shex(&it.text)),
                };
                match it.kind {
                    't' => vec![format!("c20 enctext {} {}", shex(&it.kw), shex(&it.text))],
                    'z' => vec![format!("c20 encztxt {} {}", shex(&it.kw), state)],
                    _ => vec![format!(
                        "c20 encitxt {} {} {} {} {}",
                        shex(&it.kw),
                        if it.flag { 1 } else { 0 },
                        shex(&it.lang),
                        shex(&it.tk),
                        state
                    )],
                }
            }
            Case::File { .. } => vec![],
            Case::Refuse { items, bad } => match items.get(*bad) {
                // the model's verdict on the item that must be refused (uncompressed state)
                Some(it) => Case::Enc { it: it.clone(), pre: false }.lines(),
                None => vec![],
            },
            Case::Inflate { kind, payload, limit, .. } => {
                let st = match ref_inflate(payload) {
                    Some(raw) if raw.len() <= MODEL_MAX => format!("c:{}", toy(&raw)),
                    Some(_) => return vec![],
                    None => "c:00".to_string(),
                };
                vec![format!("c20 optc {} {} d{},g,D,g", kind, st, limit)]
            }
            Case::Ops { kind, text, start_compressed, ops } => {
                let st = match (*start_compressed, raw_of(*kind, text)) {
                    (true, Some(raw)) => format!("c:{}", toy(&raw)),
                    _ => format!("u:{}", shex(text)),
                };
                vec![format!("c20 optc {} {} {}", kind, st, ops.join(","))]
            }
        }
    }
}

// ---------------------------------------------------------------------------------------------
// judges
// ---------------------------------------------------------------------------------------------

fn oracle(class: &str, what: String) -> Option<Fail> {
    Some(("oracle", class.to_string(), what))
}
fn modelf(class: &str, what: String) -> Option<Fail> {
    Some(("model", class.to_string(), what))
}
fn short(s: &str) -> String {
    // (cut at a character boundary: the text may hold anything the implementation returned)
    if s.chars().count() > 120 {
        format!("{}…({} bytes)", s.chars().take(120).collect::<String>(), s.len())
    } else {
        s.to_string()
    }
}

fn judge_l1(bytes: &[u8], ans: &[String]) -> Option<Fail> {
    let want = ref_latin1_decode(bytes);
    let mut body = b"k\0".to_vec();
    body.extend_from_slice(bytes);
    let (imp, rc) = match impl_body_answer('t', &body, false) {
        Ok(x) => x,
        Err(p) => return oracle("panic/decode-text", format!("decoding a tEXt chunk panicked: {}", p)),
    };
    match rc {
        Some(RefChunk::T { kw, text }) => {
            if kw != "k" || text != want {
                let i = text.chars().zip(want.chars()).position(|(a, b)| a != b);
                return oracle(
                    "latin1/decode",
                    format!("tEXt text of {} bytes decoded to {} chars; first differing character at {:?}", bytes.len(), text.chars().count(), i),
                );
            }
        }
        _ => return oracle("latin1/decode-refused", format!("well-formed tEXt body refused: {}", imp)),
    }
    // encode back
    match encode_body(&TEXtChunk::new("k", want.clone()), b"tEXt") {
        Ok(Ok(b)) if b == body => {}
        other => return oracle("latin1/encode", format!("TEXtChunk::encode of the decoded text did not reproduce the body: {}", short(&format!("{:?}", other.map(|r| r.map(|b| hex(&b))))))),
    }
    // the same text through zTXt: compress, read, write, read back, decompress
    let zr = guarded(|| -> Result<(), String> {
        let orig = ZTXtChunk::new("k", want.clone());
        let mut zc = orig.clone();
        zc.compress_text().map_err(|e| format!("compress_text: {}", enc_class(&e)))?;
        if dbg_payload(&format!("{:?}", zc)).is_none() {
            return Err("compress_text left the chunk uncompressed".into());
        }
        if zc.get_text().map_err(|e| format!("get_text: {}", dec_class(&e)))? != want {
            return Err("get_text after compress_text differs from the text".into());
        }
        let zb = match encode_body(&zc, b"zTXt") {
            Ok(Ok(b)) => b,
            other => return Err(format!("encode: {:?}", other.map(|r| r.map(|b| b.len())))),
        };
        let back = match decode_body('z', &zb, true) {
            Ok(Ok(t)) if t.z.len() == 1 => t.z[0].clone(),
            other => return Err(format!("decoding the written zTXt chunk: {:?}", other.map(|r| r.map(|t| t.z.len())))),
        };
        if back != zc {
            return Err("zTXt chunk read back differs from the chunk written".into());
        }
        let mut d = back.clone();
        d.decompress_text_with_limit(bytes.len()).map_err(|e| format!("decompress_text_with_limit(len): {}", dec_class(&e)))?;
        if d != orig {
            return Err("decompress(compress(chunk)) differs from the chunk".into());
        }
        Ok(())
    });
    match zr {
        Err(p) => return oracle("panic/ztxt-roundtrip", format!("zTXt round trip panicked: {}", p)),
        Ok(Err(m)) => return oracle("latin1/ztxt-roundtrip", m),
        Ok(Ok(())) => {}
    }
    if ans.len() != 2 {
        return modelf("protocol", format!("model answered {:?}", ans.len()));
    }
    if ans[0] != shex(&want) {
        return modelf("l1dec", "decodeLatin1 (model) differs from the decoder's text".into());
    }
    if ans[1] != imp {
        return modelf("text", format!("parseTEXt (model) = {} but decoder = {}", short(&ans[1]), short(&imp)));
    }
    None
}

fn judge_l1enc(s: &str, ans: &[String]) -> Option<Fail> {
    let want = ref_latin1_encode(s);
    let r = match encode_body(&TEXtChunk::new("k", s.to_string()), b"tEXt") {
        Ok(r) => r,
        Err(p) => return oracle("panic/encode-text", format!("TEXtChunk::encode panicked: {}", p)),
    };
    let imp = match &r {
        Ok(b) => hex(b),
        Err(c) => c.clone(),
    };
    match (&want, &r) {
        (Some(b), Ok(body)) => {
            if body.len() != b.len() + 2 || &body[..2] != b"k\0" || &body[2..] != &b[..] {
                return oracle("latin1/encode", "encoded tEXt body is not keyword, NUL, code points".into());
            }
        }
        (None, Err(c)) if c == "err:unrepresentable" => {}
        _ => {
            return oracle(
                "latin1/encode-accept",
                format!("text {} Latin-1 but encode answered {}", if want.is_some() { "is" } else { "is not" }, short(&imp)),
            )
        }
    }
    // zTXt compress_text on the same string
    let zr = guarded(|| -> Result<(), String> {
        let orig = ZTXtChunk::new("k", s.to_string());
        let mut zc = orig.clone();
        let r = zc.compress_text();
        match (&want, r) {
            (Some(_), Ok(())) => {
                if zc.get_text().ok().as_deref() != Some(s) {
                    return Err("get_text after compress_text differs".into());
                }
            }
            (None, Err(e)) => {
                if enc_class(&e) != "err:unrepresentable" {
                    return Err(format!("compress_text refused with {}", enc_class(&e)));
                }
                if zc != orig {
                    return Err("failed compress_text changed the chunk".into());
                }
                if zc.get_text().ok().as_deref() != Some(s) {
                    return Err("chunk unusable after failed compress_text".into());
                }
            }
            (w, r) => return Err(format!("Latin-1: {}, compress_text ok: {}", w.is_some(), r.is_ok())),
        }
        Ok(())
    });
    match zr {
        Err(p) => return oracle("panic/compress-text", format!("compress_text panicked: {}", p)),
        Ok(Err(m)) => return oracle("latin1/compress-text", m),
        Ok(Ok(())) => {}
    }
    if ans.len() != 2 {
        return modelf("protocol", format!("model answered {:?}", ans.len()));
    }
    let want_s = match &want {
        Some(b) => hex(b),
        None => "err:unrepresentable".to_string(),
    };
    if ans[0] != want_s {
        return modelf("l1enc", format!("encodeLatin1 (model) = {} expected {}", short(&ans[0]), short(&want_s)));
    }
    if ans[1] != imp {
        return modelf("enctext", format!("TEXt.encodeBody (model) = {} but crate = {}", short(&ans[1]), short(&imp)));
    }
    None
}

fn judge_body(kind: char, body: &[u8], after: bool, ans: &[String]) -> Option<Fail> {
    let (imp, rc) = match impl_body_answer(kind, body, after) {
        Ok(x) => x,
        Err(p) => return oracle(&format!("panic/decode-{}", kind), format!("decoding a text chunk panicked: {}", p)),
    };
    if body.is_empty() && imp == "count:(0, 0, 0)" {
        // A decoder that does not parse chunks of length zero (before /repo f31d047: `ReadChunkData`
        // with `remaining == 0` went straight to the CRC) skips the chunk without an error; that is
        // outside the model's domain.  A decoder that parses them treats the empty body like any other
        // (no NUL separator: refused), which the general comparison below covers.
        note("model", "zero-length text chunk: never parsed");
        return None;
    }
    if !(imp.starts_with("ok ") || imp.starts_with("err:")) {
        return oracle(&format!("body/{}/unexpected", kind), format!("decoder answered {}", short(&imp)));
    }
    let want = ref_parse(kind, body);
    if want.is_some() != rc.is_some() {
        return oracle(
            &format!("body/{}/accept", kind),
            format!("specification {} this body, decoder answered {}", if want.is_some() { "accepts" } else { "refuses" }, short(&imp)),
        );
    }
    if want != rc {
        return oracle(&format!("body/{}/fields", kind), format!("fields differ from the specification's layout: decoder {}", short(&imp)));
    }
    if ans.len() != 1 {
        return modelf("protocol", format!("model answered {:?}", ans.len()));
    }
    if ans[0] != imp {
        return modelf(&format!("body/{}", kind), format!("model = {} but decoder = {}", short(&ans[0]), short(&imp)));
    }
    None
}

fn is_latin1(s: &str) -> bool {
    s.chars().all(|c| (c as u32) <= 255)
}
fn nul_free(s: &str) -> bool {
    !s.contains('\0')
}

static CODEC: std::sync::OnceLock<String> = std::sync::OnceLock::new();

/// inflate a payload produced by the model's codec
fn model_inflate(tail: &[u8]) -> Option<Vec<u8>> {
    if CODEC.get().map(|s| s.as_str()) == Some("toy") {
        if tail.first() == Some(&0x78) {
            Some(tail[1..].to_vec())
        } else {
            None
        }
    } else {
        ref_inflate(tail)
    }
}

/// The refusal the PNG format (and C17/C20) demand for this item, in the order in which the fields
/// are laid out in the chunk: keyword (Latin-1, 1..79 bytes, no NUL), then for tEXt/zTXt a Latin-1
/// text, for iTXt an ASCII language tag without NUL and a translated keyword without NUL.
/// Independent of the model; written from the specification's chunk layouts.
fn expected_refusal(it: &Item) -> Option<&'static str> {
    let kwb = ref_latin1_encode(&it.kw);
    match &kwb {
        None => Some("err:unrepresentable"),
        Some(b) if b.is_empty() || b.len() > 79 => Some("err:invalidKeywordSize"),
        Some(b) if b.contains(&0) => Some("err:unrepresentable"),
        Some(_) => match it.kind {
            't' | 'z' if !is_latin1(&it.text) => Some("err:unrepresentable"),
            'i' if !it.lang.is_ascii() || !nul_free(&it.lang) => Some("err:unrepresentable"),
            'i' if !nul_free(&it.tk) => Some("err:unrepresentable"),
            _ => None,
        },
    }
}

fn build_and_encode(it: &Item, pre: bool) -> Result<Result<Vec<u8>, String>, String> {
    let it = it.clone();
    guarded(move || match it.kind {
        't' => encode_body(&TEXtChunk::new(it.kw.clone(), it.text.clone()), b"tEXt"),
        'z' => {
            let mut c = ZTXtChunk::new(it.kw.clone(), it.text.clone());
            if pre {
                let _ = c.compress_text();
            }
            encode_body(&c, b"zTXt")
        }
        _ => {
            let mut c = ITXtChunk::new(it.kw.clone(), it.text.clone());
            c.compressed = it.flag;
            c.language_tag = it.lang.clone();
            c.translated_keyword = it.tk.clone();
            if pre && c.compress_text().is_err() {
                return Ok(Err("compress_text failed on an iTXt chunk".to_string()));
            }
            encode_body(&c, b"iTXt")
        }
    })
    .and_then(|r| r)
}

fn judge_enc(it: &Item, pre: bool, ans: &[String]) -> Option<Fail> {
    let kind = it.kind;
    let r = match build_and_encode(it, pre) {
        Ok(r) => r,
        Err(p) => return oracle(&format!("panic/encode-{}", kind), format!("encode panicked: {}", p)),
    };
    let kwb = ref_latin1_encode(&it.kw);
    let exp_err: Option<&str> = expected_refusal(it);
    let imp = match &r {
        Ok(b) => hex(b),
        Err(c) => c.clone(),
    };
    match (&r, exp_err) {
        (Err(c), Some(e)) if c == e => {}
        (Ok(_), None) => {}
        _ => {
            return oracle(
                &format!("enc/{}/refusal", kind),
                format!("expected {} but encode answered {}", exp_err.unwrap_or("a chunk"), short(&imp)),
            )
        }
    }
    let kwlen = kwb.as_ref().map(|b| b.len()).unwrap_or(0);
    let head_len = kwlen
        + match kind {
            't' => 1,
            'z' => 2,
            _ => 3 + it.lang.len() + 1 + it.tk.len() + 1,
        };
    let tail_compressed = kind == 'z' || (kind == 'i' && it.flag);
    if let Ok(body) = &r {
        let clean = nul_free(&it.kw) && (kind != 'i' || (nul_free(&it.lang) && nul_free(&it.tk)));
        if clean {
            let raw = raw_of(kind, &it.text).unwrap_or_default();
            let ok = match ref_parse(kind, body) {
                Some(RefChunk::T { kw, text }) => kw == it.kw && text == it.text,
                Some(RefChunk::Z { kw, payload }) => kw == it.kw && ref_inflate(&payload).as_deref() == Some(&raw[..]),
                Some(RefChunk::I { kw, compressed, lang, tk, text, payload }) => {
                    kw == it.kw
                        && compressed == it.flag
                        && lang == it.lang
                        && tk == it.tk
                        && if compressed { ref_inflate(&payload).as_deref() == Some(&raw[..]) } else { text.as_deref() == Some(&it.text[..]) }
                }
                None => false,
            };
            if !ok {
                return oracle(&format!("enc/{}/layout", kind), format!("written body does not hold the fields given: {}", short(&imp)));
            }
            // through the real decoder
            let back = match decode_body(kind, body, true) {
                Ok(Ok(t)) => t,
                Ok(Err(c)) => return oracle(&format!("enc/{}/reread", kind), format!("decoder refuses the chunk the encoder wrote: {}", c)),
                Err(p) => return oracle(&format!("panic/decode-{}", kind), format!("decoding panicked: {}", p)),
            };
            let got: Option<(String, Option<String>)> = match kind {
                't' => back.t.first().map(|c| (c.keyword.clone(), Some(c.text.clone()))),
                'z' => back.z.first().map(|c| (c.keyword.clone(), c.get_text().ok())),
                _ => back.i.first().map(|c| (c.keyword.clone(), c.get_text().ok())),
            };
            if got != Some((it.kw.clone(), Some(it.text.clone()))) {
                return oracle(&format!("enc/{}/roundtrip", kind), "keyword/text read back differ from what was written".into());
            }
        }
    }
    if ans.len() != 1 {
        return modelf("protocol", format!("model answered {:?}", ans.len()));
    }
    match &r {
        Err(c) => {
            if &ans[0] != c {
                return modelf(&format!("enc/{}/error", kind), format!("model = {} but crate = {}", short(&ans[0]), c));
            }
        }
        Ok(body) => {
            let mb = match unhex(&ans[0]) {
                Some(b) if !ans[0].starts_with("err") => b,
                _ => return modelf(&format!("enc/{}/error", kind), format!("model = {} but crate wrote a chunk", short(&ans[0]))),
            };
            if mb.len() < head_len || body.len() < head_len || mb[..head_len] != body[..head_len] {
                return modelf(&format!("enc/{}/head", kind), "bytes before the text payload differ".into());
            }
            let same = if tail_compressed {
                let a = model_inflate(&mb[head_len..]);
                a.is_some() && a == ref_inflate(&body[head_len..])
            } else {
                mb[head_len..] == body[head_len..]
            };
            if !same {
                return modelf(&format!("enc/{}/payload", kind), "text payload differs (after inflating each side with its codec)".into());
            }
        }
    }
    None
}

fn judge_file(items: &[Item]) -> Option<Fail> {
    let its = items.to_vec();
    let r = guarded(move || -> Result<Vec<u8>, String> {
        let mut out = Vec::new();
        {
            let mut enc = png::Encoder::new(&mut out, 1, 1);
            enc.set_color(png::ColorType::Grayscale);
            enc.set_depth(png::BitDepth::Eight);
            for it in its.iter().filter(|i| !i.tail) {
                let r = match it.kind {
                    't' => enc.add_text_chunk(it.kw.clone(), it.text.clone()),
                    'z' => enc.add_ztxt_chunk(it.kw.clone(), it.text.clone()),
                    _ => enc.add_itxt_chunk(it.kw.clone(), it.text.clone()),
                };
                r.map_err(|e| format!("add chunk: {}", enc_class(&e)))?;
            }
            let mut w = enc.write_header().map_err(|e| format!("write_header: {}", enc_class(&e)))?;
            w.write_image_data(&[0x55]).map_err(|e| format!("write_image_data: {}", enc_class(&e)))?;
            for it in its.iter().filter(|i| i.tail) {
                let r = match it.kind {
                    't' => w.write_text_chunk(&TEXtChunk::new(it.kw.clone(), it.text.clone())),
                    'z' => {
                        let mut c = ZTXtChunk::new(it.kw.clone(), it.text.clone());
                        if it.flag {
                            c.compress_text().map_err(|e| format!("compress_text: {}", enc_class(&e)))?;
                        }
                        w.write_text_chunk(&c)
                    }
                    _ => {
                        let mut c = ITXtChunk::new(it.kw.clone(), it.text.clone());
                        c.compressed = it.flag;
                        c.language_tag = it.lang.clone();
                        c.translated_keyword = it.tk.clone();
                        w.write_text_chunk(&c)
                    }
                };
                r.map_err(|e| format!("write_text_chunk: {}", enc_class(&e)))?;
            }
            w.finish().map_err(|e| format!("finish: {}", enc_class(&e)))?;
        }
        Ok(out)
    });
    let file = match r {
        Err(p) => return oracle("panic/encoder", format!("encoder panicked: {}", p)),
        Ok(Err(m)) => return oracle("file/encode", format!("encoder refused valid text chunks: {}", m)),
        Ok(Ok(f)) => f,
    };
    let tx = match decode_texts(&file) {
        Err(p) => return oracle("panic/decoder", format!("decoder panicked: {}", p)),
        Ok(Err(c)) => return oracle("file/decode", format!("decoder refuses the encoder's file: {}", c)),
        Ok(Ok(t)) => t,
    };
    for kind in ['t', 'z', 'i'] {
        let want: Vec<&Item> = items.iter().filter(|i| i.kind == kind && !i.tail).chain(items.iter().filter(|i| i.kind == kind && i.tail)).collect();
        let n = match kind {
            't' => tx.t.len(),
            'z' => tx.z.len(),
            _ => tx.i.len(),
        };
        if n != want.len() {
            return oracle(&format!("file/{}/count", kind), format!("{} chunks written, {} read", want.len(), n));
        }
        for (k, it) in want.iter().enumerate() {
            let ok = match kind {
                't' => tx.t[k].keyword == it.kw && tx.t[k].text == it.text,
                'z' => {
                    let c = &tx.z[k];
                    c.keyword == it.kw && c.get_text().ok().as_deref() == Some(&it.text[..]) && dbg_payload(&format!("{:?}", c)).is_some()
                }
                _ => {
                    let c = &tx.i[k];
                    let (flag, lang, tk) = if it.tail { (it.flag, &it.lang[..], &it.tk[..]) } else { (false, "", "") };
                    c.keyword == it.kw
                        && c.get_text().ok().as_deref() == Some(&it.text[..])
                        && c.compressed == flag
                        && c.language_tag == lang
                        && c.translated_keyword == tk
                        && dbg_payload(&format!("{:?}", c)).is_some() == flag
                }
            };
            if !ok {
                return oracle(&format!("file/{}/fields", kind), format!("chunk #{} of kind {} read back differs from what was written", k, kind));
            }
        }
    }
    None
}

/// A sink that can be inspected while an `Encoder` / `Writer` owns it (also used by C17).
#[derive(Clone, Default)]
pub struct SharedSink(pub std::rc::Rc<std::cell::RefCell<Vec<u8>>>);

impl SharedSink {
    pub fn len(&self) -> usize {
        self.0.borrow().len()
    }
    pub fn bytes(&self) -> Vec<u8> {
        self.0.borrow().clone()
    }
}

impl Write for SharedSink {
    fn write(&mut self, buf: &[u8]) -> std::io::Result<usize> {
        self.0.borrow_mut().extend_from_slice(buf);
        Ok(buf.len())
    }
    fn flush(&mut self) -> std::io::Result<()> {
        Ok(())
    }
}

/// text chunks (type, keyword bytes up to the first NUL) found in a byte stream written by the encoder
fn text_chunks_in(sink: &[u8]) -> Vec<([u8; 4], Vec<u8>)> {
    let mut out = vec![];
    for c in crate::props::c11::chunk_positions(sink) {
        if &c.ty == b"tEXt" || &c.ty == b"zTXt" || &c.ty == b"iTXt" {
            let body = &sink[c.start + 8..c.start + 8 + c.len];
            let kw: Vec<u8> = body.iter().copied().take_while(|&b| b != 0).collect();
            out.push((c.ty, kw));
        }
    }
    out
}

/// The unrepresentable item must be refused and must leave no byte in the sink.
/// Head item: `Encoder::add_*_chunk` may refuse it at once; if it accepts (it only stores the chunk),
/// `write_header` must fail, and the sink may then hold only the text chunks that `encode_header`
/// emits *before* it (tEXt of the head items in order, then zTXt, then iTXt).
/// Tail item: `Writer::write_text_chunk` must fail without growing the sink; the rest of the file is
/// then completed and must decode to all the other items.
fn judge_refuse(items: &[Item], bad: usize, ans: &[String]) -> Option<Fail> {
    let badit = items.get(bad)?.clone();
    let want = match expected_refusal(&badit) {
        Some(e) => e,
        None => return modelf("refuse/generator", "the item is representable".into()),
    };
    if ans.len() != 1 {
        return modelf("protocol", format!("model answered {:?}", ans.len()));
    }
    if ans[0] != want {
        return modelf(&format!("refuse/{}/model", badit.kind), format!("model = {} but the format demands {}", short(&ans[0]), want));
    }
    let its = items.to_vec();
    // (error class of the refusing call and which call it was, the sink afterwards, the completed
    // file if the writer got that far)
    type Out = (Option<(String, &'static str)>, Vec<u8>, Option<Vec<u8>>);
    let r = guarded(move || -> Result<Out, String> {
        let sink = SharedSink::default();
        let mut refused: Option<(String, &'static str)> = None;
        let mut enc = png::Encoder::new(sink.clone(), 1, 1);
        enc.set_color(png::ColorType::Grayscale);
        enc.set_depth(png::BitDepth::Eight);
        for (k, it) in its.iter().enumerate().filter(|(_, i)| !i.tail) {
            let r = match it.kind {
                't' => enc.add_text_chunk(it.kw.clone(), it.text.clone()),
                'z' => enc.add_ztxt_chunk(it.kw.clone(), it.text.clone()),
                _ => enc.add_itxt_chunk(it.kw.clone(), it.text.clone()),
            };
            match r {
                Ok(()) => {}
                Err(e) if k == bad => refused = Some((enc_class(&e), "add_chunk")),
                Err(e) => return Err(format!("add chunk #{}: {}", k, enc_class(&e))),
            }
        }
        let head_bad = !its[bad].tail;
        let mut w = match enc.write_header() {
            Ok(w) => w,
            Err(e) => {
                if head_bad && refused.is_none() {
                    return Ok((Some((enc_class(&e), "write_header")), sink.bytes(), None));
                }
                return Err(format!("write_header: {}", enc_class(&e)));
            }
        };
        if head_bad && refused.is_none() {
            drop(w);
            return Ok((None, sink.bytes(), None));
        }
        w.write_image_data(&[0x55]).map_err(|e| format!("write_image_data: {}", enc_class(&e)))?;
        for (k, it) in its.iter().enumerate().filter(|(_, i)| i.tail) {
            let before = sink.len();
            let r = match it.kind {
                't' => w.write_text_chunk(&TEXtChunk::new(it.kw.clone(), it.text.clone())),
                'z' => w.write_text_chunk(&ZTXtChunk::new(it.kw.clone(), it.text.clone())),
                _ => {
                    let mut c = ITXtChunk::new(it.kw.clone(), it.text.clone());
                    c.compressed = it.flag;
                    c.language_tag = it.lang.clone();
                    c.translated_keyword = it.tk.clone();
                    w.write_text_chunk(&c)
                }
            };
            match r {
                Ok(()) => {}
                Err(e) if k == bad => {
                    if sink.len() != before {
                        return Ok((Some((format!("{}+wrote{}", enc_class(&e), sink.len() - before), "write_text_chunk")), sink.bytes(), None));
                    }
                    refused = Some((enc_class(&e), "write_text_chunk"))
                }
                Err(e) => return Err(format!("write_text_chunk #{}: {}", k, enc_class(&e))),
            }
        }
        w.finish().map_err(|e| format!("finish: {}", enc_class(&e)))?;
        Ok((refused, sink.bytes(), Some(sink.bytes())))
    });
    let (refused, sink, file) = match r {
        Err(p) => return oracle("panic/encoder", format!("encoder panicked: {}", p)),
        Ok(Err(m)) => return oracle("refuse/other-item", format!("a representable item was refused: {}", m)),
        Ok(Ok(x)) => x,
    };
    let kind = badit.kind;
    let (class, call) = match refused {
        Some(x) => x,
        None => {
            return oracle(
                &format!("refuse/{}/accepted", kind),
                format!("unrepresentable item (keyword {}) was written without an error", short(&shex(&badit.kw))),
            )
        }
    };
    NOTES.with(|n| n.borrow_mut().push(("refusing call".to_string(), format!("{}/{}", kind, call))));
    if class != want {
        return oracle(&format!("refuse/{}/class", kind), format!("{} answered {} but the format demands {}", call, class, want));
    }
    // what may be in the sink: the representable items that are emitted before the refused one
    let emitted_before: Vec<&Item> = if badit.tail {
        items.iter().enumerate().filter(|(k, _)| *k != bad).map(|(_, i)| i).collect()
    } else {
        let order: Vec<usize> = ['t', 'z', 'i']
            .iter()
            .flat_map(|&kd| items.iter().enumerate().filter(move |(_, i)| !i.tail && i.kind == kd).map(|(k, _)| k))
            .collect();
        let pos = order.iter().position(|&k| k == bad).unwrap_or(0);
        if call == "add_chunk" {
            items.iter().enumerate().filter(|(k, _)| *k != bad).map(|(_, i)| i).collect()
        } else {
            order[..pos].iter().map(|&k| &items[k]).collect()
        }
    };
    let found = text_chunks_in(&sink);
    let mut allowed: Vec<([u8; 4], Vec<u8>)> = emitted_before
        .iter()
        .map(|i| (kind_type(i.kind), ref_latin1_encode(&i.kw).unwrap_or_default()))
        .collect();
    for f in &found {
        match allowed.iter().position(|a| a == f) {
            Some(p) => {
                allowed.remove(p);
            }
            None => {
                return oracle(
                    &format!("refuse/{}/bytes-written", kind),
                    format!("after the refusal the sink holds a {} chunk with keyword bytes {} that no accepted item accounts for", String::from_utf8_lossy(&f.0), hex(&f.1)),
                )
            }
        }
    }
    if badit.tail || call == "add_chunk" {
        if !allowed.is_empty() {
            return oracle(&format!("refuse/{}/lost", kind), format!("{} accepted chunk(s) are missing from the file", allowed.len()));
        }
        // the completed file must decode to exactly the other items
        if let Some(f) = file {
            let others: Vec<Item> = items.iter().enumerate().filter(|(k, _)| *k != bad).map(|(_, i)| i.clone()).collect();
            match decode_texts(&f) {
                Err(p) => return oracle("panic/decoder", format!("decoder panicked: {}", p)),
                Ok(Err(c)) => return oracle(&format!("refuse/{}/file-decode", kind), format!("decoder refuses the file written around the refused chunk: {}", c)),
                Ok(Ok(t)) => {
                    if t.t.len() + t.z.len() + t.i.len() != others.len() {
                        return oracle(&format!("refuse/{}/file-count", kind), format!("{} chunks expected, {} read", others.len(), t.t.len() + t.z.len() + t.i.len()));
                    }
                }
            }
        }
    }
    None
}

// ---------------------------------------------------------------------------------------------
// the OptCompressed machine through the public methods
// ---------------------------------------------------------------------------------------------

#[derive(Clone, Debug, PartialEq)]
enum Zi {
    Z(ZTXtChunk),
    I(ITXtChunk),
}

impl Zi {
    fn new(kind: char, text: &str) -> Zi {
        if kind == 'z' {
            Zi::Z(ZTXtChunk::new("k", text.to_string()))
        } else {
            Zi::I(ITXtChunk::new("k", text.to_string()))
        }
    }
    /// chunk in the `Compressed` state holding exactly `payload`, obtained by decoding a file
    fn from_payload(kind: char, payload: &[u8]) -> Result<Zi, String> {
        let mut body: Vec<u8> = if kind == 'z' { b"k\0\0".to_vec() } else { b"k\0\x01\0\0\0".to_vec() };
        body.extend_from_slice(payload);
        match decode_body(kind, &body, false)? {
            Ok(t) if kind == 'z' && t.z.len() == 1 => Ok(Zi::Z(t.z[0].clone())),
            Ok(t) if kind == 'i' && t.i.len() == 1 => Ok(Zi::I(t.i[0].clone())),
            Ok(_) => Err("decoder did not return the chunk".into()),
            Err(c) => Err(format!("decoder refused a well-formed compressed chunk: {}", c)),
        }
    }
    fn decompress(&mut self, n: usize) -> Result<(), String> {
        match self {
            Zi::Z(c) => c.decompress_text_with_limit(n).map_err(|e| dec_class(&e)),
            Zi::I(c) => c.decompress_text_with_limit(n).map_err(|e| dec_class(&e)),
        }
    }
    fn decompress_default(&mut self) -> Result<(), String> {
        match self {
            Zi::Z(c) => c.decompress_text().map_err(|e| dec_class(&e)),
            Zi::I(c) => c.decompress_text().map_err(|e| dec_class(&e)),
        }
    }
    fn compress(&mut self) -> Result<(), String> {
        match self {
            Zi::Z(c) => c.compress_text().map_err(|e| enc_class(&e)),
            Zi::I(c) => c.compress_text().map_err(|e| enc_class(&e)),
        }
    }
    fn get_text(&self) -> Result<String, String> {
        match self {
            Zi::Z(c) => c.get_text().map_err(|e| dec_class(&e)),
            Zi::I(c) => c.get_text().map_err(|e| dec_class(&e)),
        }
    }
    fn payload(&self) -> Option<Vec<u8>> {
        match self {
            Zi::Z(c) => dbg_payload(&format!("{:?}", c)),
            Zi::I(c) => dbg_payload(&format!("{:?}", c)),
        }
    }
    /// size in bytes of the text a chunk in the `Uncompressed` state stores (zTXt: one byte per character)
    fn stored_size(&self, kind: char) -> Option<usize> {
        if self.payload().is_some() {
            return None;
        }
        let t = self.get_text().ok()?;
        Some(if kind == 'z' { t.chars().count() } else { t.len() })
    }
}

thread_local! {
    static NOTES: std::cell::RefCell<Vec<(String, String)>> = std::cell::RefCell::new(Vec::new());
}
fn note(h: &str, k: &str) {
    NOTES.with(|n| n.borrow_mut().push((h.to_string(), k.to_string())));
}

fn res_str(r: &Result<(), String>) -> String {
    match r {
        Ok(()) => "ok".into(),
        Err(c) => c.clone(),
    }
}

/// compare the crate's trace `results;state` with the model's
fn compare_trace(class: &str, results: &[String], state: &Zi, ans: &str, corrupt: bool) -> Option<Fail> {
    let (mr, ms) = match ans.split_once(';') {
        Some(x) => x,
        None => return modelf("protocol", format!("model answered {}", short(ans))),
    };
    let mr: Vec<&str> = mr.split(',').collect();
    if mr.len() != results.len() {
        return modelf("protocol", format!("model answered {} results for {} operations", mr.len(), results.len()));
    }
    for (k, (a, b)) in results.iter().zip(&mr).enumerate() {
        if a == b {
            continue;
        }
        if corrupt && a == "err:outOfDecompressionSpace" && *b == "err:inflationError" {
            // allowed by `optc_limit_respected`: the inflater met the limit before the corruption
            note("corrupt payload", "limit met before the corruption");
            continue;
        }
        return modelf(class, format!("operation #{}: crate {} but model {}", k, short(a), short(b)));
    }
    let same_state = match state.payload() {
        Some(p) => ms.starts_with("c:") && unhex(&ms[2..]).map(|m| model_inflate(&m) == ref_inflate(&p)).unwrap_or(false),
        None => state.get_text().map(|t| format!("u:{}", shex(&t))).ok().as_deref() == Some(ms),
    };
    if !same_state {
        return modelf(&format!("{}/state", class), format!("final state differs: model {}", short(ms)));
    }
    None
}

fn judge_inflate(kind: char, payload: &[u8], limit: usize, strict: bool, ans: &[String]) -> Option<Fail> {
    let truth = ref_inflate(payload);
    let text: Option<String> = truth.as_ref().and_then(|raw| if kind == 'z' { Some(ref_latin1_decode(raw)) } else { String::from_utf8(raw.clone()).ok() });
    let mut c = match Zi::from_payload(kind, payload) {
        Ok(c) => c,
        Err(m) => return oracle(&format!("inflate/{}/setup", kind), m),
    };
    let fresh = c.clone();
    if fresh.payload().as_deref() != Some(payload) {
        return oracle(&format!("inflate/{}/stored", kind), "the compressed payload is not stored as it was in the file".into());
    }
    let mut results = Vec::new();
    // 1. bounded decompression
    let r1 = {
        let mut cc = c.clone();
        // peak of live heap bytes during the bounded decompression (counting global allocator): the inflated output grows in
        // 32 KiB steps up to the limit (Vec growth may double the capacity and a reallocation holds old and new block at once),
        // the decoded String is at most twice the output (Latin-1 -> UTF-8): a fixed linear function of the limit, whatever
        // the payload would inflate to
        let base = crate::alloc::begin();
        let res = guarded(move || {
            let r = cc.decompress(limit);
            (cc, r)
        });
        let peak = crate::alloc::peak_above(base);
        if peak > 6 * limit + (256 << 10) {
            return oracle(&format!("limit/{}/peak-allocation", kind), format!("decompress_text_with_limit({}) on a {}-byte payload held {} bytes at its peak (bound 6*limit + 256 KiB)", limit, payload.len(), peak));
        }
        match res {
            Ok((cc, r)) => {
                c = cc;
                r
            }
            Err(p) => return oracle(&format!("panic/decompress-{}", kind), format!("decompress_text_with_limit({}) panicked: {}", limit, p)),
        }
    };
    results.push(res_str(&r1));
    let lim = |raw_len: usize| if raw_len > limit { "over" } else { "within" };
    match (&truth, &r1) {
        (Some(raw), Ok(())) => {
            if raw.len() > limit {
                return oracle(&format!("limit/{}/exceeded", kind), format!("payload inflates to {} bytes, limit {} — accepted", raw.len(), limit));
            }
            match (&text, c.stored_size(kind)) {
                (Some(t), Some(sz)) if c.get_text().ok().as_ref() == Some(t) && sz <= limit => {}
                _ => return oracle(&format!("limit/{}/stored", kind), "after a successful bounded decompression the chunk does not hold the inflated text".into()),
            }
            note("bounded decompression", &format!("{}/valid/{}/ok", kind, lim(raw.len())));
        }
        (Some(raw), Err(class)) => {
            let want = if raw.len() > limit {
                "err:outOfDecompressionSpace"
            } else if text.is_none() {
                "err:unrepresentable"
            } else {
                "ok"
            };
            if class != want && (strict || want != "ok") {
                return oracle(&format!("limit/{}/verdict", kind), format!("payload inflates to {} bytes, limit {}: expected {} got {}", raw.len(), limit, want, class));
            }
            note("bounded decompression", &format!("{}/valid/{}/{}", kind, lim(raw.len()), class));
        }
        (None, Ok(())) => {
            if strict {
                return oracle(&format!("limit/{}/corrupt-accepted", kind), "a corrupt payload was decompressed without error".into());
            }
            note("bounded decompression", &format!("{}/ambiguous/ok", kind));
        }
        (None, Err(class)) => {
            if class != "err:inflationError" && class != "err:outOfDecompressionSpace" {
                return oracle(&format!("limit/{}/verdict", kind), format!("corrupt payload refused as {}", class));
            }
            note("bounded decompression", &format!("{}/corrupt/{}", kind, class));
        }
    }
    if r1.is_err() && c != fresh {
        return oracle(&format!("limit/{}/error-changed-chunk", kind), "a failed decompress_text_with_limit changed the chunk".into());
    }
    // 2. still usable: get_text, default-limit decompression, get_text
    let g_want: Result<String, String> = match (&truth, &text) {
        (Some(_), Some(t)) => Ok(t.clone()),
        (Some(_), None) => Err("err:unrepresentable".into()),
        (None, _) => Err("err:inflationError".into()),
    };
    let rest = guarded(move || {
        let g1 = c.get_text();
        let before_d = c.clone();
        let d = c.decompress_default();
        let unchanged = c == before_d;
        let g2 = c.get_text();
        (c, g1, d, unchanged, g2)
    });
    let (c, g1, d, unchanged, g2) = match rest {
        Ok(x) => x,
        Err(p) => return oracle(&format!("panic/get-text-{}", kind), format!("get_text/decompress_text panicked: {}", p)),
    };
    for g in [&g1, &g2] {
        if (strict || truth.is_some()) && g != &g_want {
            return oracle(
                &format!("limit/{}/get-text", kind),
                format!("get_text after the bounded call answered {} expected {}", short(&format!("{:?}", g.as_ref().map(|s| s.len()))), short(&format!("{:?}", g_want.as_ref().map(|s| s.len())))),
            );
        }
    }
    if d.is_err() && !unchanged {
        return oracle(&format!("limit/{}/error-changed-chunk", kind), "a failed decompress_text changed the chunk".into());
    }
    if let (Some(raw), Some(_)) = (&truth, &text) {
        // a chunk the bounded call already decompressed stays as it is
        let want_ok = raw.len() <= DECOMPRESSION_LIMIT || r1.is_ok();
        if d.is_ok() != want_ok {
            return oracle(&format!("limit/{}/default", kind), format!("decompress_text on {} bytes answered {}", raw.len(), res_str(&d)));
        }
    }
    let gs = |g: &Result<String, String>| match g {
        Ok(s) => format!("ok:{}", shex(s)),
        Err(c) => c.clone(),
    };
    results.push(gs(&g1));
    results.push(res_str(&d));
    results.push(gs(&g2));
    if ans.is_empty() || (!strict && truth.is_none()) {
        note("model", "inflate case outside the model domain");
        return None;
    }
    compare_trace(&format!("inflate/{}", kind), &results, &c, &ans[0], truth.is_none())
}

fn judge_ops(kind: char, text: &str, start_compressed: bool, ops: &[String], ans: &[String]) -> Option<Fail> {
    let raw = raw_of(kind, text);
    let text_s = text.to_string();
    let ops_v = ops.to_vec();
    let r = guarded(move || -> Result<(Vec<String>, Zi), Fail> {
        let fail = |k: &str, w: String| -> Fail { ("oracle", format!("ops/{}/{}", kind, k), w) };
        let mut c = Zi::new(kind, &text_s);
        if start_compressed {
            let _ = c.compress();
        }
        let mut results = Vec::new();
        for (k, op) in ops_v.iter().enumerate() {
            let before = c.clone();
            let was_compressed = before.payload().is_some();
            if op == "g" {
                let g = c.get_text();
                if g.as_deref() != Ok(&text_s[..]) {
                    return Err(fail("get-text", format!("operation #{}: get_text does not return the chunk's text", k)));
                }
                results.push(format!("ok:{}", shex(&text_s)));
                continue;
            }
            let r = if op == "c" {
                c.compress()
            } else if op == "D" {
                c.decompress_default()
            } else {
                c.decompress(op[1..].parse::<usize>().unwrap_or(0))
            };
            if r.is_err() && c != before {
                return Err(fail("error-changed-chunk", format!("operation #{} ({}) failed and changed the chunk", k, op)));
            }
            if op == "c" {
                let want_ok = was_compressed || raw.is_some();
                if r.is_ok() != want_ok || (!want_ok && r != Err("err:unrepresentable".to_string())) {
                    return Err(fail("compress-verdict", format!("operation #{}: compress_text answered {}", k, res_str(&r))));
                }
                if r.is_ok() {
                    match (c.payload(), &raw) {
                        (Some(p), Some(raw)) if ref_inflate(&p).as_ref() == Some(raw) => {}
                        _ => return Err(fail("compress-payload", format!("operation #{}: the payload does not inflate to the text", k))),
                    }
                    let mut again = c.clone();
                    if again.compress().is_err() || again != c {
                        return Err(fail("compress-idempotent", format!("operation #{}: a second compress_text changed the chunk", k)));
                    }
                }
            } else {
                let n = if op == "D" { DECOMPRESSION_LIMIT } else { op[1..].parse::<usize>().unwrap_or(0) };
                let len = raw.as_ref().map(|r| r.len()).unwrap_or(0);
                let want = if !was_compressed || len <= n { "ok" } else { "err:outOfDecompressionSpace" };
                if res_str(&r) != want {
                    return Err(fail("decompress-verdict", format!("operation #{} ({}): text of {} bytes, answered {}", k, op, len, res_str(&r))));
                }
                if r.is_ok() {
                    if c != Zi::new(kind, &text_s) {
                        return Err(fail("decompress-inverse", format!("operation #{} ({}): the chunk is not the uncompressed original", k, op)));
                    }
                    let mut again = c.clone();
                    if again.decompress(0).is_err() || again != c {
                        return Err(fail("decompress-idempotent", format!("operation #{}: a second decompression changed the chunk", k)));
                    }
                }
            }
            results.push(res_str(&r));
        }
        Ok((results, c))
    });
    let (results, c) = match r {
        Err(p) => return oracle(&format!("panic/ops-{}", kind), format!("operation sequence panicked: {}", p)),
        Ok(Err(f)) => return Some(f),
        Ok(Ok(x)) => x,
    };
    if ans.len() != 1 {
        return modelf("protocol", format!("model answered {:?}", ans.len()));
    }
    compare_trace(&format!("ops/{}", kind), &results, &c, &ans[0], false)
}

fn judge(c: &Case, ans: &[String]) -> Option<Fail> {
    match c {
        Case::L1 { bytes } => judge_l1(bytes, ans),
        Case::L1Enc { s } => judge_l1enc(s, ans),
        Case::Body { kind, body, after } => judge_body(*kind, body, *after, ans),
        Case::Enc { it, pre } => judge_enc(it, *pre, ans),
        Case::File { items } => judge_file(items),
        Case::Refuse { items, bad } => judge_refuse(items, *bad, ans),
        Case::Inflate { kind, payload, limit, strict } => judge_inflate(*kind, payload, *limit, *strict, ans),
        Case::Ops { kind, text, start_compressed, ops } => judge_ops(*kind, text, *start_compressed, ops, ans),
    }
}

// ---------------------------------------------------------------------------------------------
// generators
// ---------------------------------------------------------------------------------------------

fn gen_latin1(rng: &mut Rng, n: usize, nul: bool) -> String {
    let class = rng.below(4);
    (0..n)
        .map(|_| {
            let b = match class {
                0 => rng.range(0x20, 0x7E) as u8,
                1 => rng.byte(),
                2 => *rng.pick(&[0u8, 1, 0x7F, 0x80, 0x81, 0xA0, 0xFE, 0xFF, b'a']),
                _ => rng.range(0x80, 0xFF) as u8,
            };
            char::from(if b == 0 && !nul { 1 } else { b })
        })
        .collect()
}

fn gen_char(rng: &mut Rng) -> char {
    let edges = [0x0u32, 0x1, 0x7F, 0x80, 0xFF, 0x100, 0x7FF, 0x800, 0xD7FF, 0xE000, 0xFFFD, 0xFFFF, 0x10000, 0x1F600, 0x10FFFF];
    let v = match rng.below(7) {
        0 => rng.range(0x20, 0x7E) as u32,
        1 => rng.range(0, 0xFF) as u32,
        2 => rng.range(0x100, 0x7FF) as u32,
        3 => rng.range(0x800, 0xFFFF) as u32,
        4 => rng.range(0x10000, 0x10FFFF) as u32,
        5 => *rng.pick(&edges),
        _ => rng.range(0x80, 0x24F) as u32,
    };
    char::from_u32(v).unwrap_or('\u{FFFD}')
}

fn gen_unicode(rng: &mut Rng, n: usize, nul: bool) -> String {
    let ascii_heavy = rng.chance(1, 3);
    (0..n)
        .map(|_| {
            let c = if ascii_heavy && rng.chance(3, 4) { rng.range(0x20, 0x7E) as u8 as char } else { gen_char(rng) };
            if c == '\0' && !nul {
                '\u{1}'
            } else {
                c
            }
        })
        .collect()
}

fn gen_keyword(rng: &mut Rng, len: usize) -> String {
    gen_latin1(rng, len, false)
}

fn gen_len(rng: &mut Rng) -> usize {
    match rng.below(10) {
        0 => 0,
        1 => 1,
        2..=5 => rng.usize(2, 40),
        6..=8 => rng.usize(41, 600),
        _ => rng.usize(601, 4096),
    }
}

fn kw_len(rng: &mut Rng) -> usize {
    if rng.chance(1, 4) {
        *rng.pick(&[1usize, 78, 79])
    } else {
        rng.usize(1, 79)
    }
}

const BAD_UTF8: &[&[u8]] = &[
    &[0xC0, 0x80],
    &[0xC1, 0xBF],
    &[0xE0, 0x80, 0x80],
    &[0xE0, 0x9F, 0xBF],
    &[0xF0, 0x80, 0x80, 0x80],
    &[0xF0, 0x8F, 0xBF, 0xBF],
    &[0xED, 0xA0, 0x80],
    &[0xED, 0xBF, 0xBF],
    &[0xED, 0xA0, 0x80, 0xED, 0xB0, 0x80],
    &[0xC3],
    &[0xE2, 0x82],
    &[0xF0, 0x9F, 0x98],
    &[0x80],
    &[0xBF],
    &[0xFF],
    &[0xFE],
    &[0xF8, 0x88, 0x80, 0x80, 0x80],
    &[0xF4, 0x90, 0x80, 0x80],
    &[0xF5, 0x80, 0x80, 0x80],
];

fn itxt_body(kw: &[u8], flag: u8, method: u8, lang: &[u8], tk: &[u8], text: &[u8]) -> Vec<u8> {
    let mut b = kw.to_vec();
    b.push(0);
    b.push(flag);
    b.push(method);
    b.extend_from_slice(lang);
    b.push(0);
    b.extend_from_slice(tk);
    b.push(0);
    b.extend_from_slice(text);
    b
}

/// the string with a U+0000 inserted at the start, in the middle or at the end (or replacing a
/// character, so that the length stays legal)
fn with_nul(rng: &mut Rng, s: &str) -> String {
    let mut cs: Vec<char> = s.chars().collect();
    match rng.below(4) {
        0 => cs.insert(0, '\0'),
        1 => cs.push('\0'),
        2 if !cs.is_empty() => {
            let i = rng.usize(0, cs.len() - 1);
            cs[i] = '\0';
        }
        _ => {
            let i = rng.usize(0, cs.len());
            cs.insert(i, '\0');
        }
    }
    cs.into_iter().collect()
}

fn gen_item(rng: &mut Rng, valid: bool) -> Item {
    let kind = *rng.pick(&['t', 'z', 'i']);
    let kl = kw_len(rng);
    let mut kw = gen_keyword(rng, kl);
    let tl = gen_len(rng);
    let mut text = if kind == 'i' { gen_unicode(rng, tl, true) } else { gen_latin1(rng, tl, true) };
    let mut lang = if rng.bool() { String::new() } else { (0..rng.usize(1, 8)).map(|_| rng.range(0x21, 0x7E) as u8 as char).collect() };
    let tkl = rng.usize(1, 12);
    let tk = if rng.bool() { String::new() } else { gen_unicode(rng, tkl, false) };
    let mut tk_nul = false;
    if !valid {
        match rng.below(12) {
            0 => kw = String::new(),
            1 => kw = gen_keyword(rng, 80),
            2 => {
                let n = rng.usize(81, 300);
                kw = gen_keyword(rng, n)
            }
            3 => {
                let mut cs: Vec<char> = kw.chars().collect();
                let i = rng.usize(0, cs.len() - 1);
                cs[i] = *rng.pick(&['\u{100}', '\u{20AC}', '\u{1F600}']);
                kw = cs.into_iter().collect();
            }
            4 if kind != 'i' => text.push(*rng.pick(&['\u{100}', '\u{20AC}', '\u{1F600}'])),
            5 if kind == 'i' => lang.push(*rng.pick(&['\u{80}', '\u{E9}', '\u{20AC}'])),
            6 => {
                // both wrong: the order of the checks decides the error
                kw = gen_keyword(rng, 80);
                kw.push('\u{100}');
            }
            // U+0000 in a NUL-terminated field (D16, repaired): must be refused, nothing written
            7 | 8 => kw = with_nul(rng, &kw),
            9 if kind == 'i' => lang = with_nul(rng, &lang),
            10 if kind == 'i' => tk_nul = true,
            11 => {
                // NUL and too long: the size check comes first
                let long = gen_keyword(rng, 80);
                kw = with_nul(rng, &long);
            }
            _ => {}
        }
    }
    let tk = if tk_nul { with_nul(rng, &tk) } else { tk };
    Item { kind, kw, text, tail: rng.bool(), flag: rng.bool(), lang, tk }
}

fn corruptions(rng: &mut Rng, z: &[u8]) -> Vec<(Vec<u8>, bool)> {
    let mut out: Vec<(Vec<u8>, bool)> = Vec::new();
    // truncations: every one of the last 6 cut points and two random ones
    for cut in 1..=6usize {
        if z.len() >= cut {
            out.push((z[..z.len() - cut].to_vec(), true));
        }
    }
    for _ in 0..2 {
        if z.len() > 2 {
            out.push((z[..rng.usize(0, z.len() - 1)].to_vec(), true));
        }
    }
    // bad Adler-32
    let mut a = z.to_vec();
    let n = a.len();
    a[n - 1] ^= 1;
    out.push((a, true));
    // bad header
    let mut h = z.to_vec();
    h[0] = 0x79;
    out.push((h, true));
    let mut h = z.to_vec();
    h[1] ^= 0x01;
    out.push((h, true));
    // a flipped bit somewhere: may or may not still be a valid stream (reference decides)
    for _ in 0..3 {
        let mut f = z.to_vec();
        let i = rng.usize(0, f.len() - 1);
        f[i] ^= 1 << rng.below(8);
        out.push((f, false));
    }
    // trailing garbage after a complete stream: not constrained
    let mut t = z.to_vec();
    t.extend_from_slice(&rng.bytes(3));
    out.push((t, false));
    out
}

fn limits_for(len: usize) -> Vec<usize> {
    let mut v = vec![0, 1, len.saturating_sub(1), len, len + 1, 2 << 20];
    v.sort();
    v.dedup();
    v
}

fn gen_cases(ctx: &mut Ctx) -> Vec<Case> {
    let mut rng = ctx.rng.fork(20);
    let quick = ctx.quick();
    let mut cases = Vec::new();

    // --- exhaustive over the 256 code points ---
    for b in 0..=255u8 {
        cases.push(Case::L1 { bytes: vec![b] });
        cases.push(Case::L1 { bytes: vec![b'a', b, b, b'z'] });
        cases.push(Case::L1Enc { s: char::from(b).to_string() });
        for kind in ['z', 'i'] {
            cases.push(Case::Inflate { kind, payload: zlib_level(&[b], 1), limit: 1, strict: true });
        }
    }
    cases.push(Case::L1 { bytes: (0..=255u8).collect() });
    cases.push(Case::L1 { bytes: vec![] });
    for v in [0x100u32, 0x101, 0x17F, 0x3A9, 0x7FF, 0x800, 0x20AC, 0xFFFF, 0x10000, 0x1F600, 0x10FFFF] {
        let c = char::from_u32(v).unwrap();
        cases.push(Case::L1Enc { s: c.to_string() });
        cases.push(Case::L1Enc { s: format!("ab{}", c) });
    }

    // --- Latin-1 byte strings that happen to be well-formed UTF-8 (a decoder that tries UTF-8 first is wrong exactly there;
    //     random bytes above 0x7F almost never are): every lead byte with continuation bytes, random Unicode text read as Latin-1 ---
    for lead in 0xC2..=0xF4u8 {
        let n = if lead < 0xE0 { 1 } else if lead < 0xF0 { 2 } else { 3 };
        let conts: Vec<u8> = if quick { vec![0x80 + (lead & 0x3F)] } else { (0x80..=0xBFu8).collect() };
        for c in conts {
            let mut b = vec![lead];
            // second byte restricted so that the sequence is well-formed (E0: A0..BF, ED: 80..9F, F0: 90..BF, F4: 80..8F)
            let c2 = match lead { 0xE0 => c | 0x20, 0xED => c & 0x9F, 0xF0 => if c < 0x90 { c + 0x10 } else { c }, 0xF4 => c & 0x8F, _ => c };
            b.push(c2);
            for k in 1..n { b.push(0x80 + ((c as usize * 7 + k * 13) % 64) as u8); }
            debug_assert!(std::str::from_utf8(&b).is_ok());
            cases.push(Case::L1 { bytes: b.clone() });
            let mut e = b"x ".to_vec(); e.extend_from_slice(&b); e.extend_from_slice(b" y"); e.extend_from_slice(&b);
            cases.push(Case::L1 { bytes: e });
        }
    }
    for _ in 0..ctx.n(60, 600) {
        let n = gen_len(&mut rng);
        let s = gen_unicode(&mut rng, n.min(4000), true);
        cases.push(Case::L1 { bytes: s.into_bytes() });
    }

    // --- random Latin-1 byte strings and arbitrary strings ---
    for _ in 0..ctx.n(150, 1500) {
        let n = gen_len(&mut rng);
        cases.push(Case::L1 { bytes: rng.class_bytes(n) });
    }
    for k in 0..ctx.n(3, 10) {
        let n = if quick { [300 << 10, 65535, 65536][k % 3] } else { rng.usize(64 << 10, 600 << 10) };
        cases.push(Case::L1 { bytes: rng.bytes(n) });
    }
    for _ in 0..ctx.n(150, 1500) {
        let n = gen_len(&mut rng);
        let s = if rng.bool() { gen_latin1(&mut rng, n, true) } else { gen_unicode(&mut rng, n, true) };
        cases.push(Case::L1Enc { s });
    }
    for _ in 0..ctx.n(2, 6) {
        let n = if quick { 300 << 10 } else { rng.usize(64 << 10, 600 << 10) };
        cases.push(Case::L1Enc { s: gen_latin1(&mut rng, n, true) });
        let mut s = gen_latin1(&mut rng, n, true);
        s.push('\u{100}');
        cases.push(Case::L1Enc { s });
    }

    // --- chunk bodies: well-formed, boundary keywords, malformed ---
    let kw_lens = [0usize, 1, 78, 79, 80, 81, 200];
    for &kl in &kw_lens {
        let kw = ref_latin1_encode(&gen_keyword(&mut rng, kl)).unwrap();
        for after in [false, true] {
            let mut t = kw.clone();
            t.extend_from_slice(b"\0text");
            cases.push(Case::Body { kind: 't', body: t, after });
            let mut z = kw.clone();
            z.extend_from_slice(&[0, 0]);
            z.extend_from_slice(&zlib_level(b"text", 1));
            cases.push(Case::Body { kind: 'z', body: z, after });
            cases.push(Case::Body { kind: 'i', body: itxt_body(&kw, 0, 0, b"en", b"kw", "t\u{e9}xt".as_bytes()), after });
        }
        // no separator at all
        for kind in ['t', 'z', 'i'] {
            cases.push(Case::Body { kind, body: kw.clone(), after: false });
        }
    }
    // flag / method combinations of iTXt and method of zTXt
    for flag in [0u8, 1, 2, 255] {
        for method in [0u8, 1, 255] {
            cases.push(Case::Body { kind: 'i', body: itxt_body(b"k", flag, method, b"", b"", &zlib_level(b"x", 1)), after: false });
            cases.push(Case::Body { kind: 'i', body: itxt_body(b"k", flag, method, b"", b"", b"plain"), after: false });
        }
    }
    for method in [0u8, 1, 8, 255] {
        let mut b = b"k\0".to_vec();
        b.push(method);
        b.extend_from_slice(&zlib_level(b"x", 1));
        cases.push(Case::Body { kind: 'z', body: b, after: false });
    }
    // every prefix of a few well-formed bodies (truncated chunks), and all-NUL / empty bodies
    let bases: Vec<(char, Vec<u8>)> = vec![
        ('t', b"Title\0Some text\0with NULs\0".to_vec()),
        ('z', {
            let mut b = b"Comment\0\0".to_vec();
            b.extend_from_slice(&zlib_level(b"compressed text", 6));
            b
        }),
        ('i', itxt_body(b"Author", 0, 0, b"fr-CA", "Aut\u{e9}ur".as_bytes(), "\u{20ac}\u{1F600} text".as_bytes())),
        ('i', itxt_body(b"Author", 1, 0, b"x", b"y", &zlib_level("\u{20ac}".as_bytes(), 1))),
    ];
    for (kind, b) in &bases {
        for n in 0..=b.len() {
            cases.push(Case::Body { kind: *kind, body: b[..n].to_vec(), after: n % 2 == 1 });
        }
    }
    for kind in ['t', 'z', 'i'] {
        for n in [1usize, 2, 3, 5, 80, 81] {
            cases.push(Case::Body { kind, body: vec![0; n], after: false });
        }
    }
    // invalid UTF-8 in text, translated keyword; non-ASCII language tag
    for bad in BAD_UTF8 {
        for pos in 0..3 {
            let good = "\u{e9}\u{20ac}ok".as_bytes();
            let mut t = Vec::new();
            match pos {
                0 => {
                    t.extend_from_slice(bad);
                    t.extend_from_slice(good)
                }
                1 => {
                    t.extend_from_slice(good);
                    t.extend_from_slice(bad);
                    t.extend_from_slice(good)
                }
                _ => {
                    t.extend_from_slice(good);
                    t.extend_from_slice(bad)
                }
            }
            cases.push(Case::Body { kind: 'i', body: itxt_body(b"k", 0, 0, b"en", b"tk", &t), after: pos == 1 });
            cases.push(Case::Body { kind: 'i', body: itxt_body(b"k", 0, 0, b"en", &t, b"text"), after: false });
            cases.push(Case::Body { kind: 'i', body: itxt_body(b"k", 0, 0, &t, b"tk", b"text"), after: false });
            // the same bytes as a compressed payload: accepted at parse time, refused when the text is asked for
            for limit in [0usize, t.len() - 1, t.len(), 1 << 20] {
                cases.push(Case::Inflate { kind: 'i', payload: zlib_level(&t, 1), limit, strict: true });
            }
        }
    }
    // random well-formed bodies and random mutations of them
    for _ in 0..ctx.n(300, 4000) {
        let kind = *rng.pick(&['t', 'z', 'i']);
        let kl = kw_len(&mut rng);
        let kw = ref_latin1_encode(&gen_keyword(&mut rng, kl)).unwrap();
        let n = gen_len(&mut rng);
        let mut body = match kind {
            't' => {
                let mut b = kw.clone();
                b.push(0);
                b.extend_from_slice(&rng.class_bytes(n));
                b
            }
            'z' => {
                let mut b = kw.clone();
                b.extend_from_slice(&[0, 0]);
                b.extend_from_slice(&zlib_level(&rng.class_bytes(n), *rng.pick(&[0u32, 1, 6])));
                b
            }
            _ => {
                let lang: Vec<u8> = (0..rng.usize(0, 6)).map(|_| rng.range(0x21, 0x7E) as u8).collect();
                let tkl = rng.usize(0, 6);
                let tk = gen_unicode(&mut rng, tkl, false);
                let text = gen_unicode(&mut rng, n, true);
                if rng.bool() {
                    itxt_body(&kw, 1, 0, &lang, tk.as_bytes(), &zlib_level(text.as_bytes(), 1))
                } else {
                    itxt_body(&kw, 0, rng.byte(), &lang, tk.as_bytes(), text.as_bytes())
                }
            }
        };
        match rng.below(6) {
            0 => {
                let i = rng.usize(0, body.len() - 1);
                body[i] = rng.byte();
            }
            1 => {
                let i = rng.usize(0, body.len() - 1);
                body[i] = 0;
            }
            2 => {
                let i = rng.usize(0, body.len());
                body.truncate(i);
            }
            3 => {
                let i = rng.usize(0, body.len().min(90));
                body.insert(i, *rng.pick(&[0u8, 0x80, 0xFF]));
            }
            _ => {}
        }
        cases.push(Case::Body { kind, body, after: rng.bool() });
    }
    for _ in 0..ctx.n(3, 12) {
        // large bodies
        let n = if quick { 300 << 10 } else { rng.usize(64 << 10, 600 << 10) };
        let mut b = b"Big\0".to_vec();
        b.extend_from_slice(&rng.bytes(n));
        cases.push(Case::Body { kind: 't', body: b, after: false });
        let text = gen_unicode(&mut rng, n / 3, true);
        cases.push(Case::Body { kind: 'i', body: itxt_body(b"Big", 0, 0, b"", b"", text.as_bytes()), after: true });
    }

    // --- chunk objects built through the API, encoded, re-read ---
    for &kl in &[0usize, 1, 78, 79, 80] {
        for kind in ['t', 'z', 'i'] {
            for pre in [false, true] {
                let it = Item { kind, kw: gen_keyword(&mut rng, kl), text: "t\u{e9}xt".into(), tail: false, flag: pre, lang: "en".into(), tk: "\u{20ac}".into() };
                cases.push(Case::Enc { it, pre });
            }
        }
    }
    for _ in 0..ctx.n(300, 3000) {
        let valid = rng.chance(2, 3);
        let it = gen_item(&mut rng, valid);
        cases.push(Case::Enc { it, pre: rng.bool() });
    }
    for _ in 0..ctx.n(2, 8) {
        let n = if quick { 300 << 10 } else { rng.usize(64 << 10, 600 << 10) };
        for kind in ['t', 'z', 'i'] {
            let text = if kind == 'i' { gen_unicode(&mut rng, n / 3, true) } else { gen_latin1(&mut rng, n, true) };
            cases.push(Case::Enc { it: Item { kind, kw: "Big".into(), text, tail: false, flag: true, lang: String::new(), tk: String::new() }, pre: rng.bool() });
        }
    }

    // --- files written by the crate's encoder ---
    for _ in 0..ctx.n(80, 800) {
        let n = rng.usize(1, 6);
        let items = (0..n).map(|_| gen_item(&mut rng, true)).collect();
        cases.push(Case::File { items });
    }

    // --- the encoder refuses what cannot be represented, and writes nothing of it ---
    for _ in 0..ctx.n(120, 1200) {
        let n = rng.usize(1, 5);
        let mut items: Vec<Item> = (0..n).map(|_| gen_item(&mut rng, true)).collect();
        let bad = rng.usize(0, n - 1);
        let kind = items[bad].kind;
        let it = &mut items[bad];
        match rng.below(if kind == 'i' { 5 } else { 3 }) {
            0 | 1 => it.kw = with_nul(&mut rng, &it.kw.clone()),
            2 => it.kw = "\0".to_string(),
            3 => {
                it.lang = with_nul(&mut rng, &it.lang.clone());
                it.tail = true; // only `write_text_chunk` takes a language tag
            }
            _ => {
                it.tk = with_nul(&mut rng, &it.tk.clone());
                it.tail = true;
            }
        }
        cases.push(Case::Refuse { items, bad });
    }

    // --- compressed payloads x limits ---
    let lens: Vec<usize> = if quick { vec![0, 1, 2, 100, 1023, 1024, 1025, 32768, 70000] } else { vec![0, 1, 2, 3, 100, 1023, 1024, 1025, 32767, 32768, 32769, 33792, 33793, 70000, 300000] };
    for &len in &lens {
        for kind in ['z', 'i'] {
            let raw: Vec<u8> = if kind == 'z' { rng.class_bytes(len) } else { gen_unicode(&mut rng, len, true).into_bytes() };
            let len = raw.len();
            let level = *rng.pick(&[1u32, 6, 9]);
            for z in [zlib_stored(&raw), zlib_level(&raw, level)] {
                for limit in limits_for(len) {
                    cases.push(Case::Inflate { kind, payload: z.clone(), limit, strict: true });
                }
                if len <= 1100 {
                    for (bad, strict) in corruptions(&mut rng, &z) {
                        for limit in [0, len.saturating_sub(1), len, 2 << 20] {
                            cases.push(Case::Inflate { kind, payload: bad.clone(), limit, strict });
                        }
                    }
                }
            }
        }
    }
    for kind in ['z', 'i'] {
        for p in [vec![], vec![0x78], vec![0x78, 0x01], vec![0x78, 0x9c, 0x03], rng.bytes(40), vec![0u8; 16], vec![0xFF; 16]] {
            for limit in [0usize, 1, 2 << 20] {
                cases.push(Case::Inflate { kind, payload: p.clone(), limit, strict: true });
            }
        }
    }
    // expansion bombs
    let mut bombs: Vec<(usize, u8)> = vec![(1 << 20, 0), ((2 << 20) + 1, b'a'), (2 << 20, b'b')];
    if !quick {
        bombs.push((16 << 20, 0));
        bombs.push((64 << 20, b'x'));
    }
    for (len, fill) in bombs {
        let z = zlib_level(&vec![fill; len], 9);
        for kind in ['z', 'i'] {
            let mut ls = limits_for(len);
            ls.push(4096);
            for limit in ls {
                cases.push(Case::Inflate { kind, payload: z.clone(), limit, strict: true });
            }
        }
    }
    // a bomb whose stream is cut: must be refused whatever the limit, chunk unchanged
    {
        let z = zlib_level(&vec![0u8; 1 << 20], 9);
        for limit in [0usize, 4096, 1 << 20, 2 << 20] {
            cases.push(Case::Inflate { kind: 'z', payload: z[..z.len() - 5].to_vec(), limit, strict: true });
        }
    }

    // --- operation sequences ---
    for _ in 0..ctx.n(400, 4000) {
        let kind = *rng.pick(&['z', 'i']);
        let n = if rng.chance(1, 12) { rng.usize(1000, 6000) } else { rng.usize(0, 120) };
        let text = if kind == 'z' && rng.chance(9, 10) { gen_latin1(&mut rng, n, true) } else { gen_unicode(&mut rng, n, true) };
        let len = raw_of(kind, &text).map(|r| r.len()).unwrap_or(0);
        let m = rng.usize(1, 7);
        let ops: Vec<String> = (0..m)
            .map(|_| match rng.below(9) {
                0 | 1 => "c".to_string(),
                2 | 3 => "g".to_string(),
                4 => "D".to_string(),
                5 => format!("d{}", len),
                6 => format!("d{}", len.saturating_sub(1)),
                7 => format!("d{}", *rng.pick(&[0usize, 1, len + 1, 1 << 20])),
                _ => format!("d{}", rng.usize(0, len + 2)),
            })
            .collect();
        cases.push(Case::Ops { kind, text, start_compressed: rng.bool(), ops });
    }
    cases
}

// ---------------------------------------------------------------------------------------------
// driver
// ---------------------------------------------------------------------------------------------

fn still_fails(c: &Case) -> Option<Fail> {
    let lines = c.lines();
    let ans = if lines.is_empty() { vec![] } else { model::ask_one(&lines) };
    let r = judge(c, &ans);
    NOTES.with(|n| n.borrow_mut().clear());
    r
}

/// cheap shrinking: shorter bodies / byte strings / texts that fail in the same class
fn shrink(c: &Case, class: &str) -> Case {
    let same = |x: &Case| still_fails(x).map(|(_, k, _)| k == class).unwrap_or(false);
    let mut best = c.clone();
    let mut budget = 60;
    loop {
        let cands: Vec<Case> = match &best {
            Case::Body { kind, body, after } if body.len() > 1 => {
                let n = body.len();
                vec![n / 2, n - 1].into_iter().map(|m| Case::Body { kind: *kind, body: body[..m].to_vec(), after: *after }).collect()
            }
            Case::L1 { bytes } if bytes.len() > 1 => {
                let n = bytes.len();
                vec![Case::L1 { bytes: bytes[..n / 2].to_vec() }, Case::L1 { bytes: bytes[n / 2..].to_vec() }, Case::L1 { bytes: bytes[..n - 1].to_vec() }]
            }
            Case::L1Enc { s } if s.chars().count() > 1 => {
                let cs: Vec<char> = s.chars().collect();
                let n = cs.len();
                vec![Case::L1Enc { s: cs[..n / 2].iter().collect() }, Case::L1Enc { s: cs[n / 2..].iter().collect() }]
            }
            Case::Ops { kind, text, start_compressed, ops } if ops.len() > 1 => {
                vec![Case::Ops { kind: *kind, text: text.clone(), start_compressed: *start_compressed, ops: ops[..ops.len() - 1].to_vec() }]
            }
            Case::File { items } if items.len() > 1 => (0..items.len())
                .map(|k| {
                    let mut v = items.clone();
                    v.remove(k);
                    Case::File { items: v }
                })
                .collect(),
            _ => vec![],
        };
        let mut progressed = false;
        for cand in cands {
            if budget == 0 {
                return best;
            }
            budget -= 1;
            if same(&cand) {
                best = cand;
                progressed = true;
                break;
            }
        }
        if !progressed {
            return best;
        }
    }
}

fn size_class(n: usize) -> &'static str {
    match n {
        0 => "0",
        1..=16 => "1-16",
        17..=256 => "17-256",
        257..=4096 => "257-4096",
        4097..=65536 => "4K-64K",
        _ => ">64K",
    }
}

fn record(ctx: &mut Ctx, c: &Case) {
    ctx.rep.count("case", c.name());
    match c {
        Case::L1 { bytes } => ctx.rep.count("latin1 length", size_class(bytes.len())),
        Case::L1Enc { s } => ctx.rep.count("string encodable", if is_latin1(s) { "latin1" } else { "beyond U+00FF" }),
        Case::Body { kind, body, after } => {
            ctx.rep.count("body kind/position", &format!("{}/{}", kind, if *after { "after IDAT" } else { "before IDAT" }));
            ctx.rep.count("body length", size_class(body.len()));
        }
        Case::Enc { it, pre } => {
            ctx.rep.count("encode kind/state", &format!("{}/{}", it.kind, if *pre && it.kind != 't' { "compressed" } else { "uncompressed" }));
            ctx.rep.count("keyword length", &match it.kw.chars().count() {
                0 => "0".to_string(),
                1 => "1".to_string(),
                78 | 79 | 80 => it.kw.chars().count().to_string(),
                n if n > 80 => ">80".to_string(),
                _ => "2-77".to_string(),
            });
        }
        Case::File { items } => ctx.rep.count("file chunks", &items.len().to_string()),
        Case::Refuse { items, bad } => {
            if let Some(it) = items.get(*bad) {
                let why = if !nul_free(&it.kw) {
                    "NUL in keyword"
                } else if it.kind == 'i' && !nul_free(&it.lang) {
                    "NUL in language tag"
                } else if it.kind == 'i' && !nul_free(&it.tk) {
                    "NUL in translated keyword"
                } else {
                    "other"
                };
                ctx.rep.count("refused item", &format!("{}/{}/{}", it.kind, if it.tail { "write_text_chunk" } else { "add_chunk+write_header" }, why));
            }
        }
        Case::Inflate { kind, limit, .. } => ctx.rep.count("inflate kind/limit", &format!("{}/{}", kind, size_class(*limit))),
        Case::Ops { kind, ops, .. } => ctx.rep.count("ops kind/length", &format!("{}/{}", kind, ops.len())),
    }
}

/// `ITXtChunk::encode` with `compressed == false` on a chunk whose text is still in the `Compressed`
/// state inflates the payload and writes it WITHOUT a UTF-8 check (text_metadata.rs:568-573).  The
/// model says the same (`iTXt_roundtrip_inflated_partial`).  C20 does not observe `encode`, so this is
/// recorded as a note, not as a violation; the model comparison is a real check.
fn observe_itxt_inflated(ctx: &mut Ctx) {
    for raw in [&[0xFFu8][..], &[0xC3, 0x28], &[0xED, 0xA0, 0x80], "ok \u{e9}".as_bytes()] {
        let c = match Zi::from_payload('i', &zlib_level(raw, 1)) {
            Ok(Zi::I(c)) => c,
            _ => continue,
        };
        let mut c2 = c.clone();
        c2.compressed = false;
        let written = encode_body(&c2, b"iTXt");
        let lines = vec![format!("c20 encitxt 6b 0 - - c:{}", toy(raw))];
        let ans = model::ask_one(&lines);
        ctx.rep.evals(1);
        ctx.rep.model_compared += 1;
        let imp = match &written {
            Ok(Ok(b)) => hex(b),
            Ok(Err(c)) => c.clone(),
            Err(p) => format!("panic:{}", p),
        };
        if ans[0] != imp {
            ctx.rep.violation(
                "model",
                "enc/i/inflated",
                &format!("model = {} but crate = {}", short(&ans[0]), short(&imp)),
                J::obj().set("op", J::s("observe-itxt-inflated")).set("raw", J::s(&hex(raw))),
            );
        }
        if let Ok(Err(c)) = &written {
            let valid = std::str::from_utf8(raw).is_ok();
            ctx.rep.count("iTXt compressed=false on a Compressed text", &format!("{}: refused by encode ({})", if valid { "valid UTF-8" } else { "invalid UTF-8" }, c));
            if valid {
                ctx.rep.violation("oracle", "enc/i/inflated-refused", &format!("a compressed payload that is valid UTF-8 was refused: {}", c), J::obj().set("op", J::s("observe-itxt-inflated")).set("raw", J::s(&hex(raw))));
            }
        }
        if let Ok(Ok(body)) = &written {
            let back = decode_body('i', body, false);
            let valid = std::str::from_utf8(raw).is_ok();
            let refused = matches!(&back, Ok(Err(c)) if c == "err:unrepresentable");
            ctx.rep.count("iTXt compressed=false on a Compressed text", if valid { "valid UTF-8: written and read back" } else if refused { "invalid UTF-8: WRITTEN by encode, refused by the decoder" } else { "invalid UTF-8: other" });
            if !valid && refused && !ctx.rep.notes.iter().any(|n| n.starts_with("observation (C17")) {
                ctx.rep.notes.push("observation (C17 territory, not judged here): ITXtChunk::encode with compressed=false on a chunk holding a compressed payload that is not UTF-8 writes the raw bytes; the crate's own decoder then fails on that file with BadTextEncoding(Unrepresentable)".into());
            }
        }
    }
}

pub fn run(ctx: &mut Ctx) {
    ctx.rep.rule = "exhaustive: each of the 256 Latin-1 code points decoded from a tEXt chunk in a file, encoded by TEXtChunk::encode, \
        sent through zTXt compress/encode/decode/decompress, and inflated with limit 1 as zTXt and iTXt payload; \
        sampled: byte strings and strings (random, boundary-heavy, up to 300 KiB quick / 600 KiB thorough) x \
        {Latin-1 decode+encode, arbitrary string -> encode outcome, injected chunk bodies (well-formed, every prefix, keyword lengths 0/1/78/79/80/81/200, \
        invalid UTF-8, flag/method values, mutations) before/after IDAT, API-built chunks encoded and re-read, encoder-written files, \
        unrepresentable items (U+0000 in keyword / language tag / translated keyword, among representable ones) that add_*_chunk+write_header / write_text_chunk must refuse without writing a byte of them, \
        compressed payloads (stored/deflated/corrupt/bombs) x limits {0,1,len-1,len,len+1,2 MiB}, operation sequences of compress/decompress/get_text}; \
        non-trivial = carries at least one byte or character of text/payload (bodies: >= 3 bytes; sequences: >= 2 operations); distinct = hash of the whole case"
        .into();
    let pre = model::ask_one(&["c20 codec".to_string(), "c20 consts".to_string()]);
    let _ = CODEC.set(pre[0].clone());
    ctx.rep.notes.push(format!("model codec: {} (payload bytes are never compared, only what they inflate to)", pre[0]));
    ctx.rep.notes.push("allocation during decompress_text_with_limit is not measured (needs a global allocator in main.rs); measured instead: size of the stored text <= limit, refusal without state change".into());
    if pre[1] != format!("{} 79", DECOMPRESSION_LIMIT) {
        ctx.rep.violation("model", "consts", &format!("model constants {} but DECOMPRESSION_LIMIT = {}", pre[1], DECOMPRESSION_LIMIT), J::obj().set("op", J::s("consts")));
    }
    observe_itxt_inflated(ctx);
    let cases = gen_cases(ctx);
    let mut lines = Vec::new();
    let mut spans = Vec::with_capacity(cases.len());
    for c in &cases {
        let l = c.lines();
        spans.push((lines.len(), l.len()));
        lines.extend(l);
    }
    let answers = model::ask(&lines);
    let mut all_256_ok = true;
    for (c, (start, n)) in cases.iter().zip(spans) {
        ctx.rep.eval(c.nontrivial(), c.key());
        if n > 0 {
            ctx.rep.model_compared += 1;
        } else if !matches!(c, Case::File { .. }) {
            // (a `Refuse` case always has a model line)
            ctx.rep.model_gaps += 1;
        }
        record(ctx, c);
        let verdict = judge(c, &answers[start..start + n]);
        let notes: Vec<(String, String)> = NOTES.with(|n| n.borrow_mut().drain(..).collect());
        for (h, k) in notes {
            if h == "model" && n > 0 {
                ctx.rep.model_compared -= 1;
                ctx.rep.model_gaps += 1;
            }
            ctx.rep.count(&h, &k);
        }
        if let Some((kind, class, what)) = verdict {
            if matches!(c, Case::L1 { bytes } if bytes.len() <= 4) || matches!(c, Case::L1Enc { s } if s.chars().count() == 1) {
                all_256_ok = false;
            }
            let small = shrink(c, &class);
            ctx.rep.violation(kind, &class, &what, small.json());
        }
    }
    if all_256_ok {
        ctx.rep.exhaustive.push("all 256 Latin-1 code points: tEXt decode from a file, TEXtChunk::encode, zTXt compress/encode/decode/decompress round trip, bounded inflate as zTXt and iTXt payload".into());
    }
    for c in cases.iter().filter(|c| match c {
        Case::Body { body, .. } => body.len() > 8 && body.len() < 40,
        Case::Ops { text, ops, .. } => text.len() < 12 && ops.len() >= 3,
        Case::Inflate { payload, .. } => payload.len() > 8 && payload.len() < 24,
        _ => false,
    }).step_by(97).take(6) {
        ctx.rep.sample(c.json());
    }
}

pub fn replay(ctx: &mut Ctx, case: &J) {
    let pre = model::ask_one(&["c20 codec".to_string()]);
    let _ = CODEC.set(pre[0].clone());
    if let Some(c) = Case::from_json(case) {
        ctx.rep.eval(true, c.key());
        if let Some((kind, class, what)) = still_fails(&c) {
            ctx.rep.violation(kind, &class, &what, c.json());
        }
    }
}
