//! C19 — the writers never panic, report misuse as `Err`, and a successful `finish()` means a
//! complete stream with exactly one IEND — for every sink that starts failing at any point.
//!
//! Reuses the interpreter, the validator and the model protocol of `c12.rs`.  Small programs are run
//! fault-free first (output length L, number of sink write calls C), then again with a byte-offset
//! fault at every offset 0..=L (permanent and once), flush faults, and a call-index fault at every
//! write call 0..C (permanent and once).  After a failed call the program continues.
use super::c12::*;
use crate::json::J;
use crate::model;
use crate::report::Ctx;
use crate::rng::Rng;

const IEND12: [u8; 12] = [0, 0, 0, 0, 0x49, 0x45, 0x4E, 0x44, 0xAE, 0x42, 0x60, 0x82];

fn mk(cfg: &str, steps: &str, fin: &str, origin: &str) -> Case {
    Case {
        cfg: Cfg::parse(cfg).unwrap_or_else(|| panic!("bad cfg {}", cfg)),
        sink: SinkSpec::default(),
        steps: parse_steps(steps).unwrap_or_else(|| panic!("bad steps {}", steps)),
        fin: PFinal::parse(fin).unwrap_or_else(|| panic!("bad final {}", fin)),
        origin: origin.to_string(),
    }
}

/// stable class keys of the open StreamWriter panics: by panic MESSAGE (line numbers move with every repair)
fn panic_class(case: &Case, msg: &str) -> String {
    let loc = msg.rsplit(" @ ").next().unwrap_or("?").to_string();
    let line = panic_line(msg);
    if case.cfg.fc.is_some() && expected_with_info_err(&case.cfg).is_some() {
        return match line {
            Some(l) => format!("panic/with-info-fctl/{}", l),
            None => format!("panic/with-info-fctl/{}", loc),
        };
    }
    if msg.contains("range end index 4 out of range") {
        // N1: `self.buffer[0..4]` in ChunkWriter::write
        "panic/stream-small-buffer".into()
    } else if msg.contains("entered unreachable code") {
        // N2: the `unreachable!()` arms on `Wrapper`
        "panic/stream-fctl-io-then-write".into()
    } else if msg.contains("must be called on an animated PNG") {
        // N9: `set_fctl`
        "panic/stream-set-fctl".into()
    } else {
        match line {
            Some(l) => format!("panic/encoder.rs:{}", l),
            None => format!("panic/{}", loc),
        }
    }
}

fn is_io(res: &str) -> bool {
    res == "err:io" || res == "err:writeZero"
}

/// the C19 oracles on one run
pub fn oracles(case: &Case, obs: &Observed) -> Vec<Finding> {
    let mut f: Vec<Finding> = vec![];
    let stream = case.has_stream();
    let owned_final = matches!(case.fin, PFinal::Into(_));
    // 1. no panic
    for p in &obs.panics {
        f.push(("oracle", panic_class(case, p), format!("a writer call panicked: {}", p.chars().take(200).collect::<String>())));
    }
    // 2a. the repaired refusals (with_info, first image = canvas, indexed without palette)
    f.extend(repaired_misuse_oracles(case, obs));
    // 2. misuse is Err
    let mut stream_seen = false;
    for c in &obs.calls {
        if c.kind == CallKind::StreamNew {
            stream_seen = true;
        }
        if let Some(m) = c.misuse {
            if c.res == "ok" && m != "first-image-subframe" && m != "indexed-no-palette" {
                let key = if m == "beyond-declared" && stream_seen { "stream-first-image-not-counted".to_string() } else { format!("misuse-accepted/{}", m) };
                f.push(("oracle", key, format!("{} ({}) returned Ok although it is misuse: {}", c.kind.name(), c.what, m)));
            }
        }
    }
    if obs.stream_beyond_declared {
        f.push(("oracle", "stream-first-image-not-counted".into(), "validate_sequence is on and a stream writer accepted an image beyond the declared ones".into()));
    }
    let declared = case.cfg.declared();
    let fin_list = obs.fin.clone().unwrap_or_default();
    let final_is_finish = match &case.fin {
        PFinal::Finish => true,
        PFinal::Drop => false,
        PFinal::Into(s) => s.fin == Fin::Finish,
    };
    let final_ran = match &case.fin {
        PFinal::Into(s) => fin_list.len() == s.ops.len() + 2,
        _ => fin_list.len() == 1,
    };
    let finish_res: Option<&str> = if final_is_finish && final_ran { fin_list.last().map(|s| s.as_str()) } else { None };
    // 3. validate_sequence: finish Ok <=> declared images written (sink never failed)
    if case.cfg.val && obs.sink_errors == 0 && obs.hdr == "ok" && !obs.panicked() {
        if let Some(r) = finish_res {
            let equal = obs.images_ok == declared;
            if !stream {
                if (r == "ok") != equal {
                    f.push(("oracle", "validate/finish-mismatch".into(), format!("validate_sequence: finish returned {} with {} of {} declared images written", r, obs.images_ok, declared)));
                }
            } else if r == "ok" && obs.images_ok < declared {
                f.push(("oracle", "stream-finish-skips-validation".into(), format!("validate_sequence: finish returned Ok with {} of {} declared images written", obs.images_ok, declared)));
            } else if r == "ok" && obs.images_ok > declared {
                f.push(("oracle", "stream-first-image-not-counted".into(), format!("validate_sequence: finish returned Ok with {} images written, {} declared", obs.images_ok, declared)));
            } else if r == "err:missingFrames" && equal {
                f.push(("oracle", "stream-first-image-not-counted".into(), format!("validate_sequence: finish returned MissingFrames although all {} declared images were written", declared)));
            }
        }
    }
    // 4. finish Ok => complete stream
    let (chunks, end, sig) = parse_lenient(&obs.bytes);
    let parses = sig && end == obs.bytes.len();
    if finish_res == Some("ok") {
        let n = obs.calls.len();
        let earlier_io = obs.calls.iter().take(n.saturating_sub(1)).any(|c| is_io(&c.res));
        // D14: a StreamWriter::finish that swallowed a sink error (owned or borrowed) leaves a broken stream behind
        let swallowed_finish = obs.calls.iter().any(|c| c.kind == CallKind::StreamFinish && c.sink_err && c.res == "ok");
        let swallowed_drop = obs.calls.iter().any(|c| c.kind == CallKind::StreamDrop && c.sink_err);
        let incomplete_key = if owned_final || swallowed_finish { "stream-finish-ok-incomplete" } else if swallowed_drop { "stream-drop-error-lost" } else { "finish-ok-incomplete" };
        if !earlier_io {
            let iends = chunks.iter().filter(|c| &c.ty == b"IEND").count();
            let last_iend = chunks.last().map(|c| &c.ty == b"IEND" && c.data.is_empty()).unwrap_or(false);
            if !(parses && iends == 1 && last_iend) {
                f.push(("oracle", incomplete_key.into(), format!("finish() returned Ok but the sink does not hold a complete chunk stream ending in one IEND ({} bytes, parses: {}, IEND chunks: {})", obs.bytes.len(), parses, iends)));
            } else if obs.in_domain(case) {
                if let Err(r) = validate(&obs.bytes) {
                    let key = if obs.sink_errors > 0 && (swallowed_finish || swallowed_drop) { incomplete_key.to_string() } else { oracle_class(case, obs, &r) };
                    f.push(("oracle", key, format!("finish() returned Ok for an in-domain program but the validator rejects the stream: {}", r)));
                }
            }
        } else if !obs.bytes.ends_with(&IEND12) {
            f.push(("oracle", incomplete_key.into(), "finish() returned Ok (after an earlier reported I/O error) but the accepted bytes do not end with the IEND chunk".into()));
        }
    }
    // 5. at most one IEND
    let iend_count = if parses { chunks.iter().filter(|c| &c.ty == b"IEND").count() } else { obs.iend_type_writes };
    if iend_count > 1 {
        f.push(("oracle", "iend-twice".into(), format!("{} IEND emissions", iend_count)));
    }
    // 6./7. a sink failure is reported by the call during which it happens
    for c in &obs.calls {
        if !c.kind.is_drop() && c.sink_err && c.res == "ok" {
            let key = if c.kind == CallKind::StreamFinish { "stream-finish-ok-incomplete".to_string() } else { format!("sink-error-swallowed/{}", c.kind.name()) };
            f.push(("oracle", key, format!("the sink failed during {} ({}) but the call returned Ok", c.kind.name(), c.what)));
        }
    }
    f
}

/// the sink variants of the sweep
fn variants(rng: &mut Rng, l: usize, c: usize, full: bool) -> Vec<SinkSpec> {
    let mut v = vec![SinkSpec::default()];
    let offsets: Vec<usize> = if full { (0..=l).collect() } else { (0..40).map(|_| rng.usize(0, l)).collect() };
    for &o in &offsets {
        v.push(SinkSpec { byte: Some((o, false)), ..Default::default() });
        v.push(SinkSpec { byte: Some((o, true)), ..Default::default() });
    }
    let calls: Vec<usize> = if full { (0..c).collect() } else { (0..20).map(|_| rng.usize(0, c.max(1) - 1)).collect() };
    for &i in &calls {
        v.push(SinkSpec { call: Some((i, false)), ..Default::default() });
        v.push(SinkSpec { call: Some((i, true)), ..Default::default() });
    }
    v.push(SinkSpec { flush: Some((0, false)), ..Default::default() });
    v.push(SinkSpec { flush: Some((0, true)), ..Default::default() });
    v.push(SinkSpec { byte: Some((l / 2, true)), flush: Some((0, true)), ..Default::default() });
    v
}

fn report(ctx: &mut Ctx, case: &Case, table: &str, findings: Vec<Finding>) {
    for (kind, class, what) in findings {
        ctx.rep.violation(kind, &class, &what, case.json(table));
    }
}

fn sweep(ctx: &mut Ctx, rng: &mut Rng, base: &Case, full: bool) {
    let ff = exec(base);
    let table_ff = learn_table(base, &ff);
    let (l, c) = (ff.bytes.len(), ff.write_calls);
    ctx.rep.count("sweep", if full { "every offset and call" } else { "sampled" });
    let whole_only = !base.has_stream();
    let mut runs: Vec<(Case, Observed, Table, bool)> = vec![];
    for sink in variants(rng, l, c, full) {
        let mut case = base.clone();
        case.sink = sink;
        let obs = exec(&case);
        let mut table = table_ff.clone();
        table.merge(&learn_table(&case, &obs));
        // every image operation that reached the compressor needs its stream in the table
        let mut complete = true;
        for (i, st) in case.steps.iter().enumerate() {
            if let (Step::Image(d), Some(rs)) = (st, obs.steps.get(i)) {
                if rs.len() == 1 && (rs[0] == "ok" || rs[0] == "err:io") && !table.map.contains_key(d) {
                    complete = false;
                }
            }
        }
        let compare = whole_only && case.sink.call.is_none() && complete && !table.conflict;
        runs.push((case, obs, table, compare));
    }
    let lines: Vec<String> = runs.iter().filter(|r| r.3).map(|r| r.0.model_line(&r.2.to_str())).collect();
    let answers = model::ask(&lines);
    let mut k = 0;
    for (case, obs, table, compare) in &runs {
        let fired = obs.sink_errors > 0;
        ctx.rep.eval(fired || obs.panicked(), case.key());
        ctx.rep.count("fault kind", match (&case.sink.byte, &case.sink.call, &case.sink.flush) {
            (Some((_, false)), _, None) => "byte offset, permanent",
            (Some((_, true)), _, None) => "byte offset, once",
            (None, Some((_, false)), _) => "write call, permanent",
            (None, Some((_, true)), _) => "write call, once",
            (None, None, Some(_)) => "flush",
            (None, None, None) => "none",
            _ => "combined",
        });
        ctx.rep.count("fault fired", if fired { "yes" } else { "no" });
        ctx.rep.count("final result", &obs.fin_string(case));
        for c in &obs.calls {
            if let Some(m) = c.misuse {
                ctx.rep.count("misuse calls", &format!("{} -> {}", m, c.res));
            }
        }
        let mut findings = oracles(case, obs);
        let oracle_failed = !findings.is_empty();
        if *compare {
            ctx.rep.model_compared += 1;
            let (mf, _) = compare_model(case, obs, &answers[k], table);
            k += 1;
            if !oracle_failed {
                findings.extend(mf);
            }
            ctx.rep.count("model comparison", "results + bytes");
        } else {
            ctx.rep.count("model comparison", if whole_only { if case.sink.call.is_some() { "no (call-index fault)" } else { "no (table incomplete)" } } else { "no (stream session)" });
        }
        report(ctx, case, &table.to_str(), findings);
    }
}

fn directed() -> Vec<Case> {
    let g = "w=2,h=2,c=0,d=8";
    let title = "Tt:5469746c65:6869";
    let mut v = vec![
        mk(g, "I01020304", "F", "directed"),
        mk(g, "I01020304", "D", "directed"),
        mk(&format!("{},comp=0", g), "I01020304", "F", "directed"),
        mk(&format!("{},comp=1,filt=4", g), "I01020304", "F", "directed"),
        mk(&format!("{},val=1", g), &format!("CprVt:0102;I01020304;{}", title), "F", "directed"),
        mk(&format!("{},val=1", g), "I01020304;I05060708", "F", "directed"),
        mk(g, "I01020304;I05060708", "F", "directed"),
        mk(g, "I0102030405;I01020304", "F", "directed"),
        mk(g, "S64[w01020304]F", "F", "directed"),
        mk(&format!("{},val=1", g), "S64[w01020304]F", "F", "directed"),
        mk(g, "S5[w0102,f,w0304]D", "F", "directed"),
        mk(g, "-", "X64[w01020304]F", "directed"),
        mk(&format!("{},val=1", g), "-", "X64[w01020304]F", "directed"),
        mk(g, "-", "X64[w01020304]D", "directed"),
        mk(g, "-", "X5[w0102,f,w0304]F", "directed"),
        mk(g, "S1[w01020304]F", "F", "directed"),
        mk(g, "S64[w0102030405060708]F", "F", "directed"),
        mk(&format!("{},val=1", g), "S64[w0102030405060708]F", "F", "directed"),
        mk(&format!("{},val=1", g), "I01020304", "X64[]F", "directed"),
        mk("w=2,h=2,c=3,d=8,pal=000000ffffff102030,trns=00ff,phys=00000b1300000b1301,gama=45455,srgb=1,exif=4d4d002a,tx=t:5469746c65:6869,tx=z:41:78787878,val=1", "I00010200", "F", "directed"),
        mk("w=2,h=2,c=3,d=8", "I00010200;S64[w00010200]F", "F", "directed"),
        mk(g, "sd1:2;sz1:1;sp0:0;rz;rp;sb1;so1;I01020304", "F", "directed"),
    ];
    let a = "w=2,h=2,c=0,d=8,an=2:0";
    v.extend(vec![
        mk(&format!("{},val=1", a), "I01020304;I05060708", "F", "directed"),
        mk(&format!("{},val=1", a), "I01020304;sd1:2;I05060708", "D", "directed"),
        mk(a, "I01020304;sz1:1;sp1:1;I09", "F", "directed"),
        mk(&format!("{},sep=1,val=1", a), "I01020304;I05060708;I090a0b0c", "F", "directed"),
        mk(a, "I01020304;S64[w05060708]F", "F", "directed"),
        mk(a, "S64[w0102030405060708]F", "F", "directed"),
        mk(&format!("{},val=1", a), "-", "X64[w0102030405060708]F", "directed"),
        mk(&format!("{},val=1", a), "-", "X64[w01020304]F", "directed"),
        mk(a, "-", "X64[w01020304,w05060708,w090a0b0c]F", "directed"),
        mk("w=2,h=2,c=0,d=8,an=1:0", "I01020304;S64[w05060708,w090a0b0c,w0d0e0f10]F", "F", "directed"),
        mk(&format!("{},val=1", a), "I01020304", "F", "directed"),
        mk("w=2,h=2,c=0,d=8,an=3:0", "S5[w01020304,f,w05060708,f,w090a0b0c]F", "D", "directed"),
        mk(&format!("{},val=1", a), "I01020304;I05060708;I090a0b0c", "F", "directed"),
        mk(a, "I01020304;sz0:1;sz3:1;sp2:0;rz;rp;sb1;so2;I05060708", "F", "directed"),
        mk(&format!("{},val=1", a), "S64[w01020304,sz1:1,w05,sz0:0,sp5:5]F;I06", "F", "directed"),
    ]);
    v
}

fn abort_probe_case() -> Case {
    mk("w=1,h=1,c=0,d=8,an=2:0", "-", "X1[w07]F", "abort-probe")
}

/// N1 aborts the process (a second panic inside a destructor while unwinding): run it in a child
fn abort_probe(ctx: &mut Ctx) {
    let case = abort_probe_case();
    let dir = std::env::temp_dir();
    let tag = format!("{}-{}", std::process::id(), ctx.seed);
    let inp = dir.join(format!("c19-probe-{}.json", tag));
    let out = dir.join(format!("c19-probe-{}-out.json", tag));
    let mut cj = case.json("-");
    cj.put("kind", J::s("abort-probe"));
    let file = J::obj().set("case", cj.clone());
    if std::fs::write(&inp, file.to_string()).is_err() {
        ctx.rep.notes.push("abort probe: cannot write the probe file".into());
        return;
    }
    let exe = match std::env::current_exe() {
        Ok(e) => e,
        Err(_) => {
            ctx.rep.notes.push("abort probe: current_exe unavailable".into());
            return;
        }
    };
    let status = std::process::Command::new(exe)
        .args(["C19", "--replay", inp.to_str().unwrap_or(""), "--out", out.to_str().unwrap_or("")])
        .stdout(std::process::Stdio::null())
        .stderr(std::process::Stdio::null())
        .status();
    ctx.rep.eval(true, case.key());
    ctx.rep.count("abort probe", "run");
    match status {
        Ok(st) => {
            #[cfg(unix)]
            let signalled = {
                use std::os::unix::process::ExitStatusExt;
                st.signal().is_some()
            };
            #[cfg(not(unix))]
            let signalled = st.code().is_none();
            if signalled {
                ctx.rep.violation("oracle", "abort/stream-small-buffer", "animated writer + stream buffer smaller than 4 bytes: the process aborts (slice panic in ChunkWriter::write, again inside a destructor while unwinding from the same panic)", cj);
            } else {
                let text = std::fs::read_to_string(&out).unwrap_or_default();
                let j = crate::json::parse(&text).unwrap_or(J::Null);
                let mut reported = false;
                if let Some(vs) = j.get("violations").and_then(|v| v.as_arr()) {
                    for v in vs {
                        if let Some(k) = v.get("class_key").and_then(|k| k.as_str()) {
                            if k.starts_with("panic/") {
                                ctx.rep.violation("oracle", k, v.get("what").and_then(|w| w.as_str()).unwrap_or("panic in the child"), cj.clone());
                                reported = true;
                            }
                        }
                    }
                }
                if !reported {
                    ctx.rep.count("abort probe", &format!("child exit {:?}, no panic reported", st.code()));
                }
            }
        }
        Err(e) => ctx.rep.notes.push(format!("abort probe: cannot start the child: {}", e)),
    }
    let _ = std::fs::remove_file(&inp);
    let _ = std::fs::remove_file(&out);
}

fn single(ctx: &mut Ctx, case: &Case) {
    let obs = exec(case);
    let table = learn_table(case, &obs);
    ctx.rep.eval(obs.panicked() || obs.sink_errors > 0 || case.origin == "extreme", case.key());
    ctx.rep.count("sweep", "single fault-free run");
    let mut findings = oracles(case, &obs);
    if findings.is_empty() && case.sink.call.is_none() && (case.sink.never_fails() || !case.has_stream()) {
        let ans = model::ask_one(&[case.model_line(&table.to_str())]);
        ctx.rep.model_compared += 1;
        findings.extend(compare_model(case, &obs, &ans[0], &table).0);
    }
    report(ctx, case, &table.to_str(), findings);
}

pub fn run(ctx: &mut Ctx) {
    ctx.rep.rule = "fault sweep over small writer programs (2x2 / tiny canvases, <= 6 operations; whole-image API, borrowed and owned stream writers, animated or not, validate on/off, misuse operations): \
        fault-free run, then a sink that fails at EVERY byte offset 0..=L (permanently / once), at every write call 0..C (permanently / once), at flush (permanently / once); larger random programs with 40 sampled offsets; \
        the program continues after a failed call.  Oracles per run: no panic; misuse (wrong data length, image beyond the declared ones under validate_sequence, zero / out-of-range setter arguments, setters on a non-animated writer) is Err; \
        validate_sequence: finish Ok <=> declared images written; finish Ok => complete chunk stream ending in exactly one IEND (and valid per the C12 validator when the program is in the C12 domain); never two IENDs; \
        a sink failure is reported by the call during which it happens (drops excepted).  Model: `c12 run` with the same sink for whole-image programs under byte-offset / flush faults (all results, accepted byte count, FNV of the bytes, IEND attempts). \
        Directed: with_info frame controls that panic, extreme dimensions, one abort probe in a child process.  non-trivial = the injected fault fired (or a panic occurred); distinct = hash of program text + sink".into();
    let mut rng = ctx.rng.fork(19);
    for base in directed() {
        sweep(ctx, &mut rng, &base, true);
    }
    // small random programs
    let n = ctx.n(24, 400);
    for i in 0..n {
        let (color, depth) = *rng.pick(&crate::refpng::LEGAL_PAIRS);
        let (w, h) = (rng.range(1, 3) as u32, rng.range(1, 2) as u32);
        let mut cfg = base_cfg(&mut rng, color, depth, w, h);
        cfg.comp = *rng.pick(&[0u8, 1, 2]);
        cfg.val = rng.bool();
        if rng.chance(1, 2) {
            cfg.anim = Some((rng.range(1, 3) as u32, 0));
            cfg.sep = rng.chance(1, 4);
        }
        let mut case = if i % 2 == 0 {
            let pct = if cfg.anim.is_some() { 15 } else { 40 };
            complete_program(&mut rng, &cfg, pct, "random-small")
        } else {
            let mut c = random_program(&mut rng, &cfg);
            c.steps.truncate(6);
            c.origin = "random-small".into();
            c
        };
        if case.steps.len() > 8 {
            case.steps.truncate(8);
        }
        sweep(ctx, &mut rng, &case, true);
    }
    // larger programs, sampled offsets
    let n = ctx.n(8, 150);
    for _ in 0..n {
        let mut cfg = rand_cfg(&mut rng);
        cfg.w = cfg.w.min(8);
        cfg.h = cfg.h.min(8);
        let pct = if cfg.anim.is_some() { 10 } else { 30 };
        let case = complete_program(&mut rng, &cfg, pct, "random-large");
        sweep(ctx, &mut rng, &case, false);
    }
    if GEN_WITH_INFO_BAD_FCTL {
        for c in with_info_panic_cases() {
            single(ctx, &c);
        }
    }
    for c in extreme_cases() {
        single(ctx, &c);
    }
    abort_probe(ctx);
}

pub fn replay(ctx: &mut Ctx, case: &J) {
    let probe = case.get("kind").and_then(|k| k.as_str()) == Some("abort-probe");
    if let Some(c) = Case::from_json(case) {
        let obs = exec(&c);
        let table = learn_table(&c, &obs);
        ctx.rep.eval(true, c.key());
        ctx.rep.notes.push(format!("hdr={} ops={} fin={} n={} panics={:?}", obs.hdr, obs.ops_string(&c), obs.fin_string(&c), obs.bytes.len(), obs.panics));
        let mut findings = oracles(&c, &obs);
        if !probe && findings.is_empty() && c.sink.call.is_none() && (c.sink.never_fails() || !c.has_stream()) {
            let ans = model::ask_one(&[c.model_line(&table.to_str())]);
            findings.extend(compare_model(&c, &obs, &ans[0], &table).0);
        }
        report(ctx, &c, &table.to_str(), findings);
    }
}
