//! C19 — the writers never panic, report misuse as `Err`, and a successful `finish()` means a
//! complete stream with exactly one IEND — for every sink that starts failing at any point.
//!
//! Reuses the interpreter, the validator and the model protocol of `c12.rs`.  Small programs are run
//! fault-free first (output length L, number of sink write calls C), then again with a byte-offset
//! fault at every offset 0..=L (permanent and once), flush faults, and a call-index fault at every
//! write call 0..C (permanent and once).  After a failed call the program continues.
use super::c12::*;
use crate::json::J;
use crate::model;
use crate::report::Ctx;
use crate::rng::Rng;

const IEND12: [u8; 12] = [0, 0, 0, 0, 0x49, 0x45, 0x4E, 0x44, 0xAE, 0x42, 0x60, 0x82];

fn mk(cfg: &str, steps: &str, fin: &str, origin: &str) -> Case {
    Case {
        cfg: Cfg::parse(cfg).unwrap_or_else(|| panic!("bad cfg {}", cfg)),
        sink: SinkSpec::default(),
        steps: parse_steps(steps).unwrap_or_else(|| panic!("bad steps {}", steps)),
        fin: PFinal::parse(fin).unwrap_or_else(|| panic!("bad final {}", fin)),
        origin: origin.to_string(),
    }
}

/// class key of a panic.  N1, N2, N3, N4, N9 and N12 are repaired: no panic is expected any more.  The key of
/// N12 (after a failed row write the stream writer kept `index == line_len` with `to_write == 0`; the next,
/// narrower frame sliced `curr_buf[..line_len][index..]`; repaired by c724280) is kept, by panic MESSAGE, so that
/// a regression shows up under the same key; everything else is keyed by source line.
fn panic_class(_case: &Case, msg: &str) -> String {
    let loc = msg.rsplit(" @ ").next().unwrap_or("?").to_string();
    if msg.contains("range start index") && loc.contains("encoder.rs") {
        return "panic/stream-stale-row-index".into();
    }
    match panic_line(msg) {
        Some(l) => format!("panic/encoder.rs:{}", l),
        None => format!("panic/{}", loc),
    }
}

fn is_io(res: &str) -> bool {
    res == "err:io" || res == "err:writeZero"
}

/// the C19 oracles on one run
pub fn oracles(case: &Case, obs: &Observed) -> Vec<Finding> {
    let mut f: Vec<Finding> = vec![];
    let stream = case.has_stream();
    let owned_final = matches!(case.fin, PFinal::Into(_));
    // 1. no panic
    for p in &obs.panics {
        f.push(("oracle", panic_class(case, p), format!("a writer call panicked: {}", p.chars().take(200).collect::<String>())));
    }
    // 2a. the repaired refusals (with_info, first image = canvas, indexed without palette)
    f.extend(repaired_misuse_oracles(case, obs));
    // 2. misuse is Err
    for c in &obs.calls {
        if let Some(m) = c.misuse {
            if c.res == "ok" && !judged_with_repairs(m) {
                f.push(("oracle", format!("misuse-accepted/{}", m), format!("{} ({}) returned Ok although it is misuse: {}", c.kind.name(), c.what, m)));
            }
        }
    }
    if obs.stream_beyond_declared {
        f.push(("oracle", "misuse-accepted/stream-beyond-declared".into(), "validate_sequence is on and a stream writer accepted an image beyond the declared ones".into()));
    }
    let declared = case.cfg.declared();
    let fin_list = obs.fin.clone().unwrap_or_default();
    let final_is_finish = match &case.fin {
        PFinal::Finish => true,
        PFinal::Drop => false,
        PFinal::Into(s) => s.fin == Fin::Finish,
    };
    let final_ran = match &case.fin {
        PFinal::Into(s) => fin_list.len() == s.ops.len() + 2,
        _ => fin_list.len() == 1,
    };
    let finish_res: Option<&str> = if final_is_finish && final_ran { fin_list.last().map(|s| s.as_str()) } else { None };
    // 3. validate_sequence: finish Ok <=> declared images written (sink never failed)
    if case.cfg.val && obs.sink_errors == 0 && obs.hdr == "ok" && !obs.panicked() {
        if let Some(r) = finish_res {
            // the same rule for both writers since the repairs (stream images are counted, StreamWriter::finish
            // runs validate_sequence_done).  An abandoned session (N10, open) leaves an fcTL that counts as a frame.
            let equal = obs.images_ok == declared;
            let _ = stream;
            if (r == "ok") != equal {
                let key = if obs.abandoned_session() { "stream-abandoned/validate-finish-mismatch" } else { "validate/finish-mismatch" };
                f.push(("oracle", key.into(), format!("validate_sequence: finish returned {} with {} of {} declared images written", r, obs.images_ok, declared)));
            }
        }
    }
    // 4. finish Ok => complete stream
    let (chunks, end, sig) = parse_lenient(&obs.bytes);
    let parses = sig && end == obs.bytes.len();
    if finish_res == Some("ok") {
        let n = obs.calls.len();
        // an earlier call reported an I/O error — or the sink failed during a call that returned another error
        // (`StreamWriter::finish` in the middle of an image: `MissingData`)
        let earlier_io = obs.calls.iter().take(n.saturating_sub(1)).any(|c| is_io(&c.res) || (c.sink_err && c.res.starts_with("err:")));
        // remainder of N11 (by design of `Drop`): a session dropped in the MIDDLE of an image cannot report the sink
        // error of the chunks it still has to write; a complete session has nothing left to write in its drop
        let _ = owned_final;
        let swallowed_finish = false;
        let swallowed_drop = obs.abandoned_session() && obs.calls.iter().any(|c| c.kind == CallKind::StreamDrop && c.sink_err);
        let incomplete_key = if swallowed_drop { "stream-drop-error-lost" } else { "finish-ok-incomplete" };
        if !earlier_io {
            let iends = chunks.iter().filter(|c| &c.ty == b"IEND").count();
            let last_iend = chunks.last().map(|c| &c.ty == b"IEND" && c.data.is_empty()).unwrap_or(false);
            if !(parses && iends == 1 && last_iend) {
                f.push(("oracle", incomplete_key.into(), format!("finish() returned Ok but the sink does not hold a complete chunk stream ending in one IEND ({} bytes, parses: {}, IEND chunks: {})", obs.bytes.len(), parses, iends)));
            } else if obs.in_domain(case) {
                if let Err(r) = validate(&obs.bytes) {
                    let key = if obs.sink_errors > 0 && (swallowed_finish || swallowed_drop) { incomplete_key.to_string() } else { oracle_class(case, obs, &r) };
                    f.push(("oracle", key, format!("finish() returned Ok for an in-domain program but the validator rejects the stream: {}", r)));
                }
            }
        } else if !obs.bytes.ends_with(&IEND12) {
            f.push(("oracle", incomplete_key.into(), "finish() returned Ok (after an earlier reported I/O error) but the accepted bytes do not end with the IEND chunk".into()));
        }
    }
    // 5. at most one IEND
    let iend_count = if parses { chunks.iter().filter(|c| &c.ty == b"IEND").count() } else { obs.iend_type_writes };
    if iend_count > 1 {
        f.push(("oracle", "iend-twice".into(), format!("{} IEND emissions", iend_count)));
    }
    // 6./7. a sink failure is reported by the call during which it happens
    for c in &obs.calls {
        if !c.kind.is_drop() && c.sink_err && c.res == "ok" {
            let key = format!("sink-error-swallowed/{}", c.kind.name());
            f.push(("oracle", key, format!("the sink failed during {} ({}) but the call returned Ok", c.kind.name(), c.what)));
        }
    }
    f
}

/// the sink variants of the sweep
fn variants(rng: &mut Rng, l: usize, c: usize, full: bool) -> Vec<SinkSpec> {
    let mut v = vec![SinkSpec::default()];
    let offsets: Vec<usize> = if full { (0..=l).collect() } else { (0..40).map(|_| rng.usize(0, l)).collect() };
    for &o in &offsets {
        v.push(SinkSpec { byte: Some((o, false)), ..Default::default() });
        v.push(SinkSpec { byte: Some((o, true)), ..Default::default() });
    }
    let calls: Vec<usize> = if full { (0..c).collect() } else { (0..20).map(|_| rng.usize(0, c.max(1) - 1)).collect() };
    for &i in &calls {
        v.push(SinkSpec { call: Some((i, false)), ..Default::default() });
        v.push(SinkSpec { call: Some((i, true)), ..Default::default() });
    }
    v.push(SinkSpec { flush: Some((0, false)), ..Default::default() });
    v.push(SinkSpec { flush: Some((0, true)), ..Default::default() });
    v.push(SinkSpec { byte: Some((l / 2, true)), flush: Some((0, true)), ..Default::default() });
    v
}

fn report(ctx: &mut Ctx, case: &Case, table: &str, findings: Vec<Finding>) {
    for (kind, class, what) in findings {
        ctx.rep.violation(kind, &class, &what, case.json(table));
    }
}

/// Refused `Encoder` calls (`Cfg::mis`) leave no trace: the same program without them gives the same results and
/// the same bytes (independent of the model, which is asked about the configuration without the calls anyway).
fn refused_calls_leave_no_trace(case: &Case, obs: &Observed) -> Vec<Finding> {
    let mut plain = case.clone();
    plain.cfg.mis.clear();
    let p = exec(&plain);
    let same = p.bytes == obs.bytes && p.hdr == obs.hdr && p.steps == obs.steps && p.fin == obs.fin;
    if same {
        vec![]
    } else {
        vec![("oracle", "encoder-misuse/file-differs".into(), format!("after the refused Encoder calls `{}` the program gives hdr={} fin={} and {} bytes; without them hdr={} fin={} and {} bytes", case.cfg.mis, obs.hdr, obs.fin_string(case), obs.bytes.len(), p.hdr, p.fin_string(case), p.bytes.len()))]
    }
}

fn sweep(ctx: &mut Ctx, rng: &mut Rng, base: &Case, full: bool) {
    let ff = exec(base);
    let table_ff = learn_table(base, &ff);
    let (l, c) = (ff.bytes.len(), ff.write_calls);
    ctx.rep.count("sweep", if full { "every offset and call" } else { "sampled" });
    let whole_only = !base.has_stream();
    let mut runs: Vec<(Case, Observed, Table, bool)> = vec![];
    for sink in variants(rng, l, c, full) {
        let mut case = base.clone();
        case.sink = sink;
        let obs = exec(&case);
        let mut table = table_ff.clone();
        table.merge(&learn_table(&case, &obs));
        // every image operation that reached the compressor needs its stream in the table
        let mut complete = true;
        for (i, st) in case.steps.iter().enumerate() {
            if let (Step::Image(d), Some(rs)) = (st, obs.steps.get(i)) {
                if rs.len() == 1 && (rs[0] == "ok" || rs[0] == "err:io") && !table.map.contains_key(d) {
                    complete = false;
                }
            }
        }
        let compare = (whole_only || case.sink.never_fails() || case.stream_timing_free()) && case.sink.call.is_none() && complete && !table.conflict;
        runs.push((case, obs, table, compare));
    }
    let lines: Vec<String> = runs.iter().filter(|r| r.3).map(|r| r.0.model_line(&r.2.to_str())).collect();
    let answers = model::ask(&lines);
    let mut k = 0;
    for (case, obs, table, compare) in &runs {
        let fired = obs.sink_errors > 0;
        ctx.rep.eval(fired || obs.panicked(), case.key());
        ctx.rep.count("fault kind", match (&case.sink.byte, &case.sink.call, &case.sink.flush) {
            (Some((_, false)), _, None) => "byte offset, permanent",
            (Some((_, true)), _, None) => "byte offset, once",
            (None, Some((_, false)), _) => "write call, permanent",
            (None, Some((_, true)), _) => "write call, once",
            (None, None, Some(_)) => "flush",
            (None, None, None) => "none",
            _ => "combined",
        });
        ctx.rep.count("fault fired", if fired { "yes" } else { "no" });
        ctx.rep.count("final result", &obs.fin_string(case));
        for c in &obs.calls {
            if let Some(m) = c.misuse {
                ctx.rep.count("misuse calls", &format!("{} -> {}", m, c.res));
            }
        }
        let mut findings = oracles(case, obs);
        if !case.cfg.mis.is_empty() {
            findings.extend(refused_calls_leave_no_trace(case, obs));
            for (call, res) in &obs.enc_misuse {
                ctx.rep.count("refused Encoder calls", &format!("{} -> {}", call.split('@').next().unwrap_or(""), res));
            }
        }
        let oracle_failed = !findings.is_empty();
        if *compare {
            let (mf, md) = compare_model(case, obs, &answers[k], table);
            k += 1;
            if !md.starts_with("skipped") {
                ctx.rep.model_compared += 1;
            }
            if !oracle_failed {
                findings.extend(mf);
            }
            ctx.rep.count("model comparison", md);
        } else {
            ctx.rep.count("model comparison", if whole_only { if case.sink.call.is_some() { "no (call-index fault)" } else { "no (table incomplete)" } } else { "no (stream session + failing sink)" });
        }
        report(ctx, case, &table.to_str(), findings);
    }
}

fn directed() -> Vec<Case> {
    let g = "w=2,h=2,c=0,d=8";
    let title = "Tt:5469746c65:6869";
    let mut v = vec![
        mk(g, "I01020304", "F", "directed"),
        mk(g, "I01020304", "D", "directed"),
        mk(&format!("{},comp=0", g), "I01020304", "F", "directed"),
        mk(&format!("{},comp=1,filt=4", g), "I01020304", "F", "directed"),
        mk(&format!("{},val=1", g), &format!("CprVt:0102;I01020304;{}", title), "F", "directed"),
        mk(&format!("{},val=1", g), "I01020304;I05060708", "F", "directed"),
        mk(g, "I01020304;I05060708", "F", "directed"),
        mk(g, "I0102030405;I01020304", "F", "directed"),
        mk(g, "S64[w01020304]F", "F", "directed"),
        mk(&format!("{},val=1", g), "S64[w01020304]F", "F", "directed"),
        mk(g, "S5[w0102,f,w0304]D", "F", "directed"),
        mk(g, "-", "X64[w01020304]F", "directed"),
        mk(&format!("{},val=1", g), "-", "X64[w01020304]F", "directed"),
        mk(g, "-", "X64[w01020304]D", "directed"),
        mk(g, "-", "X5[w0102,f,w0304]F", "directed"),
        mk(g, "S1[w01020304]F", "F", "directed"),
        mk(g, "S64[w0102030405060708]F", "F", "directed"),
        mk(&format!("{},val=1", g), "S64[w0102030405060708]F", "F", "directed"),
        mk(&format!("{},val=1", g), "I01020304", "X64[]F", "directed"),
        mk("w=2,h=2,c=3,d=8,pal=000000ffffff102030,trns=00ff,phys=00000b1300000b1301,gama=45455,srgb=1,exif=4d4d002a,tx=t:5469746c65:6869,tx=z:41:78787878,val=1", "I00010200", "F", "directed"),
        mk("w=2,h=2,c=3,d=8", "I00010200;S64[w00010200]F", "F", "directed"),
        mk(g, "sd1:2;sz1:1;sp0:0;rz;rp;sb1;so1;I01020304", "F", "directed"),
    ];
    let a = "w=2,h=2,c=0,d=8,an=2:0";
    v.extend(vec![
        mk(&format!("{},val=1", a), "I01020304;I05060708", "F", "directed"),
        mk(&format!("{},val=1", a), "I01020304;sd1:2;I05060708", "D", "directed"),
        mk(a, "I01020304;sz1:1;sp1:1;I09", "F", "directed"),
        mk(&format!("{},sep=1,val=1", a), "I01020304;I05060708;I090a0b0c", "F", "directed"),
        mk(a, "I01020304;S64[w05060708]F", "F", "directed"),
        mk(a, "S64[w0102030405060708]F", "F", "directed"),
        mk(&format!("{},val=1", a), "-", "X64[w0102030405060708]F", "directed"),
        mk(&format!("{},val=1", a), "-", "X64[w01020304]F", "directed"),
        mk(a, "-", "X64[w01020304,w05060708,w090a0b0c]F", "directed"),
        mk("w=2,h=2,c=0,d=8,an=1:0", "I01020304;S64[w05060708,w090a0b0c,w0d0e0f10]F", "F", "directed"),
        mk(&format!("{},val=1", a), "I01020304", "F", "directed"),
        mk("w=2,h=2,c=0,d=8,an=3:0", "S5[w01020304,f,w05060708,f,w090a0b0c]F", "D", "directed"),
        mk(&format!("{},val=1", a), "I01020304;I05060708;I090a0b0c", "F", "directed"),
        mk(a, "I01020304;sz0:1;sz3:1;sp2:0;rz;rp;sb1;so2;I05060708", "F", "directed"),
        mk(&format!("{},val=1", a), "S64[w01020304,sz1:1,w05,sz0:0,sp5:5]F;I06", "F", "directed"),
    ]);
    // requested chunk buffers of 0..6 bytes work since the repair (minimum 5), also animated (the former abort N1);
    // every setter of the stream writer between the frames, non-default values
    for size in 0..=6usize {
        v.push(mk("w=1,h=1,c=0,d=8,an=2:0", "-", &format!("X{}[w07,w09]F", size), "directed"));
    }
    v.push(mk("w=2,h=2,c=0,d=8,an=3:0", "I01020304", "X1[w05060708,sd7:9,so2,sb1,sz1:1,sp1:1,w09]F", "directed"));
    v.push(mk("w=2,h=2,c=0,d=8,an=3:0,val=1", "S0[w01020304,sd300:2,so1,sb1,rp,rz,sz2:1,sp0:1,w0506]F;sd1:1;I0708", "F", "directed"));
    v.push(mk("w=2,h=2,c=0,d=8,an=2:0,sep=1", "S3[w01020304,w05060708]D", "X4[so2,sb1,w090a0b0c]F", "directed"));
    // N12 (repaired by c724280; regression case, swept over every offset: expected outcome = no panic):
    // a sink failure during a flush in the middle of the last row, then a narrower frame
    v.push(mk("w=2,h=1,c=0,d=8,an=2:0,comp=0,filt=0", "-", "X4[sz1:1,w01,f,w02,f,w03]F", "directed"));
    // a frame rectangle set BEFORE the first image: refused for the first image whether it is an animation frame or a separate
    // default image (the rectangle decides the size of every image); whole-image call and both stream writers (seeded C19_6)
    for sep in [0, 1] {
        let c = format!("w=2,h=2,c=0,d=8,an=2:0,sep={}", sep);
        v.push(mk(&c, "sz1:1;I07;I01020304;I05060708;I090a0b0c", "F", "directed"));
        v.push(mk(&format!("{},val=1", c), "sz1:2;sp1:0;S64[w0708]F;I01020304;I05060708;I090a0b0c", "F", "directed"));
        v.push(mk(&c, "sz2:1", "X64[w0708,w01020304,w05060708,w090a0b0c]F", "directed"));
    }
    // refused calls on the `Encoder` (set_animated(0, _); set_sep_def_img / set_frame_delay / set_blend_op / set_dispose_op while
    // it is not animated; with_info with half an animation): each is Err and the file is the one written without them
    v.push(mk(&format!("{},mis=zsdboAF", g), "I01020304", "F", "directed"));
    v.push(mk(&format!("{},val=1,mis=sz", g), "sd1:2;I01020304", "X4096[]F", "directed"));
    v.push(mk(&format!("{},mis=dbozs", a), "I01020304;I05060708", "F", "directed"));
    v.push(mk(&format!("{},sep=1,val=1,mis=zF", a), "I01020304;S4096[w05060708,w090a0b0c]F", "F", "directed"));
    v.push(mk("w=2,h=2,c=0,d=8,an=0:0,fc=0:2:2:0:0:1:30:0:0,mis=z", "I01020304", "F", "directed"));
    v.push(mk("w=2,h=2,c=0,d=8,an=0:5,fc=0:0:2:0:0:1:30:0:0,val=1", "-", "D", "directed"));
    // `write` with an empty buffer (Ok(0), nothing happens — also in the states a sink failure leaves behind), the stream
    // writers of the default size (`stream_writer()` / `into_stream_writer()`: 4096)
    v.push(mk(g, "S4096[w,w0102,w,w0304,w]F", "F", "directed"));
    v.push(mk(g, "-", "X4096[w,w01020304,w]F", "directed"));
    v.push(mk(&format!("{},val=1", a), "-", "X4096[w01020304,w,w05060708,w,f,w]F", "directed"));
    v.push(mk("w=2,h=1,c=0,d=8,an=2:0,comp=0,filt=0", "-", "X5[w,w0102,w,sz1:1,w03,w,f,w]F", "directed"));
    v.push(mk(g, "S64[w01020304,w,w05,w]D", "X4096[w]D", "directed"));
    // sessions that end in the middle of an image (N10 / remainder of N11: open)
    v.push(mk(g, "S64[w0102]D;I01020304", "F", "directed"));
    v.push(mk(a, "I01020304;S64[]D;I05060708", "F", "directed"));
    v.push(mk(&format!("{},val=1", a), "I01020304;S64[w05]F;I05060708", "F", "directed"));
    v
}

fn single(ctx: &mut Ctx, case: &Case) {
    let obs = exec(case);
    let table = learn_table(case, &obs);
    ctx.rep.eval(obs.panicked() || obs.sink_errors > 0 || case.origin == "extreme", case.key());
    ctx.rep.count("sweep", "single fault-free run");
    let mut findings = oracles(case, &obs);
    if findings.is_empty() && case.sink.call.is_none() && (case.sink.never_fails() || !case.has_stream() || case.stream_timing_free()) {
        let ans = model::ask_one(&[case.model_line(&table.to_str())]);
        ctx.rep.model_compared += 1;
        findings.extend(compare_model(case, &obs, &ans[0], &table).0);
    }
    report(ctx, case, &table.to_str(), findings);
}

/// An error no writer program provokes (`LimitsExceeded`) and the I/O kinds, built through the public constructors
/// (`TextEncodingError` is crate-private: a failing text compressor cannot be built from outside): formatted, asked for their cause, converted into `io::Error` — never a panic, and the name
/// the result strings of this harness use is the one the message stands for.
fn constructed_errors(ctx: &mut Ctx) {
    use png::EncodingError as E;
    let cases: Vec<(&str, E, &str)> = vec![
        ("limits", E::LimitsExceeded, "err:limits"),
        ("io", E::from(std::io::Error::new(std::io::ErrorKind::Other, "injected")), "err:io"),
        ("io-write-zero", E::from(std::io::Error::from(std::io::ErrorKind::WriteZero)), "err:writeZero"),
    ];
    for (name, e, want) in cases {
        let _ = take_api_faults();
        let shown = crate::util::guarded(|| e.to_string());
        let r: Result<(), E> = Err(e);
        let res = enc_res(&r);
        let back = crate::util::guarded(move || r.map_err(std::io::Error::from).unwrap_err());
        ctx.rep.eval(true, crate::rng::fnv64(name.as_bytes()));
        ctx.rep.count("constructed errors", &format!("{} -> {}", name, res));
        let case = crate::json::J::obj().set("constructed_error", crate::json::J::s(name));
        for (class, what) in take_api_faults() {
            ctx.rep.violation("oracle", &class, &what, case.clone());
        }
        if res != want {
            ctx.rep.violation("oracle", "error-api/name", &format!("{}: the harness reads `{}`, expected `{}`", name, res, want), case.clone());
        }
        match (shown, back) {
            (Ok(s), Ok(io)) => {
                // `From<EncodingError> for io::Error` keeps the message (kind Other)
                if io.to_string() != s || io.kind() != std::io::ErrorKind::Other {
                    ctx.rep.violation("oracle", "error-api/into-io", &format!("{}: `{}` became io::Error `{}` ({:?})", name, s, io, io.kind()), case.clone());
                }
            }
            (a, b) => ctx.rep.violation("oracle", "error-api/panic", &format!("{}: Display {:?}, into io::Error {:?}", name, a.err(), b.err()), case.clone()),
        }
    }
}

pub fn run(ctx: &mut Ctx) {
    ctx.rep.rule = "fault sweep over small writer programs (2x2 / tiny canvases, <= 6 operations; whole-image API, borrowed and owned stream writers, animated or not, validate on/off, misuse operations): \
        fault-free run, then a sink that fails at EVERY byte offset 0..=L (permanently / once), at every write call 0..C (permanently / once), at flush (permanently / once); larger random programs with 40 sampled offsets; \
        the program continues after a failed call.  Oracles per run: no panic; misuse (wrong data length, image beyond the declared ones under validate_sequence, zero / out-of-range setter arguments, setters on a non-animated writer) is Err; \
        validate_sequence: finish Ok <=> declared images written; finish Ok => complete chunk stream ending in exactly one IEND (and valid per the C12 validator when the program is in the C12 domain); never two IENDs; \
        a sink failure is reported by the call during which it happens (drops excepted).  Model: `c12 run` with the same sink for whole-image programs under byte-offset / flush faults (all results, accepted byte count, FNV of the bytes, IEND attempts). \
        Fault-free stream-session programs are compared with the model as well (results, every chunk incl. all fcTL fields).         Directed: with_info frame controls that used to panic, extreme dimensions, requested chunk buffers of 0..6 bytes with animation (in-process: the former abort is repaired),         every stream-writer setter between frames, sessions ended in the middle of an image.  Refused calls on the Encoder (set_animated(0, _); set_sep_def_img / set_frame_delay / set_blend_op / set_dispose_op while it is not animated; with_info with only an animation control or only a frame control, \
        or with zero frames): Err with the documented error, and results and bytes equal those of the same program without the calls (second real run; the model is asked about the configuration without them). \
        `StreamWriter::write(&[])` inside sessions (directed and random; under every fault): Ok(0) without touching the sink, or the unrecoverable state a sink failure of the session left. Sessions of buffer size 4096 go through stream_writer() / into_stream_writer(). \
        Every EncodingError received is formatted with Display and Debug and asked for cause()/source() (no panic, non-empty, a cause exactly for I/O errors); errors no program provokes (LimitsExceeded) are built through the public constructors. \
        non-trivial = the injected fault fired (or a panic occurred); distinct = hash of program text + sink".into();
    let mut rng = ctx.rng.fork(19);
    constructed_errors(ctx);
    for base in directed() {
        sweep(ctx, &mut rng, &base, true);
    }
    // small random programs
    let n = ctx.n(24, 400);
    for i in 0..n {
        let (color, depth) = *rng.pick(&crate::refpng::LEGAL_PAIRS);
        let (w, h) = (rng.range(1, 3) as u32, rng.range(1, 2) as u32);
        let mut cfg = base_cfg(&mut rng, color, depth, w, h);
        cfg.comp = *rng.pick(&[0u8, 1, 2]);
        cfg.val = rng.bool();
        if rng.chance(1, 2) {
            cfg.anim = Some((rng.range(1, 3) as u32, 0));
            cfg.sep = rng.chance(1, 4);
        }
        if rng.chance(1, 4) {
            cfg.mis = rand_mis(&mut rng);
        }
        let mut case = if i % 2 == 0 {
            let pct = if cfg.anim.is_some() { 50 } else { 40 };
            complete_program(&mut rng, &cfg, pct, "random-small")
        } else {
            let mut c = random_program(&mut rng, &cfg);
            c.steps.truncate(6);
            c.origin = "random-small".into();
            c
        };
        if case.steps.len() > 8 {
            case.steps.truncate(8);
        }
        sweep(ctx, &mut rng, &case, true);
    }
    // larger programs, sampled offsets
    let n = ctx.n(8, 150);
    for _ in 0..n {
        let mut cfg = rand_cfg(&mut rng);
        cfg.w = cfg.w.min(8);
        cfg.h = cfg.h.min(8);
        let pct = if cfg.anim.is_some() { 40 } else { 30 };
        let case = complete_program(&mut rng, &cfg, pct, "random-large");
        sweep(ctx, &mut rng, &case, false);
    }
    if GEN_WITH_INFO_BAD_FCTL {
        for c in with_info_panic_cases() {
            single(ctx, &c);
        }
    }
    for c in extreme_cases() {
        single(ctx, &c);
    }
}

pub fn replay(ctx: &mut Ctx, case: &J) {
    let probe = false;
    if let Some(c) = Case::from_json(case) {
        let obs = exec(&c);
        let table = learn_table(&c, &obs);
        ctx.rep.eval(true, c.key());
        ctx.rep.notes.push(format!("hdr={} ops={} fin={} n={} panics={:?}", obs.hdr, obs.ops_string(&c), obs.fin_string(&c), obs.bytes.len(), obs.panics));
        let mut findings = oracles(&c, &obs);
        if !probe && findings.is_empty() && c.sink.call.is_none() && (c.sink.never_fails() || !c.has_stream() || c.stream_timing_free()) {
            let ans = model::ask_one(&[c.model_line(&table.to_str())]);
            findings.extend(compare_model(&c, &obs, &ans[0], &table).0);
        }
        report(ctx, &c, &table.to_str(), findings);
    }
}
