//! C01 — decoded pixels equal the PNG specification's reconstruction.
//!
//! Reference-built files (own filters, own Adam7 interlacer, stored/flate2/fdeflate streams, arbitrary
//! IDAT splits) are decoded by the real `Decoder`/`Reader::next_frame` with the identity
//! transformation; pixels and geometry are compared with (oracle) the pixels the file was built from
//! and (model) `Png.Spec.specFrames` executed by the Lean driver.
use crate::json::J;
use crate::model;
use crate::refpng::*;
use crate::report::Ctx;
use crate::rng::{fnv64, Rng};
use crate::util::{guarded, hex, unhex};
use std::io::Cursor;

pub struct Decoded {
    pub w: u32,
    pub h: u32,
    pub color: u8,
    pub depth: u8,
    pub interlaced: bool,
    pub line_size: usize,
    pub buffer_size: usize,
    pub out_color: u8,
    pub out_depth: u8,
    pub info_line: usize,
    pub info_w: u32,
    pub info_h: u32,
    pub pixels: Vec<u8>,
    /// the public accessors of `Info`: raw_bytes, raw_row_length, bits_per_pixel, bytes_per_pixel, is_animated, animation_control().is_some()
    pub accessors: (usize, usize, usize, usize, bool, bool),
}

/// identity decode of the first image through the public API
pub fn decode_first(file: &[u8]) -> Result<Decoded, String> {
    decode_first_prefill(file, 0)
}

/// ... into a caller's buffer that holds `prefill` in every byte (the property quantifies over the caller's buffer contents too:
/// for Adam7 images with sub-byte pixels the decoder stores pixel fields into it)
pub fn decode_first_prefill(file: &[u8], prefill: u8) -> Result<Decoded, String> {
    let file = file.to_vec();
    match guarded(move || -> Result<Decoded, String> {
        let dec = png::Decoder::new(Cursor::new(file));
        let mut reader = dec.read_info().map_err(|e| format!("read_info: {}", e))?;
        let (w, h, color, depth, interlaced) = {
            let i = reader.info();
            (i.width, i.height, i.color_type as u8, i.bit_depth as u8, i.interlaced)
        };
        let accessors = {
            let i = reader.info();
            (i.raw_bytes(), i.raw_row_length(), i.bits_per_pixel(), i.bytes_per_pixel(), i.is_animated(), i.animation_control().is_some())
        };
        let buffer_size = reader.output_buffer_size();
        let line_size = reader.output_line_size(w);
        let (oc, od) = reader.output_color_type();
        let mut buf = vec![prefill; buffer_size];
        let oi = reader.next_frame(&mut buf).map_err(|e| format!("next_frame: {}", e))?;
        buf.truncate(oi.buffer_size());
        Ok(Decoded {
            w, h, color, depth, interlaced, line_size, buffer_size,
            out_color: oc as u8, out_depth: od as u8,
            info_line: oi.line_size, info_w: oi.width, info_h: oi.height,
            pixels: buf,
            accessors,
        })
    }) {
        Ok(r) => r,
        Err(p) => Err(format!("PANIC {}", p)),
    }
}

/// identity decode of a non-interlaced first image row by row with `read_row`, each time into a buffer 1..7 bytes longer than a line and
/// filled with 0xA5; Err if a call fails or panics, or if a byte behind the row was changed
fn decode_rows_roomy(file: &[u8], rb: usize, h: usize) -> Result<Vec<u8>, String> {
    let file = file.to_vec();
    match guarded(move || -> Result<Vec<u8>, String> {
        let mut reader = png::Decoder::new(Cursor::new(file)).read_info().map_err(|e| format!("read_info: {}", e))?;
        let mut out = Vec::with_capacity(rb * h);
        for y in 0..h {
            let mut buf = vec![0xA5u8; rb + 1 + y % 7];
            match reader.read_row(&mut buf).map_err(|e| format!("read_row: {}", e))? {
                None => return Err(format!("read_row: no row {} of {}", y, h)),
                Some(_) => {}
            }
            if buf[rb..].iter().any(|&b| b != 0xA5) {
                return Err(format!("read_row: bytes behind row {} were written", y));
            }
            out.extend_from_slice(&buf[..rb]);
        }
        Ok(out)
    }) {
        Ok(r) => r,
        Err(p) => Err(format!("PANIC {}", p)),
    }
}

fn describe(s: &Still, nchunks: usize, used: &[u8]) -> J {
    J::obj()
        .set("color", J::i(s.img.color))
        .set("depth", J::i(s.img.depth))
        .set("w", J::i(s.img.w))
        .set("h", J::i(s.img.h))
        .set("interlace", J::Bool(s.interlace))
        .set("filters", J::s(&format!("{:?}", s.filters)))
        .set("deflater", J::s(&format!("{:?}", s.deflater)))
        .set("split", J::s(&format!("{:?}", s.split)))
        .set("idat_chunks", J::i(nchunks as u64))
        .set("filter_types_used", J::s(&{
            let mut u: Vec<u8> = used.to_vec();
            u.sort();
            u.dedup();
            format!("{:?}", u)
        }))
}

/// Judge one file against expected image; returns (kind, class, what)
pub fn judge(file: &[u8], want: &Img, interlace: bool, model_ans: Option<&str>) -> Option<(&'static str, String, String)> {
    let tag = format!("c{}d{}{}", want.color, want.depth, if interlace { "i" } else { "n" });
    let got = match decode_first(file) {
        Err(e) => {
            let k = if e.starts_with("PANIC") { "panic" } else { "error" };
            return Some(("oracle", format!("decode-{}/{}", k, tag), format!("well-formed file rejected: {}", e)));
        }
        Ok(d) => d,
    };
    let rb = want.row_bytes();
    if (got.w, got.h, got.color, got.depth, got.interlaced) != (want.w, want.h, want.color, want.depth, interlace)
        || got.line_size != rb
        || got.buffer_size != rb * want.h as usize
        || (got.out_color, got.out_depth) != (want.color, want.depth)
        || (got.info_w, got.info_h, got.info_line) != (want.w, want.h, rb)
    {
        return Some(("oracle", format!("geometry/{}", tag), format!(
            "reported geometry {}x{} c{} d{} il={} line={} buf={} out=({},{}) info=({}x{},{}) differs from the header's {}x{} c{} d{} il={} line={}",
            got.w, got.h, got.color, got.depth, got.interlaced, got.line_size, got.buffer_size, got.out_color, got.out_depth,
            got.info_w, got.info_h, got.info_line, want.w, want.h, want.color, want.depth, interlace, rb)));
    }
    // the public accessors of Info against values computed from the builder's parameters (oracle only: the model has no
    // notion of these accessors): bytes of the deinterlaced filtered image and of one of its rows (filter byte included),
    // bits and (rounded-up) bytes per pixel, and no animation
    let want_acc = ((1 + rb) * want.h as usize, 1 + rb, want.bits_pp(), want.filter_bpp(), false, false);
    if got.accessors != want_acc {
        return Some(("oracle", format!("geometry-accessors/{}", tag), format!(
            "Info accessors (raw_bytes, raw_row_length, bits_per_pixel, bytes_per_pixel, is_animated, animation_control().is_some()) = {:?}, the header's {}x{} c{} d{} gives {:?}",
            got.accessors, want.w, want.h, want.color, want.depth, want_acc)));
    }
    if got.pixels != want.pixels {
        let at = got.pixels.iter().zip(&want.pixels).position(|(a, b)| a != b).unwrap_or(got.pixels.len().min(want.pixels.len()));
        return Some(("oracle", format!("pixels/{}", tag), format!(
            "decoded pixels differ from the specification's reconstruction at byte {} (row {}, byte {} of the row)", at, at / rb.max(1), at % rb.max(1))));
    }
    if !interlace {
        // the same image row by row through `read_row` with a buffer that is LONGER than a line ("needs to be long enough"): each row is the
        // specification's and nothing behind it is touched
        match decode_rows_roomy(file, rb, want.h as usize) {
            Err(e) => {
                let k = if e.starts_with("PANIC") { "panic" } else { "error" };
                return Some(("oracle", format!("decode-{}/{}/read_row", k, tag), format!("well-formed file rejected row by row through read_row with a buffer longer than a line: {}", e)));
            }
            Ok(px) => {
                if px != want.pixels {
                    return Some(("oracle", format!("pixels/{}/read_row", tag), "rows delivered by read_row into a buffer longer than a line differ from the specification's reconstruction (or bytes behind the row were written)".to_string()));
                }
            }
        }
    }
    if interlace && want.bits_pp() < 8 {
        // a buffer that is not zeroed: every pixel bit is the specification's; only the padding bits behind the last pixel of a
        // row may keep what the buffer held (C15 states exactly which bits are written)
        match decode_first_prefill(file, 0xFF) {
            Err(e) => return Some(("oracle", format!("decode-error/{}/prefilled", tag), format!("well-formed file rejected when the caller's buffer is not zeroed: {}", e))),
            Ok(d2) => {
                let used = (want.w as usize * want.bits_pp()) % 8;
                let ok = d2.pixels.len() == want.pixels.len() && d2.pixels.chunks(rb.max(1)).zip(want.pixels.chunks(rb.max(1))).all(|(a, b)| {
                    a.iter().zip(b).enumerate().all(|(i, (x, y))| {
                        let mask = if i + 1 == rb && used != 0 { 0xFFu8 << (8 - used) } else { 0xFF };
                        x & mask == y & mask
                    })
                });
                if !ok {
                    return Some(("oracle", format!("pixels/{}/prefilled", tag), "decoded into a buffer pre-filled with 0xFF the pixel bits differ from the specification's reconstruction (Adam7, sub-byte pixels)".to_string()));
                }
            }
        }
    }
    if let Some(ans) = model_ans {
        let want_ans = format!("ok {} {} {} {} {} 1 {}:{}:{}:{:016x}", got.w, got.h, got.color, got.depth, got.interlaced as u8,
            got.w, got.h, got.pixels.len(), fnv64(&got.pixels));
        if ans != want_ans {
            return Some(("model", format!("specFrames/{}", tag), format!("model answered `{}`, implementation `{}`", ans, want_ans)));
        }
    }
    None
}

fn shrink(s: &Still, rng_seed: u64, class: &str) -> (Still, Vec<u8>) {
    // fewer rows / narrower, keeping the pixel prefix; stops after a fixed budget
    let build = |st: &Still| -> (Vec<u8>, Vec<u8>) {
        let mut r = Rng(rng_seed);
        let (cs, used) = still_chunks(st, &mut r);
        (serialize(&cs), used)
    };
    let fails = |st: &Still| -> bool {
        let (file, _) = build(st);
        let ans = model::ask_one(&[format!("c01 decode {}", hex(&file))]);
        judge(&file, &st.img, st.interlace, Some(&ans[0])).map(|(_, k, _)| k == class).unwrap_or(false)
    };
    let mut best = s.clone();
    let mut budget = 40;
    loop {
        let mut progressed = false;
        let cands: Vec<(u32, u32)> = vec![(best.img.w, best.img.h / 2), (best.img.w / 2, best.img.h), (best.img.w, best.img.h.saturating_sub(1)), (best.img.w.saturating_sub(1), best.img.h)];
        for (w, h) in cands {
            if w == 0 || h == 0 || (w, h) == (best.img.w, best.img.h) || budget == 0 {
                continue;
            }
            budget -= 1;
            let mut t = best.clone();
            let mut r = Rng(rng_seed ^ 77);
            t.img = Img::random(&mut r, t.img.color, t.img.depth, w, h);
            if fails(&t) {
                best = t;
                progressed = true;
                break;
            }
        }
        if !progressed {
            break;
        }
    }
    let (file, _) = build(&best);
    (best, file)
}

fn big_still(rng: &mut Rng, k: usize) -> Still {
    // ~400 KiB image, long-period content, compressed: match distances of 20-32 KiB across buffer compactions
    let (color, depth) = [(2u8, 8u8), (6, 16), (0, 8), (3, 8)][k % 4];
    let mut img = Img { color, depth, w: 0, h: 0, pixels: vec![] };
    let target = 400 * 1024;
    let w = 600 + 37 * k as u32;
    img.w = w;
    let rb = img.row_bytes();
    img.h = (target / rb).max(2) as u32;
    let total = rb * img.h as usize;
    // every second large image has a period at the top of the deflate window: matches at distance 32768 - d, d in 0..3
    let period = if k % 2 == 0 { 32768 - (k / 2) % 3 } else { 20000 + rng.usize(0, 12000) };
    let pat = rng.bytes(period);
    img.pixels = (0..total).map(|i| pat[i % period] ^ ((i / period) as u8 & 1)).collect();
    if k % 2 == 0 {
        // make the SCANLINE STREAM (filter byte 0 + 4095 gray bytes per row) periodic with period 32768 = 8 rows, so that the
        // own emitter produces nothing but matches at the maximum legal distance 32768 after the first 8 rows
        img.color = 0;
        img.depth = 8;
        img.w = 4095;
        img.h = 100 + k as u32;
        let rows8: Vec<Vec<u8>> = (0..8).map(|_| rng.bytes(4095)).collect();
        img.pixels = (0..img.h as usize).flat_map(|r| rows8[r % 8].clone()).collect();
    }
    // filter None so that the scanline stream itself has the period: the own emitter then produces matches at exactly
    // `period` (the maximum legal distance 32768 for k % 4 == 0) across every compaction of the inflate window
    let deflater = if k % 2 == 0 { Deflater::FixedDist(32768) } else { Deflater::Level(6 + (k as u32 % 4)) };
    Still { img, interlace: k % 2 == 1, filters: if k % 2 == 0 { Filters::Uniform(0) } else { Filters::Random }, deflater, split: if k % 4 == 0 { Split::One } else { Split::Fixed(40000) } }
}

/// (w, h, colour, depth, interlace): raw size h * (1 + row bytes) within one row above a power-of-two buffer size, and tiny
/// 1-bit Adam7 images of height 1
pub fn near_boundary_shapes(rng: &mut Rng, n: usize) -> Vec<(u32, u32, u8, u8, bool)> {
    let mut out = vec![];
    for k in 0..n {
        if k % 5 == 4 {
            out.push((rng.range(3, 24) as u32, 1, 0, 1, true));
            continue;
        }
        let (color, depth) = *rng.pick(&[(0u8, 8u8), (0, 8), (6, 8), (2, 16), (0, 1), (3, 4), (4, 8)]);
        let bits = crate::refpng::samples(color) * depth as usize;
        let boundary = *rng.pick(&[32usize << 10, 32 << 10, 64 << 10, 128 << 10, 128 << 10, 256 << 10]);
        let rowlen = rng.usize(20, 580);            // 1 + row bytes
        let w = (((rowlen - 1) * 8) / bits).max(1) as u32;
        let rowlen = 1 + (w as usize * bits + 7) / 8;
        let h = (boundary / rowlen + 1) as u32;     // raw size in (boundary, boundary + rowlen]
        out.push((w, h, color, depth, false));
    }
    out
}

pub fn run(ctx: &mut Ctx) {
    ctx.rep.rule = "reference-built still images: 15 colour/depth pairs x {none, Adam7} x widths/heights from {1..17, 31..33, 63..65, random <= max} \
        x per-row filter assignment (uniform, cycling so that every type occurs on a first row, random) x deflate producer (stored blocks of several sizes, fdeflate, flate2 levels 0-9) \
        x IDAT split (one, random cuts incl. empty chunks, every byte, fixed sizes around 32 KiB); plus large (~400 KiB) long-period images; plus highly compressible images whose raw size is within one row above 32/64/128/256 KiB and tiny 1-bit Adam7 images (the tail of the image leaves the inflater only when the data sequence is finished); \
        thorough adds all (w,h) <= 9x9 x 15 pairs x 2 interlace x 5 uniform filters; \
        non-trivial = at least 2 rows and at least one filter byte != 0; distinct = hash of the file bytes".into();
    let mut rng = ctx.rng.fork(1);
    let mut cases: Vec<(Still, u64)> = vec![];
    let n = ctx.n(2400, 12000);
    for i in 0..n {
        let max = if i % 25 == 0 { 300 } else { 40 };
        let mut r = rng.fork(i as u64);
        cases.push((random_still(&mut r, max), r.next()));
    }
    for k in 0..ctx.n(2, 8) {
        let mut r = rng.fork(1_000_000 + k as u64);
        cases.push((big_still(&mut r, k), r.next()));
    }
    // highly compressible images whose raw size lies just above 32 / 64 / 128 / 256 KiB: with the whole file in one piece the
    // inflater has taken in the last compressed bytes while its output buffer is exactly full, and the tail of the image only
    // comes out while the data sequence is finished (`finish_compressed_chunks`); tiny Adam7 images whose interlaced size
    // exceeds the expected-output estimate take the same path (seeded changes C01_5, C03_6, C04_4)
    for (k, (w, h, color, depth, il)) in near_boundary_shapes(&mut rng, ctx.n(10, 40)).into_iter().enumerate() {
        let mut r = rng.fork(2_000_000 + k as u64);
        let mut img = Img::random(&mut r, color, depth, w, h);
        let rb = img.row_bytes();
        let keep = if k % 3 == 0 { 0 } else { r.usize(0, 4).min(h as usize) };
        for b in img.pixels[keep * rb..].iter_mut() {
            *b = 0;
        }
        cases.push((Still { img, interlace: il, filters: Filters::Uniform(0), deflater: Deflater::Level(*r.pick(&[1u32, 6, 9])), split: Split::One }, r.next()));
    }
    if !ctx.quick() {
        for &(color, depth) in LEGAL_PAIRS.iter() {
            for w in 1..=9u32 {
                for h in 1..=9u32 {
                    for il in [false, true] {
                        for ft in 0..5u8 {
                            let mut r = rng.fork(((w * 16 + h) as u64) << 8 | ft as u64);
                            let img = Img::random(&mut r, color, depth, w, h);
                            cases.push((Still { img, interlace: il, filters: Filters::Uniform(ft), deflater: Deflater::Level(6), split: Split::One }, r.next()));
                        }
                    }
                }
            }
        }
    }
    let mut files = Vec::with_capacity(cases.len());
    let mut useds = Vec::with_capacity(cases.len());
    for (s, seed) in &cases {
        let mut r = Rng(*seed);
        let (cs, used) = still_chunks(s, &mut r);
        useds.push((used, cs.len()));
        files.push(serialize(&cs));
    }
    let lines: Vec<String> = files.iter().map(|f| format!("c01 decode {}", hex(f))).collect();
    let answers = model::ask(&lines);
    for (i, (s, seed)) in cases.iter().enumerate() {
        let (used, nch) = &useds[i];
        let nontrivial = s.img.h >= 2 && used.iter().any(|&f| f != 0);
        ctx.rep.eval(nontrivial, fnv64(&files[i]));
        ctx.rep.model_compared += 1;
        ctx.rep.count("colour/depth", &format!("{}/{}", s.img.color, s.img.depth));
        ctx.rep.count("interlace", if s.interlace { "adam7" } else { "none" });
        ctx.rep.count("deflater", &format!("{:?}", s.deflater).split('(').next().unwrap_or("?").to_string());
        ctx.rep.count("idat chunks", &(if *nch <= 3 { "1".to_string() } else if *nch <= 10 { "2-8".into() } else { ">8".into() }));
        ctx.rep.count("file size", &(match files[i].len() { 0..=199 => "<200", 200..=1999 => "<2K", 2000..=32767 => "<32K", 32768..=131071 => "<128K", _ => ">=128K" }).to_string());
        for f in used.iter() {
            ctx.rep.count("filter type rows", &f.to_string());
        }
        if let Some((kind, class, what)) = judge(&files[i], &s.img, s.interlace, Some(&answers[i])) {
            let (small, file) = shrink(s, *seed, &class);
            ctx.rep.violation(kind, &class, &what, describe(&small, 0, &[]).set("file", J::s(&hex(&file))).set("expected_pixels", J::s(&hex(&small.img.pixels))));
        }
        if i < 3 {
            ctx.rep.sample(describe(s, *nch, used).set("file_bytes", J::i(files[i].len() as u64)));
        }
    }
    // one image whose decoded size exceeds the default 64 MiB of `Limits` (the caller's frame buffer is not counted against the
    // limit: only row-sized buffers are): 65536 x 8200, 1 bit, 67 174 400 bytes, a few sparse non-zero rows.  Oracle only (the
    // list-based model is not run on 64 MiB).
    {
        let mut r = rng.fork(3_000_000);
        let (w, h) = (65536u32, 8200u32);
        let rb = (w / 8) as usize;
        let mut pixels = vec![0u8; rb * h as usize];
        for _ in 0..64 {
            let at = r.usize(0, pixels.len() - 1);
            pixels[at] = r.range(1, 255) as u8;
        }
        let s = Still { img: Img { color: 0, depth: 1, w, h, pixels }, interlace: false, filters: Filters::Uniform(if r.bool() { 0 } else { 2 }), deflater: Deflater::Level(1), split: Split::Fixed(32 << 10) };
        let (cs, _) = still_chunks(&s, &mut r);
        let file = serialize(&cs);
        ctx.rep.eval(true, fnv64(&file));
        ctx.rep.count("file size", "decoded image > 64 MiB (default Limits)");
        if let Some((kind, class, what)) = judge(&file, &s.img, false, None) {
            ctx.rep.violation(kind, &format!("{}/larger-than-default-limit", class), &what, J::obj().set("what", J::s("65536x8200 1-bit image, default Limits")).set("file_bytes", J::i(file.len() as u64)));
        }
    }
    #[cfg(png_verif)]
    component_ties(ctx);
}

/// component ties through hooks: `ZlibStream` window arithmetic and `UnfilteringBuffer` against their Lean models
#[cfg(png_verif)]
fn component_ties(ctx: &mut Ctx) {
    use png::verif_hooks::{UnfBuf, Zlib};
    let mut rng = ctx.rng.fork(77);
    // ZlibStream: feed a real stream in random pieces; k = bytes handed to image_data per call
    for run in 0..ctx.n(6, 40) {
        let total = rng.usize(200_000, 1_500_000);
        let period = rng.usize(1, 30_000);
        let pat = rng.bytes(period);
        let data: Vec<u8> = (0..total).map(|i| pat[i % period]).collect();
        let z = zlib_stream(&data, &Deflater::Level(1 + (run as u32 % 9)));
        let max_total = match run % 3 { 0 => None, 1 => Some(total), _ => Some(total * 2) };
        let mut zs = Zlib::new();
        if let Some(m) = max_total { zs.set_max_total_output(m); }
        let mut image_data: Vec<u8> = vec![];
        let mut ks = vec![];
        let mut obs = vec![];
        let mut pos = 0usize;
        let mut ok = true;
        while pos < z.len() && ks.len() < 4000 {
            let span = *rng.pick(&[10usize, 1000, 100_000]);
            let n = (1 + rng.usize(0, span)).min(z.len() - pos);
            let before = image_data.len();
            match guarded(|| zs.decompress(&z[pos..pos + n], &mut image_data)) {
                Ok(Ok(c)) => {
                    pos += c.max(if c == 0 && image_data.len() == before { 1 } else { 0 }).min(n);
                    if c == 0 && image_data.len() == before { ok = false; break; }
                }
                _ => { ok = false; break; }
            }
            ks.push(image_data.len() - before);
            let (len, out_pos, read_pos, _) = zs.observe();
            obs.push(format!("{}:{}:{}", len, out_pos, read_pos));
            if image_data.len() > (1 << 22) { image_data.clear(); }
        }
        ctx.rep.eval(true, fnv64(&z) ^ run as u64);
        ctx.rep.count("component", "ZlibStream");
        if !ok {
            ctx.rep.violation("oracle", "zlibstream/stalled-or-failed", "ZlibStream::decompress failed or made no progress on a valid stream", J::obj().set("kind", J::s("zw")).set("run", J::i(run as u64)));
            continue;
        }
        let line = format!("cmp zw {} {}", max_total.map(|m| m.to_string()).unwrap_or("max".into()), ks.iter().map(|k| k.to_string()).collect::<Vec<_>>().join(","));
        let ans = model::ask_one(&[line.clone()]);
        ctx.rep.model_compared += 1;
        let want = obs.join(" ");
        // The LENGTH of the inflater's output buffer is not an observable of C01 (positions and contents are): an implementation
        // whose buffer is shorter than the model's - a gentler growth policy - is not a disagreement as long as it holds the
        // write position; a LONGER one is reported (the model's length is what the memory theorems of C06 bound).
        let tok_ok = |m: &str, i: &str| -> bool {
            if m == i { return true; }
            let (mv, iv): (Vec<u64>, Vec<u64>) = (m.split(':').filter_map(|x| x.parse().ok()).collect(), i.split(':').filter_map(|x| x.parse().ok()).collect());
            mv.len() == 3 && iv.len() == 3 && mv[1] == iv[1] && mv[2] == iv[2] && iv[0] <= mv[0] && iv[0] >= iv[1]
        };
        let a0: Vec<&str> = ans[0].split(' ').collect();
        let relaxed_equal = a0.len() == obs.len() && a0.iter().zip(&obs).all(|(m, i)| tok_ok(m, i));
        if ans[0] != want && relaxed_equal {
            ctx.rep.count("ZlibStream vs model", "equal positions, output buffer shorter than the model's");
        }
        if ans[0] != want && !relaxed_equal {
            let a: Vec<&str> = ans[0].split(' ').collect();
            let at = a.iter().zip(&obs).position(|(x, y)| !tok_ok(x, y)).unwrap_or(0);
            ctx.rep.violation("model", "zlibstream/window", &format!("ZlibStream (out_buffer.len, out_pos, read_pos) after call {}: implementation {}, model {}", at, obs.get(at).cloned().unwrap_or_default(), a.get(at).unwrap_or(&"?")),
                J::obj().set("kind", J::s("zw")).set("line", J::s(&crate::util::shorten(&line, 20000, 0))));
        }
    }
    // ZlibStream::finish_compressed_chunks (oracle only: the window model `cmp zw` has no finishing step).  Highly compressible
    // data whose announced size lies within one row above 32 / 64 / 128 KiB, optionally followed by MORE data than announced:
    // fed the way the decoder feeds a file that is available as a whole (each call gets all that is left), the output buffer
    // is exactly full when the last input byte has been taken in, and the tail - and, with surplus data, a second buffer
    // load - only comes out while finishing.  Whatever the pieces and the size hint: decompress* + finish hands out exactly
    // the data; finishing a stream that was never started hands out nothing; with the Adler-32 check switched on
    // (`set_ignore_adler32(false)`) an altered checksum is refused, switched off it is inert.
    for run in 0..ctx.n(60, 240) {
        let boundary = *rng.pick(&[32usize << 10, 64 << 10, 128 << 10]);
        let rowlen = rng.usize(2, 1100);
        let extra = *rng.pick(&[0usize, 0, 1, 7, 300, 2000, 40_000]);
        // run 21 is fixed (442 x 296 gray: 131128 bytes announced, one surplus byte, checksum intact and checked, one piece)
        let (boundary, rowlen, extra) = if run == 21 { (128usize << 10, 443usize, 1usize) } else { (boundary, rowlen, extra) };
        let n = (boundary / rowlen + 1) * rowlen;
        let mut data = vec![0u8; n + extra];
        let head = if run % 3 == 2 { rng.usize(0, 2000).min(n / 2) } else { 0 };
        for b in data[..head].iter_mut() {
            *b = rng.byte();
        }
        let level = *rng.pick(&[1u32, 6, 9]);
        let mut z = zlib_stream(&data, &Deflater::Level(if run == 21 { 6 } else { level }));
        let hint = match run % 4 { 0 | 1 => Some(n), 2 => None, _ => Some(2 * n) };
        let (check_adler, bad_adler) = (run % 3 == 0, run % 6 < 4 && run % 2 == 0);
        if bad_adler {
            let at = z.len() - 1 - rng.usize(0, 3);
            z[at] ^= 1 << rng.below(8);
        }
        let whole_pieces = run % 5 != 4;
        let mut zs = Zlib::new();
        let mut out: Vec<u8> = vec![];
        let fresh = guarded(|| Zlib::new().finish_compressed_chunks(&mut out));
        let fresh_ok = matches!(fresh, Ok(Ok(()))) && out.is_empty();
        if let Some(m) = hint { zs.set_max_total_output(m); }
        let accepted = zs.set_ignore_adler32(!check_adler);
        let mut pos = 0usize;
        let mut failed: Option<String> = None;
        let mut calls = 0usize;
        while pos < z.len() && failed.is_none() {
            calls += 1;
            let end = if whole_pieces { z.len() } else { (pos + 1 + rng.usize(0, 60)).min(z.len()) };
            let before = out.len();
            match guarded(|| zs.decompress(&z[pos..end], &mut out)) {
                Ok(Ok(c)) => {
                    if (c == 0 && out.len() == before) || calls > 100_000 { failed = Some("no progress".into()); }
                    pos += c;
                }
                Ok(Err(e)) => failed = Some(e),
                Err(p) => failed = Some(format!("PANIC {}", p)),
            }
        }
        let (len, out_pos, _, _) = zs.observe();
        let full_with_pending = failed.is_none() && len == out_pos && out.len() < data.len();
        if failed.is_none() {
            match guarded(|| zs.finish_compressed_chunks(&mut out)) {
                Ok(Ok(())) => {}
                Ok(Err(e)) => failed = Some(e),
                Err(p) => failed = Some(format!("PANIC {}", p)),
            }
        }
        ctx.rep.eval(true, fnv64(&z) ^ run as u64);
        ctx.rep.count("component", "ZlibStream finish (oracle only)");
        ctx.rep.count("ZlibStream finish", &format!("{}{}", if full_with_pending { "output buffer full, data pending" } else { "output buffer not full" }, if extra > 0 && hint == Some(n) { ", more data than announced" } else { "" }));
        let case = J::obj().set("kind", J::s("zfinish")).set("n", J::i(n as u64)).set("extra", J::i(extra as u64)).set("hint", J::i(hint.map(|h| h as i64).unwrap_or(-1))).set("check_adler", J::Bool(check_adler)).set("stream", J::s(&hex(&z)));
        let must_fail = check_adler && bad_adler;
        if !fresh_ok || !accepted {
            ctx.rep.violation("oracle", "zlibstream/finish-of-new-stream", "finish_compressed_chunks on a new ZlibStream failed or produced output, or set_ignore_adler32 was refused before any input", case);
        } else if failed.as_deref().map(|f| f.starts_with("PANIC")).unwrap_or(false) {
            ctx.rep.violation("oracle", "zlibstream/finish-panic", &format!("ZlibStream panicked: {}", failed.unwrap_or_default()), case);
        } else if must_fail != failed.is_some() {
            // more data in the stream than the announced size (`hint` = max_total_output): not a well-formed image
            let surplus = hint.map(|h| h < n + extra).unwrap_or(false);
            let key = if must_fail { "zlibstream/adler-not-checked".to_string() }
                else if check_adler && failed.as_deref().map(|f| f.contains("WrongChecksum")).unwrap_or(false) { format!("zlibstream/intact-checksum-refused{}", if surplus { "/more-data-than-announced" } else { "" }) }
                else { "zlibstream/finish-failed".to_string() };
            if surplus && key.starts_with("zlibstream/intact-checksum-refused") {
                // a stream that inflates to MORE than the image announces is not a well-formed PNG: outside C01's domain.  That its
                // intact checksum is refused when the data arrives in one piece (and accepted in small pieces) is C04's recorded
                // finding D27 (class reader/surplus-data-result-differs/adler-check-on); here it is only counted.
                ctx.rep.count("ZlibStream finish, outside C01's domain", "more data than announced, Adler-32 check on: intact checksum refused (D27, see C04)");
            } else {
                ctx.rep.violation("oracle", &key, &format!("ZlibStream (Adler-32 check {}, checksum {}): {}", if check_adler { "on" } else { "off" }, if bad_adler { "altered" } else { "intact" }, failed.unwrap_or("decompress + finish succeeded".into())), case);
            }
        } else if failed.is_none() && out != data {
            let at = out.iter().zip(&data).position(|(a, b)| a != b).unwrap_or(out.len().min(data.len()));
            ctx.rep.violation("oracle", "zlibstream/finish-output", &format!("decompress* + finish_compressed_chunks handed out {} bytes, the stream holds {}; first difference at {}", out.len(), data.len(), at), case);
        }
    }
    // UnfilteringBuffer
    for run in 0..ctx.n(150, 600) {
        let bpp = *rng.pick(&[1usize, 2, 3, 4, 6, 8]);
        let rowlen = 1 + bpp * rng.usize(1, 40);
        let rows = rng.usize(1, 12);
        let mut stream = vec![];
        for _ in 0..rows {
            stream.push(if rng.chance(1, 30) { rng.range(5, 255) as u8 } else { rng.below(5) as u8 });
            stream.extend(rng.class_bytes(rowlen - 1));
        }
        let mut ub = UnfBuf::new();
        let mut ops: Vec<String> = vec![];
        let mut obs: Vec<String> = vec![];
        let show = |u: &UnfBuf| { let (d, p, c) = u.observe(); format!("{}:{}:{}:{:016x}", p, c, d.len(), fnv64(&d)) };
        ub.reset_prev_row();
        ops.push("r".into());
        obs.push(show(&ub));
        let mut pos = 0usize;
        let mut dead = false;
        while (pos < stream.len() || ub.curr_row_len() >= rowlen) && !dead && ops.len() < 400 {
            if ub.curr_row_len() >= rowlen && (pos >= stream.len() || rng.bool()) {
                ops.push("u".into());
                match guarded(|| ub.unfilter_curr_row(rowlen, bpp as u8)) {
                    Ok(Ok(())) => obs.push(show(&ub)),
                    Ok(Err(_)) => {
                        let (d, _, c) = ub.observe();
                        obs.push(format!("err{}", d[c]));
                        dead = true; // the decoder stops at an unknown filter byte
                    }
                    Err(_) => { obs.push("panic".into()); dead = true; }
                }
            } else if pos < stream.len() {
                let n = (1 + rng.usize(0, 2 * rowlen)).min(stream.len() - pos);
                ub.append(&stream[pos..pos + n]);
                ops.push(format!("a{}", hex(&stream[pos..pos + n])));
                obs.push(show(&ub));
                pos += n;
            }
        }
        ctx.rep.eval(true, fnv64(&stream) ^ run as u64);
        ctx.rep.count("component", "UnfilteringBuffer");
        let line = format!("cmp ub {} {} {}", rowlen, bpp, ops.join(","));
        let ans = model::ask_one(&[line.clone()]);
        ctx.rep.model_compared += 1;
        if ans[0] != obs.join(" ") {
            ctx.rep.violation("model", "unfilteringbuffer", &format!("UnfilteringBuffer states differ: implementation `{}` model `{}`", &obs.join(" ")[..obs.join(" ").len().min(300)], &ans[0][..ans[0].len().min(300)]),
                J::obj().set("kind", J::s("ub")).set("line", J::s(&line)));
        }
    }
}

pub fn replay(ctx: &mut Ctx, case: &J) {
    let get = |k: &str| case.get(k).and_then(|v| v.as_i64()).unwrap_or(0);
    #[cfg(png_verif)]
    if case.get("kind").and_then(|k| k.as_str()) == Some("zfinish") {
        // the stored stream in one piece, then finish; reference: miniz_oxide's zlib inflater (which verifies the Adler-32)
        use png::verif_hooks::Zlib;
        let z = case.get("stream").and_then(|f| f.as_str()).and_then(unhex).unwrap_or_default();
        let check = matches!(case.get("check_adler"), Some(J::Bool(true)));
        let reference = miniz_oxide::inflate::decompress_to_vec_zlib(&z);
        let mut zs = Zlib::new();
        if get("hint") >= 0 { zs.set_max_total_output(get("hint") as usize); }
        zs.set_ignore_adler32(!check);
        let mut out = vec![];
        let mut pos = 0usize;
        let mut failed: Option<String> = None;
        while pos < z.len() && failed.is_none() {
            match zs.decompress(&z[pos..], &mut out) { Ok(0) => failed = Some("no progress".into()), Ok(c) => pos += c, Err(e) => failed = Some(e) }
        }
        if failed.is_none() { if let Err(e) = zs.finish_compressed_chunks(&mut out) { failed = Some(e); } }
        ctx.rep.eval(true, fnv64(&z));
        println!("ZlibStream: {:?} ({} bytes); reference inflater: {}", failed, out.len(), match &reference { Ok(d) => format!("ok, {} bytes", d.len()), Err(e) => format!("{:?}", e.status) });
        match (&reference, &failed) {
            (Ok(d), None) if *d == out => {}
            (Ok(_), None) => ctx.rep.violation("oracle", "zlibstream/finish-output", "output differs from the reference inflater's", case.clone()),
            (Ok(_), Some(e)) => ctx.rep.violation("oracle", if e.contains("WrongChecksum") { "zlibstream/intact-checksum-refused/replay" } else { "zlibstream/finish-failed" }, &format!("a stream the reference inflater accepts (checksum included) is refused: {}", e), case.clone()),
            (Err(_), None) if check => ctx.rep.violation("oracle", "zlibstream/adler-not-checked", "a stream the reference inflater refuses is accepted with the Adler-32 check on", case.clone()),
            _ => {}
        }
        return;
    }
    let file = case.get("file").and_then(|f| f.as_str()).and_then(unhex).unwrap_or_default();
    let px = case.get("expected_pixels").and_then(|f| f.as_str()).and_then(unhex).unwrap_or_default();
    let img = Img { color: get("color") as u8, depth: get("depth") as u8, w: get("w") as u32, h: get("h") as u32, pixels: px };
    let il = matches!(case.get("interlace"), Some(J::Bool(true)));
    let ans = model::ask_one(&[format!("c01 decode {}", hex(&file))]);
    ctx.rep.eval(true, fnv64(&file));
    if let Some((kind, class, what)) = judge(&file, &img, il, Some(&ans[0])) {
        ctx.rep.violation(kind, &class, &what, case.clone());
    }
}
