//! C11 — checksum policy is honoured.
//!
//! Relation between decoding a file and decoding the same file with one checksum-covered bit or one
//! checksum field altered, under the option grid (ignore_crc, ignore_adler32, skip_ancillary_crc_failures).
use crate::canon::*;
use crate::corpus;
use crate::json::J;
use crate::props::c04::run_reader;
use crate::refpng::crc32;
use crate::report::Ctx;
use crate::rng::{fnv64, Rng};
use crate::util::{hex, unhex};

#[derive(Clone, Debug)]
pub struct ChunkPos {
    pub ty: [u8; 4],
    pub start: usize, // offset of the length field
    pub len: usize,
    /// index of the frame (data-chunk sequence) this chunk belongs to / precedes
    pub frame: usize,
}

pub fn chunk_positions(file: &[u8]) -> Vec<ChunkPos> {
    let mut v = vec![];
    let mut p = 8usize;
    let mut frame = 0usize;
    let mut in_data: Option<[u8; 4]> = None;
    while p + 12 <= file.len() {
        let len = u32::from_be_bytes([file[p], file[p + 1], file[p + 2], file[p + 3]]) as usize;
        if p + 12 + len > file.len() {
            break;
        }
        let ty = [file[p + 4], file[p + 5], file[p + 6], file[p + 7]];
        let is_data = &ty == b"IDAT" || &ty == b"fdAT";
        if let Some(t) = in_data {
            if !is_data || t != ty {
                frame += 1;
                in_data = None;
            }
        }
        if is_data {
            in_data = Some(ty);
        }
        v.push(ChunkPos { ty, start: p, len, frame });
        p += 12 + len;
    }
    v
}

/// index of the first failing stage in a canonical reader result: 0.. = frame k, None = no error;
/// `read_info` failures count as frame 0; a failing `finish` counts as usize::MAX - 1
pub fn first_error_stage(r: &str) -> Option<usize> {
    if r.starts_with("read_info:") || r.starts_with("PANIC") {
        return Some(0);
    }
    for tok in r.split(' ') {
        if tok.starts_with("fin:") {
            if tok.starts_with("fin:err") {
                return Some(usize::MAX - 1);
            }
            continue;
        }
        if let Some(rest) = tok.strip_prefix('f') {
            if let Some((k, tail)) = rest.split_once(':') {
                if tail.starts_with("err(") {
                    // `parameter` after the last frame is the normal end-of-image report, not a failure
                    if tail.starts_with("err(parameter)") {
                        continue;
                    }
                    if let Ok(k) = k.parse() {
                        return Some(k);
                    }
                }
            }
        }
        if tok.starts_with("fin:err") {
            return Some(usize::MAX - 1);
        }
    }
    None
}

fn delete_chunk(file: &[u8], c: &ChunkPos) -> Vec<u8> {
    let mut v = file[..c.start].to_vec();
    v.extend_from_slice(&file[c.start + 12 + c.len..]);
    v
}

fn ty_str(t: &[u8; 4]) -> String {
    t.iter().map(|&b| if b.is_ascii_alphabetic() { b as char } else { '?' }).collect()
}

fn case(file: &[u8], what: &str, at: usize, opts: &[bool; 5]) -> J {
    J::obj().set("file", J::s(&hex(file))).set("mutation", J::s(what)).set("offset", J::i(at as u64)).set("opts", J::s(&opts_string(opts)))
}

/// one covered-bit flip / checksum replacement of chunk `c`; checks the property's relations
fn check_flip(ctx: &mut Ctx, file: &[u8], c: &ChunkPos, at: usize, mask: u8, what: &str, opts: &[bool; 5], base: &str) {
    let mut flipped = file.to_vec();
    flipped[at] ^= mask;
    let is_crc_field = at >= c.start + 8 + c.len;
    let r = run_reader(&flipped, &[], opts, png::Transformations::IDENTITY);
    let ty = ty_str(&c.ty);
    // the chunk as it now appears in the file (a type-bit flip changes its name)
    let new_ty = [flipped[c.start + 4], flipped[c.start + 5], flipped[c.start + 6], flipped[c.start + 7]];
    let critical_now = new_ty[0] & 32 == 0;
    ctx.rep.eval(true, fnv64(&flipped) ^ fnv64(&opts_string(opts).into_bytes()));
    ctx.rep.count("chunk kind", &ty);
    ctx.rep.count("mutation", what);
    ctx.rep.count("options", &opts_string(opts));
    if r.starts_with("PANIC") {
        ctx.rep.violation("oracle", &format!("panic/{}", ty), &format!("decoder panicked on a file with an altered {} of {}: {}", what, ty, r), case(&flipped, what, at, opts));
        return;
    }
    if opts[1] {
        // ignore_crc: the result must be independent of the CRC field; data/type flips are out of scope here
        if is_crc_field && r != base {
            ctx.rep.violation("oracle", &format!("ignore-crc-not-inert/{}", ty), &format!("with CRC checking disabled, altering the CRC field of {} changes the result", ty), case(&flipped, what, at, opts));
        }
        return;
    }
    let stage = first_error_stage(&r);
    // the frame the chunk belongs to, in the file as it now is (a type flip can take it out of a data sequence)
    let frame = chunk_positions(&flipped).iter().find(|x| x.start == c.start).map(|x| x.frame).unwrap_or(c.frame).max(c.frame);
    let failed_in_time = matches!(stage, Some(k) if k <= frame || (frame >= frames_in(base) && k == usize::MAX - 1));
    if failed_in_time {
        return;
    }
    // not an error (in time): allowed only if the chunk was skipped as if absent
    let deleted = run_reader(&delete_chunk(file, c), &[], opts, png::Transformations::IDENTITY);
    if r == deleted {
        if critical_now && !opts[1] {
            // a critical chunk whose CRC mismatches must make decoding fail - being skipped is not allowed
            // unless deleting it is itself invisible (e.g. an empty IDAT)
            if deleted != *base {
                ctx.rep.violation("oracle", &format!("critical-bad-crc-not-fatal/{}", ty), &format!("critical chunk {} with a CRC mismatch ({}) did not make decoding fail", ty, what), case(&flipped, what, at, opts));
            }
        }
        return;
    }
    let key = if critical_now { format!("critical-bad-crc-not-fatal/{}", ty) } else { format!("ancillary-bad-crc-contributes/{}", ty_str(&new_ty)) };
    ctx.rep.violation("oracle", &key,
        &format!("chunk {} with a CRC mismatch ({}, options {}) still contributes: result is neither an error by frame {} nor the result without the chunk", ty, what, opts_string(opts), c.frame),
        case(&flipped, what, at, opts));
}

fn frames_in(r: &str) -> usize {
    r.split(' ').filter(|t| t.starts_with('f') && t.contains(":ok(")).count()
}

/// offset of the Adler-32 field of the first image's zlib stream when it lies inside the last IDAT chunk
fn adler_offset(file: &[u8], chunks: &[ChunkPos]) -> Option<usize> {
    let idats: Vec<&ChunkPos> = chunks.iter().filter(|c| &c.ty == b"IDAT").collect();
    let last = idats.last()?;
    if last.len >= 4 { Some(last.start + 8 + last.len - 4) } else { None }
}

pub fn check_file(ctx: &mut Ctx, file: &[u8], rng: &mut Rng, flips_per_chunk: usize) {
    let chunks = chunk_positions(file);
    let grid: [[bool; 5]; 4] = [
        DEFAULT_OPTS,
        [true, true, false, false, true],   // ignore_crc
        [false, false, false, false, true], // ignore_adler32 = false
        [true, false, false, false, false], // skip_ancillary_crc_failures = false
    ];
    for opts in grid.iter() {
        let base = run_reader(file, &[], opts, png::Transformations::IDENTITY);
        if base.starts_with("PANIC") {
            continue; // C02's business
        }
        for c in &chunks {
            for k in 0..flips_per_chunk {
                // type, data and CRC bits; CRC := random
                let (at, mask, what): (usize, u8, &str) = match k % 4 {
                    0 => (c.start + 8 + c.len + rng.usize(0, 3), 1 << rng.below(8), "crc-bit"),
                    1 if c.len > 0 => (c.start + 8 + rng.usize(0, c.len - 1), 1 << rng.below(8), "data-bit"),
                    2 => (c.start + 4 + rng.usize(0, 3), 1 << rng.below(8), "type-bit"),
                    _ => (c.start + 8 + c.len + rng.usize(0, 3), (rng.below(255) + 1) as u8, "crc-byte"),
                };
                check_flip(ctx, file, c, at, mask, what, opts, &base);
            }
        }
        // Adler-32 field of the image data
        if let Some(a) = adler_offset(file, &chunks) {
            // only when the stream really ends with its Adler-32 inside this chunk (builder files with one stream per image)
            let mut alt = file.to_vec();
            alt[a + rng.usize(0, 3)] ^= 1 << rng.below(8);
            if let Some(fixed) = corpus::repair_crcs(&alt) {
                let r = run_reader(&fixed, &[], opts, png::Transformations::IDENTITY);
                ctx.rep.eval(true, fnv64(&fixed));
                ctx.rep.count("mutation", "adler-field");
                if opts[0] {
                    if r != base {
                        ctx.rep.violation("oracle", "adler-not-inert", "with Adler-32 checking disabled (default) altering the zlib checksum field changes the result", case(&fixed, "adler", a, opts));
                    }
                } else if first_error_stage(&base).is_none() && first_error_stage(&r) != Some(0) {
                    ctx.rep.violation("oracle", "adler-not-checked", "with Adler-32 checking enabled a wrong zlib checksum of the image data is not an error", case(&fixed, "adler", a, opts));
                }
            }
        }
    }
    let _ = crc32;
}

/// `Decoder::ignore_checksums(true)` / `(false)` as option sets
const IGNORE_ON: [bool; 5] = [true, true, false, false, true];
const IGNORE_OFF: [bool; 5] = [false, false, false, false, true];

/// feed `file[..cut]`, call `set_ignore_adler32(flag)`, feed the rest; returns (what the setter answered, what the getter
/// says afterwards, error class or "ok")
fn late_adler_setter(file: &[u8], cut: usize, flag: bool) -> Result<(bool, bool, String), String> {
    let file = file.to_vec();
    crate::util::guarded(move || {
        let mut dec = png::StreamingDecoder::new();
        let mut img = vec![];
        let mut err = "ok".to_string();
        let mut answered = true;
        for (part, piece) in [&file[..cut.min(file.len())], &file[cut.min(file.len())..]].iter().enumerate() {
            if part == 1 {
                answered = dec.set_ignore_adler32(flag);
            }
            let mut buf = *piece;
            let mut calls = 0usize;
            while !buf.is_empty() && err == "ok" {
                calls += 1;
                if calls > crate::util::spin_budget(file.len()) {
                    err = "SPIN".into();
                    break;
                }
                match dec.update(buf, &mut img) {
                    Ok((_, png::Decoded::ImageEnd)) => break,
                    Ok((n, _)) => buf = &buf[n..],
                    Err(e) => err = err_class(&e),
                }
            }
        }
        (answered, dec.ignore_adler32(), err)
    })
}

/// The checksum policy driven through the PUBLIC switches: `Decoder::ignore_checksums(true / false)` on a `Decoder::new(..)`
/// and the setters of `StreamingDecoder`.  A file whose only faults are wrong CRC fields and / or a wrong Adler-32 decodes,
/// with the checks switched off, to exactly the result of the intact file (header, metadata, every frame, finish); with them
/// switched on a wrong Adler-32 or a wrong CRC of a critical chunk is refused no later than the chunk's frame.  The setter
/// route and the `DecodeOptions` route give the same canonical result; `set_ignore_adler32` answers `true` before and `false`
/// (without effect) after decompression has started.  Reader traces of the altered files are compared with the Lean Reader model.
fn public_switches_part(ctx: &mut Ctx, rng: &mut Rng) {
    use crate::props::c04::{run_reader_route, run_streaming, run_streaming_route};
    use crate::rops::{self, Config, Op};
    let ident = png::Transformations::IDENTITY;
    let mut runs = vec![];
    let mut traces = vec![];
    for i in 0..ctx.n(70, 260) {
        let mut r = rng.fork(7000 + i as u64);
        let f = if i % 3 == 2 { corpus::built_anim(&mut r, 8) } else { corpus::built_still(&mut r, 12, true) };
        let file = &f.bytes;
        let chunks = chunk_positions(file);
        let intact = run_reader(file, &[], &DEFAULT_OPTS, ident);
        if intact.starts_with("PANIC") || first_error_stage(&intact).is_some() {
            ctx.rep.notes.push(format!("public switches: generator file {} does not decode: {}", i, crate::util::shorten(&intact, 120, 0)));
            continue;
        }
        let nframes = frames_in(&intact);
        // the intact file: both positions of the switch give the intact result
        for (opts, name) in [(IGNORE_ON, "on"), (IGNORE_OFF, "off")] {
            ctx.rep.eval(true, fnv64(file) ^ fnv64(name.as_bytes()));
            ctx.rep.count("public switches", &format!("intact file, ignore_checksums {}", name));
            let r0 = run_reader_route(file, &[], &opts, ident, true);
            if r0 != intact {
                ctx.rep.violation("oracle", &format!("public-switches/intact-file-differs/{}", name), &format!("an intact file decoded through Decoder::ignore_checksums({}) differs from its decode with default options: `{}` vs `{}`", name == "on", crate::util::shorten(&r0, 300, 100), crate::util::shorten(&intact, 300, 100)), pcase(file, file, "none", 0, &opts));
            }
        }
        let crit: Vec<&ChunkPos> = chunks.iter().filter(|c| c.ty[0] & 32 == 0).collect();
        let adler = adler_offset(file, &chunks);
        for kind in 0..4usize {
            // 0: CRC fields of a random non-empty set of chunks; 1: the Adler-32 field (CRCs recomputed); 2: both;
            // 3: the CRC field of one critical chunk
            let mut alt = file.clone();
            let mut hit: Option<&ChunkPos> = None;
            if kind == 1 || kind == 2 {
                match adler {
                    Some(a) => alt[a + r.usize(0, 3)] ^= 1 << r.below(8),
                    None => continue,
                }
                alt = match corpus::repair_crcs(&alt) { Some(x) => x, None => continue };
            }
            if kind == 0 || kind == 2 {
                let mut any = false;
                for (k, c) in chunks.iter().enumerate() {
                    if r.chance(1, 3) || (!any && k + 1 == chunks.len()) {
                        any = true;
                        let at = c.start + 8 + c.len;
                        alt[at + r.usize(0, 3)] ^= (r.below(255) + 1) as u8;
                    }
                }
            }
            if kind == 3 {
                let c = *r.pick(&crit);
                alt[c.start + 8 + c.len + r.usize(0, 3)] ^= 1 << r.below(8);
                hit = Some(c);
            }
            let what = ["crc-fields", "adler-field", "crc-fields+adler-field", "one-critical-crc"][kind];
            ctx.rep.eval(true, fnv64(&alt) ^ 0x9b);
            ctx.rep.count("public switches", &format!("{}, ignore_checksums on/off", what));
            // switched off: inert
            let on = run_reader_route(&alt, &[], &IGNORE_ON, ident, true);
            if on != intact {
                ctx.rep.violation("oracle", &format!("public-switches/ignored-checksums-not-inert/{}", what), &format!("Decoder::ignore_checksums(true): a file whose only faults are checksum fields ({}) does not decode to the result of the intact file: `{}` vs `{}`", what, crate::util::shorten(&on, 300, 100), crate::util::shorten(&intact, 300, 100)), pcase(file, &alt, what, 0, &IGNORE_ON));
            }
            // switched off AFTER read_header_info (IHDR itself intact): still inert for everything read afterwards
            let ihdr_crc_intact = chunks.first().map(|c| alt[c.start + 8 + c.len..c.start + 12 + c.len] == file[c.start + 8 + c.len..c.start + 12 + c.len]).unwrap_or(false);
            if ihdr_crc_intact {
                ctx.rep.count("public switches", &format!("{}, ignore_checksums(true) after read_header_info", what));
                let late = crate::props::c04::run_reader_route3(&alt, &[], &IGNORE_ON, ident, 2);
                if late != intact {
                    ctx.rep.violation("oracle", &format!("public-switches/late-switch-not-inert/{}", what), &format!("Decoder::read_header_info() then ignore_checksums(true): a file whose only faults are checksum fields behind IHDR ({}) does not decode to the result of the intact file: `{}` vs `{}`", what, crate::util::shorten(&late, 300, 100), crate::util::shorten(&intact, 300, 100)), pcase(file, &alt, what, 0, &IGNORE_ON));
                }
            }
            // switched on: refused in time
            let off = run_reader_route(&alt, &[], &IGNORE_OFF, ident, true);
            if off.starts_with("PANIC") {
                ctx.rep.violation("oracle", "public-switches/panic", &format!("panic: {}", off), pcase(file, &alt, what, 0, &IGNORE_OFF));
            } else if kind == 1 {
                if first_error_stage(&off) != Some(0) {
                    ctx.rep.violation("oracle", "public-switches/adler-not-checked", &format!("Decoder::ignore_checksums(false): a wrong Adler-32 of the image data is not refused at the first frame: `{}`", crate::util::shorten(&off, 300, 100)), pcase(file, &alt, what, adler.unwrap_or(0), &IGNORE_OFF));
                }
            } else if let Some(c) = hit {
                let stage = first_error_stage(&off);
                let in_time = matches!(stage, Some(k) if k <= c.frame || (c.frame >= nframes && k == usize::MAX - 1));
                if !in_time || ok_frame_at_or_after(&off, c.frame) {
                    ctx.rep.violation("oracle", &format!("public-switches/critical-bad-crc-not-fatal/{}", ty_str(&c.ty)), &format!("Decoder::ignore_checksums(false): a wrong CRC of the critical chunk {} (frame {}) is not refused in time: `{}`", ty_str(&c.ty), c.frame, crate::util::shorten(&off, 300, 100)), pcase(file, &alt, what, c.start, &IGNORE_OFF));
                }
            }
            // the low-level decoder: setter route = DecodeOptions route, and with the CRC switch off the events of the intact file
            for opts in [DEFAULT_OPTS, IGNORE_ON, IGNORE_OFF, [false, true, true, true, false], [true, false, false, false, false]] {
                let a = run_streaming_route(&alt, &[], &opts, true);
                let b = run_streaming(&alt, &[], &opts);
                if a != b {
                    ctx.rep.violation("oracle", "public-switches/streaming-setters-differ", &format!("StreamingDecoder::new() + setters ({}) gives `{}`, new_with_options gives `{}`", opts_string(&opts), crate::util::shorten(&a, 200, 100), crate::util::shorten(&b, 200, 100)), pcase(file, &alt, what, 0, &opts));
                }
                if opts[0] && opts[1] {
                    let c = run_streaming(file, &[], &opts);
                    if a != c {
                        ctx.rep.violation("oracle", &format!("public-switches/streaming-ignored-checksums-not-inert/{}", what), &format!("StreamingDecoder with both checks switched off through its setters: altered file `{}`, intact file `{}`", crate::util::shorten(&a, 200, 100), crate::util::shorten(&c, 200, 100)), pcase(file, &alt, what, 0, &opts));
                    }
                }
            }
            // set_ignore_adler32 after decompression has started: answers false and changes nothing
            if kind == 1 {
                if let Some(idat) = chunks.iter().find(|c| &c.ty == b"IDAT" && c.len >= 3) {
                    let cut = idat.start + 8 + r.usize(1, idat.len - 1).min(40);
                    match late_adler_setter(&alt, cut, false) {
                        Err(p) => ctx.rep.violation("oracle", "public-switches/panic", &format!("panic: {}", p), pcase(file, &alt, what, cut, &DEFAULT_OPTS)),
                        Ok((answered, getter, err)) => {
                            if answered || !getter || err != "ok" {
                                ctx.rep.violation("oracle", "public-switches/late-adler-setter", &format!("set_ignore_adler32(false) after {} bytes of image data: answered {}, ignore_adler32() then {}, stream with a wrong Adler-32 ended `{}` (expected false, true, ok)", cut - idat.start - 8, answered, getter, err), pcase(file, &alt, what, cut, &DEFAULT_OPTS));
                            }
                        }
                    }
                }
            }
            // Reader model on the altered file under both positions of the switch (options installed through the setters)
            if alt.len() < 2500 && (i + kind) % 2 == 0 {
                let ops: Vec<Op> = std::iter::once(Op::ReadInfo).chain((0..nframes + 1).map(|_| Op::NextFrame(0))).chain(std::iter::once(Op::Finish)).collect();
                for opts in [IGNORE_ON, IGNORE_OFF] {
                    let cfg = Config { opts, via_setters: true, ..Config::default() };
                    traces.push(rops::run_ops(&alt, alt.len(), &ops, &cfg));
                    runs.push((alt.clone(), alt.len(), ops.clone(), cfg, true));
                }
            }
        }
    }
    crate::props::reader_props::model_batch(ctx, &runs, &traces, "c11-public-switches");
}

fn pcase(intact: &[u8], alt: &[u8], what: &str, at: usize, opts: &[bool; 5]) -> J {
    case(alt, what, at, opts).set("intact", J::s(&hex(intact)))
}

fn ok_frame_at_or_after(r: &str, frame: usize) -> bool {
    r.split(' ').any(|tok| tok.strip_prefix('f').and_then(|rest| rest.split_once(':')).map(|(k, tail)| tail.starts_with("ok(") && k.parse::<usize>().map(|k| k >= frame).unwrap_or(false)).unwrap_or(false))
}

pub fn run(ctx: &mut Ctx) {
    ctx.rep.rule = "valid reference-built files (stills with ancillary chunks, APNGs) x every chunk x {single-bit flip in type / data / CRC, CRC byte replacement} x option sets \
        {default, ignore_crc, ignore_adler32=false, skip_ancillary_crc_failures=false} + Adler-32 field alteration (CRCs repaired); each altered file decoded through Reader (read_info, all frames, finish) \
        and compared with the unaltered decode and with the decode of the file without the chunk; every case alters a checksum-covered bit, so all are non-trivial; distinct = hash(altered file, options); \
        plus the PUBLIC switches: Decoder::ignore_checksums(true/false) on Decoder::new and the setters of StreamingDecoder on files whose only faults are CRC fields and/or the Adler-32 field (inert when off, refused in time when on, \
        setter route = DecodeOptions route, set_ignore_adler32 refused after decompression has started), Reader traces vs the Lean Reader model".into();
    let mut rng = ctx.rng.fork(1);
    let n = ctx.n(110, 400);
    let flips = ctx.n(4, 12);
    for i in 0..n {
        let mut r = rng.fork(i as u64);
        // single-stream stills so that the Adler field is where we expect it
        let f = if i % 3 == 2 { corpus::built_anim(&mut r, 8) } else { corpus::built_still(&mut r, 12, true) };
        check_file(ctx, &f.bytes, &mut r, flips);
        if i < 2 {
            ctx.rep.sample(J::obj().set("file_bytes", J::i(f.bytes.len() as u64)).set("chunks", J::s(&chunk_positions(&f.bytes).iter().map(|c| ty_str(&c.ty)).collect::<Vec<_>>().join(","))));
        }
    }
    let mut r = rng.fork(0x9b11c);
    public_switches_part(ctx, &mut r);
}

pub fn replay(ctx: &mut Ctx, case: &J) {
    // the replay file stores the altered file; show how it decodes under its options next to the repaired file
    let file = case.get("file").and_then(|f| f.as_str()).and_then(unhex).unwrap_or_default();
    let o = case.get("opts").and_then(|f| f.as_str()).unwrap_or("10001");
    let mut opts = DEFAULT_OPTS;
    for (i, ch) in o.chars().enumerate().take(5) {
        opts[i] = ch == '1';
    }
    ctx.rep.eval(true, fnv64(&file));
    if let Some(intact) = case.get("intact").and_then(|f| f.as_str()).and_then(unhex) {
        // a case of the public-switches part: the altered file under both positions of the switch next to the intact file
        let ident = png::Transformations::IDENTITY;
        let base = run_reader(&intact, &[], &DEFAULT_OPTS, ident);
        let on = crate::props::c04::run_reader_route(&file, &[], &IGNORE_ON, ident, true);
        let off = crate::props::c04::run_reader_route(&file, &[], &IGNORE_OFF, ident, true);
        println!("intact:  {}\nignore_checksums(true):  {}\nignore_checksums(false): {}", base, on, off);
        if on != base {
            ctx.rep.violation("oracle", "public-switches/ignored-checksums-not-inert/replay", "with the checks switched off the altered file does not decode to the result of the intact file", case.clone());
        }
        if off == base && file != intact {
            ctx.rep.violation("oracle", "public-switches/not-refused/replay", "with the checks switched on the altered file decodes like the intact file", case.clone());
        }
        return;
    }
    let r = run_reader(&file, &[], &opts, png::Transformations::IDENTITY);
    let repaired = corpus::repair_crcs(&file).map(|f| run_reader(&f, &[], &opts, png::Transformations::IDENTITY)).unwrap_or_default();
    // an altered file whose bad-CRC chunk is used behaves like the CRC-repaired file
    let at = case.get("offset").and_then(|x| x.as_i64()).unwrap_or(0) as usize;
    let chunks = chunk_positions(&file);
    if let Some(c) = chunks.iter().find(|c| at >= c.start && at < c.start + 12 + c.len) {
        let deleted = run_reader(&delete_chunk(&file, c), &[], &opts, png::Transformations::IDENTITY);
        let stage = first_error_stage(&r);
        let in_time = matches!(stage, Some(k) if k <= c.frame || k == usize::MAX - 1);
        if !in_time && r != deleted {
            ctx.rep.violation("oracle", &format!("bad-crc-contributes/{}", ty_str(&c.ty)), &format!("altered: `{}`; without the chunk: `{}`; CRC-repaired: `{}`", r, deleted, repaired), case.clone());
        }
    }
}
