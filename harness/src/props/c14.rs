//! C14 — scanline filters match the specification and are exact inverses.
//!
//! Tie B for `PngVerif/Model/Filter.lean`:
//!  * exhaustive: the three Rust Paeth predictors on all 2^24 triples against the model's table of
//!    `paethSpec`; the decoder's and the encoder's Average on all 2^16 pairs against `avgWide`;
//!  * sampled: `unfilter` / `filter` on rows over (filter type x bpp x length x first/later row x
//!    data class) against `unfilterImpl`/`filterImpl`/`adaptive` (model domain) and against the
//!    specification `reconRow`/`filtRow` and the round-trip law (oracle domain).
use crate::json::J;
use crate::model;
use crate::report::Ctx;
use crate::rng::{fnv64, Rng};
use crate::util::{guarded, hex, unhex};

const BPPS: [u8; 6] = [1, 2, 3, 4, 6, 8];

#[derive(Clone, Debug)]
pub struct RowCase {
    pub op: &'static str, // "unfilter" | "filter"
    pub ft: u8,           // 0..4, 5 = adaptive (filter only)
    pub bpp: u8,
    pub prev: Vec<u8>,
    pub cur: Vec<u8>,
}

impl RowCase {
    fn line(&self) -> String {
        format!("c14 {} {} {} {} {}", self.op, self.ft, self.bpp, hex(&self.prev), hex(&self.cur))
    }
    fn json(&self) -> J {
        J::obj()
            .set("op", J::s(self.op))
            .set("ft", J::i(self.ft))
            .set("bpp", J::i(self.bpp))
            .set("prev", J::s(&hex(&self.prev)))
            .set("cur", J::s(&hex(&self.cur)))
    }
    fn from_json(j: &J) -> Option<RowCase> {
        Some(RowCase {
            op: if j.get("op")?.as_str()? == "filter" { "filter" } else { "unfilter" },
            ft: j.get("ft")?.as_i64()? as u8,
            bpp: j.get("bpp")?.as_i64()? as u8,
            prev: unhex(j.get("prev")?.as_str()?)?,
            cur: unhex(j.get("cur")?.as_str()?)?,
        })
    }
    fn key(&self) -> u64 {
        fnv64(self.line().as_bytes())
    }
    fn nontrivial(&self) -> bool {
        self.cur.len() >= 2 && self.ft != 0
    }
}

#[cfg(png_verif)]
fn method_of(ft: u8) -> png::Filter {
    match ft {
        0 => png::Filter::NoFilter,
        1 => png::Filter::Sub,
        2 => png::Filter::Up,
        3 => png::Filter::Avg,
        4 => png::Filter::Paeth,
        _ => png::Filter::Adaptive,
    }
}

/// implementation answer in the same canonical form as the model's first field(s)
#[cfg(png_verif)]
fn impl_answer(c: &RowCase) -> Result<(u8, Vec<u8>), String> {
    let c = c.clone();
    guarded(move || {
        if c.op == "unfilter" {
            let mut cur = c.cur.clone();
            png::verif_hooks::unfilter(c.ft, c.bpp, &c.prev, &mut cur);
            (c.ft, cur)
        } else {
            let mut out = vec![0u8; c.cur.len()];
            let used = png::verif_hooks::filter(method_of(c.ft), c.bpp, &c.prev, &c.cur, &mut out).unwrap_or(255);
            (used, out)
        }
    })
}

/// reference reconstruction written independently in the harness (PNG spec section 9.2)
pub fn ref_recon(ft: u8, bpp: usize, prev: &[u8], row: &[u8]) -> Vec<u8> {
    let mut out = vec![0u8; row.len()];
    for i in 0..row.len() {
        let a = if i >= bpp { out[i - bpp] as i32 } else { 0 };
        let b = if i < prev.len() { prev[i] as i32 } else { 0 };
        let c = if i >= bpp && i - bpp < prev.len() { prev[i - bpp] as i32 } else { 0 };
        let p = match ft {
            0 => 0,
            1 => a,
            2 => b,
            3 => (a + b) / 2,
            _ => {
                let p = a + b - c;
                let (pa, pb, pc) = ((p - a).abs(), (p - b).abs(), (p - c).abs());
                if pa <= pb && pa <= pc {
                    a
                } else if pb <= pc {
                    b
                } else {
                    c
                }
            }
        };
        out[i] = row[i].wrapping_add(p as u8);
    }
    out
}

/// Compare one case.  Returns Some((kind, class_key, what)) on failure.
#[cfg(png_verif)]
fn judge(c: &RowCase, model_ans: &str) -> Option<(&'static str, String, String)> {
    let imp = impl_answer(c);
    let (used, out) = match imp {
        Err(p) => return Some(("oracle", format!("panic/{}", c.op), format!("{} panicked: {}", c.op, p))),
        Ok(x) => x,
    };
    let bpp = c.bpp as usize;
    let toks: Vec<&str> = model_ans.split(' ').collect();
    if c.op == "unfilter" {
        // oracle domain: lengths the decoder produces
        let in_domain = c.cur.len() % bpp == 0 && (c.prev.is_empty() || c.prev.len() == c.cur.len());
        if in_domain {
            let want = ref_recon(c.ft, bpp, &c.prev, &c.cur);
            if out != want {
                return Some((
                    "oracle",
                    format!("unfilter/ft{}/bpp{}", c.ft, c.bpp),
                    format!("unfilter ft={} bpp={} first_row={}: reconstruction differs from the specification at byte {}",
                        c.ft, c.bpp, c.prev.is_empty(), out.iter().zip(&want).position(|(a, b)| a != b).unwrap_or(0)),
                ));
            }
        }
        if toks.len() != 2 {
            return Some(("model", "protocol".into(), format!("model answered {:?}", model_ans)));
        }
        if hex(&out) != toks[0] {
            return Some((
                "model",
                format!("unfilter/ft{}/bpp{}", c.ft, c.bpp),
                "unfilterImpl (model) differs from filter::unfilter".into(),
            ));
        }
        if in_domain && toks[0] != toks[1] {
            return Some(("model", "unfilter/spec".into(), "model: unfilterImpl differs from reconRow".into()));
        }
        None
    } else {
        if c.ft == 5 && !(1..=4).contains(&used) {
            return Some(("oracle", "adaptive/illegal".into(), format!("adaptive chose filter type {}", used)));
        }
        if c.ft < 5 && used != c.ft {
            return Some(("oracle", "filter/type".into(), format!("filter {} reported type {}", c.ft, used)));
        }
        // oracle: reconstruction of the filtered row is the identity
        let back = ref_recon(used, bpp, &c.prev, &out);
        if back != c.cur {
            return Some((
                "oracle",
                format!("filter/ft{}/bpp{}", used, c.bpp),
                format!("filter ft={} (requested {}) bpp={}: reconstruction of the filtered row is not the input", used, c.ft, c.bpp),
            ));
        }
        // implementation round trip
        let mut again = out.clone();
        let ok = guarded(|| png::verif_hooks::unfilter(used, c.bpp, &c.prev, &mut again));
        if ok.is_err() || again != c.cur {
            return Some(("oracle", format!("roundtrip/ft{}/bpp{}", used, c.bpp), "unfilter(filter(row)) != row".into()));
        }
        if toks.len() != 3 {
            return Some(("model", "protocol".into(), format!("model answered {:?}", model_ans)));
        }
        if toks[0] != used.to_string() || toks[1] != hex(&out) {
            return Some((
                "model",
                format!("filter/ft{}/bpp{}", c.ft, c.bpp),
                format!("filterImpl/adaptive (model: type {}) differs from filter::filter (type {})", toks[0], used),
            ));
        }
        if toks[1] != toks[2] {
            return Some(("model", "filter/spec".into(), "model: filterImpl differs from filtRow".into()));
        }
        None
    }
}

#[cfg(png_verif)]
fn still_fails(c: &RowCase) -> Option<(&'static str, String, String)> {
    let ans = model::ask_one(&[c.line()]);
    judge(c, &ans[0])
}

/// delta-debugging over the row: shorter rows first, then zeroed bytes
#[cfg(png_verif)]
fn shrink(c: &RowCase, class: &str) -> RowCase {
    let mut best = c.clone();
    let same = |x: &RowCase| still_fails(x).map(|(_, k, _)| k == class).unwrap_or(false);
    let bpp = c.bpp as usize;
    let mut budget = 150;
    loop {
        let mut progressed = false;
        let mut cuts = vec![best.cur.len() / 2, best.cur.len().saturating_sub(bpp), best.cur.len().saturating_sub(1)];
        cuts.dedup();
        for n in cuts {
            if budget == 0 {
                return best;
            }
            if n >= best.cur.len() || n == 0 || (c.op == "filter" && n < bpp) {
                continue;
            }
            let mut t = best.clone();
            t.cur.truncate(n);
            if !t.prev.is_empty() {
                t.prev.truncate(n);
            }
            budget -= 1;
            if same(&t) {
                best = t;
                progressed = true;
                break;
            }
        }
        if !progressed {
            break;
        }
    }
    for i in 0..best.cur.len().min(64) {
        if budget == 0 {
            break;
        }
        for which in 0..2 {
            let mut t = best.clone();
            let v = if which == 0 { &mut t.cur } else { &mut t.prev };
            if i < v.len() && v[i] != 0 {
                v[i] = 0;
                budget -= 1;
                if same(&t) {
                    best = t;
                }
            }
        }
    }
    best
}

fn gen_cases(ctx: &mut Ctx) -> Vec<RowCase> {
    let mut cases = Vec::new();
    let mut rng = ctx.rng.fork(1);
    // systematic part: every (op, ft, bpp, first/later) x lengths around the 32-byte chunk and bpp multiples
    let mut lens: Vec<usize> = (1..=12).collect();
    lens.extend_from_slice(&[15, 16, 17, 23, 24, 25, 30, 31, 32, 33, 34, 36, 40, 47, 48, 49, 63, 64, 65, 66, 72, 95, 96, 97, 98, 128, 129, 130, 191, 192, 200, 1023, 1024, 1025, 1056, 1500, 2048, 2049, 4100]);
    let per = if ctx.quick() { 1 } else { 6 };
    for op in ["unfilter", "filter"] {
        for ft in 0..=(if op == "filter" { 5u8 } else { 4 }) {
            for &bpp in &BPPS {
                for first in [true, false] {
                    for &len in &lens {
                        for _ in 0..per {
                            // encoder rows are whole pixels: a multiple of bpp, at least one pixel
                            let len = if op == "filter" { ((len + bpp as usize - 1) / bpp as usize) * bpp as usize } else { len };
                            // the encoder always passes a previous row of the same length (zeros for the first row)
                            let prev = if first {
                                if op == "filter" { vec![0u8; len] } else { vec![] }
                            } else {
                                rng.class_bytes(len)
                            };
                            let cur = rng.class_bytes(len);
                            cases.push(RowCase { op, ft, bpp, prev, cur });
                        }
                    }
                }
            }
        }
    }
    // random part: lengths that are multiples of bpp up to a few KiB, tie-rich data
    let n = ctx.n(1500, 40000);
    for _ in 0..n {
        let op = if rng.bool() { "unfilter" } else { "filter" };
        let ft = rng.below(if op == "filter" { 6 } else { 5 }) as u8;
        let bpp = *rng.pick(&BPPS);
        let px = if rng.chance(1, 20) { rng.usize(100, 1200) } else { rng.usize(1, 80) };
        let len = px * bpp as usize;
        let first = rng.chance(1, 4);
        let prev = if first {
            if op == "filter" { vec![0u8; len] } else { vec![] }
        } else {
            rng.class_bytes(len)
        };
        let cur = rng.class_bytes(len);
        cases.push(RowCase { op, ft, bpp, prev, cur });
    }
    cases
}

#[cfg(png_verif)]
fn exhaustive_paeth(ctx: &mut Ctx) {
    // model: one line per c with the 65536 values for all (a, b)
    let lines: Vec<String> = (0..256).map(|c| format!("c14 paeth {}", c)).collect();
    let answers = model::ask(&lines);
    let mut bad = 0u64;
    for c in 0..256usize {
        let row = match unhex(&answers[c]) {
            Some(r) if r.len() == 65536 => r,
            _ => {
                ctx.rep.violation("model", "protocol", "paeth table row malformed", J::s(&lines[c]));
                return;
            }
        };
        for a in 0..256usize {
            for b in 0..256usize {
                let want = row[a * 256 + b];
                for which in 0..3u8 {
                    let got = png::verif_hooks::paeth(which, a as u8, b as u8, c as u8);
                    if got != want {
                        bad += 1;
                        let name = ["filter_paeth", "filter_paeth_stbi", "filter_paeth_fpnge"][which as usize];
                        ctx.rep.violation(
                            "oracle",
                            &format!("paeth/{}", name),
                            &format!("{}({},{},{}) = {} but the specification's predictor is {}", name, a, b, c, got, want),
                            J::obj().set("op", J::s("paeth")).set("which", J::i(which)).set("a", J::i(a as u64)).set("b", J::i(b as u64)).set("c", J::i(c as u64)),
                        );
                    }
                }
            }
        }
    }
    ctx.rep.evals(3 * (1 << 24));
    ctx.rep.count("exhaustive", "paeth_triples_x3");
    if bad == 0 {
        ctx.rep.exhaustive.push("three Paeth predictors on all 2^24 (a,b,c) vs paethSpec".into());
    }
    ctx.rep.sample(J::s("c14 paeth 77  (65536 predictor values for c = 77, all a, b) vs filter_paeth / _stbi / _fpnge"));
}

#[cfg(png_verif)]
fn exhaustive_avg(ctx: &mut Ctx) {
    let ans = model::ask_one(&["c14 avg".to_string()]);
    let tab = match unhex(&ans[0]) {
        Some(t) if t.len() == 65536 => t,
        _ => {
            ctx.rep.violation("model", "protocol", "avg table malformed", J::Null);
            return;
        }
    };
    let mut ok = true;
    for x in 0..256usize {
        for p in 0..256usize {
            let want = tab[x * 256 + p];
            // encoder: out[1] = y - avg(cur[0], prev[1])  (bpp = 1, Avg)
            let cur = [x as u8, 0u8];
            let prev = [0u8, p as u8];
            let mut out = [0u8; 2];
            png::verif_hooks::filter(png::Filter::Avg, 1, &prev, &cur, &mut out);
            let enc = 0u8.wrapping_sub(out[1]);
            // decoder: cur[1] + avg(left, above)
            let mut row = [x as u8, 0u8];
            let above = [0u8, p as u8];
            png::verif_hooks::unfilter(3, 1, &above, &mut row);
            // row[0] = x + above[0]/2 = x ; row[1] = 0 + (row[0] + p)/2
            let dec = row[1];
            if enc != want || dec != want {
                ok = false;
                ctx.rep.violation(
                    "oracle",
                    if enc != want { "avg/encoder" } else { "avg/decoder" },
                    &format!("Average of ({}, {}) is {} (encoder) / {} (decoder), specification says {}", x, p, enc, dec, want),
                    J::obj().set("op", J::s("avg")).set("x", J::i(x as u64)).set("p", J::i(p as u64)),
                );
            }
        }
    }
    ctx.rep.evals(2 * 65536);
    if ok {
        ctx.rep.exhaustive.push("Average predictor of decoder and encoder on all 2^16 pairs vs floor((a+b)/2)".into());
    }
}

pub fn run(ctx: &mut Ctx) {
    ctx.rep.rule = "exhaustive: 3 Paeth predictors x 2^24 triples, Average x 2^16 pairs (each counted as one evaluation); \
        sampled rows: (op in unfilter/filter) x filter type 0..4(+adaptive) x bpp in {1,2,3,4,6,8} x lengths 1..200 around multiples of 32 and bpp \
        x first/later row x data class (random, constant, tie-rich alphabet, ramps, sparse, periodic); \
        a row case is non-trivial when the row has >= 2 bytes and the filter type is not None; distinct = hash of (op, type, bpp, previous, current)".into();
    #[cfg(not(png_verif))]
    {
        ctx.rep.notes.push("hooks unavailable: direct filter/unfilter enumeration skipped; public-API formulation is exercised by C01/C03".into());
        let _ = (gen_cases as fn(&mut Ctx) -> Vec<RowCase>, model::ask as fn(&[String]) -> Vec<String>);
    }
    #[cfg(png_verif)]
    {
        exhaustive_paeth(ctx);
        exhaustive_avg(ctx);
        let cases = gen_cases(ctx);
        let lines: Vec<String> = cases.iter().map(|c| c.line()).collect();
        let answers = model::ask(&lines);
        for (c, a) in cases.iter().zip(&answers) {
            ctx.rep.eval(c.nontrivial(), c.key());
            ctx.rep.model_compared += 1;
            ctx.rep.count("op/filter", &format!("{}/{}", c.op, c.ft));
            ctx.rep.count("bpp", &c.bpp.to_string());
            ctx.rep.count("len mod 32", &format!("{:02}", c.cur.len() % 32));
            ctx.rep.count("row", if c.prev.is_empty() || c.prev.iter().all(|&b| b == 0) { "first" } else { "later" });
            if let Some((kind, class, what)) = judge(c, a) {
                let small = shrink(c, &class);
                ctx.rep.violation(kind, &class, &what, small.json());
            }
        }
        for c in cases.iter().filter(|c| c.nontrivial() && c.cur.len() <= 12).take(4) {
            ctx.rep.sample(c.json());
        }
    }
    // the rows the encoder really emits, with its row bookkeeping (public API; also runs without the hooks)
    crate::props::c14_enc::run_part(ctx);
}

pub fn replay(ctx: &mut Ctx, case: &J) {
    if case.get("op").and_then(|o| o.as_str()) == Some("encrows") {
        crate::props::c14_enc::replay_case(ctx, case);
        return;
    }
    #[cfg(png_verif)]
    {
        match case.get("op").and_then(|o| o.as_str()) {
            Some("paeth") | Some("avg") => {
                exhaustive_paeth(ctx);
                exhaustive_avg(ctx);
            }
            _ => {
                if let Some(c) = RowCase::from_json(case) {
                    ctx.rep.eval(true, c.key());
                    if let Some((kind, class, what)) = still_fails(&c) {
                        ctx.rep.violation(kind, &class, &what, c.json());
                    }
                }
            }
        }
    }
    #[cfg(not(png_verif))]
    {
        let _ = (ctx, case, RowCase::from_json as fn(&J) -> Option<RowCase>);
    }
}

#[allow(dead_code)]
fn _unused(_: &mut Rng) {}
