//! C10 — structurally invalid streams are rejected, never silently mis-decoded.
//!
//! (1) every listed violation class injected at every site of valid reference-built files (CRCs valid);
//! (2) all chunk-kind sequences up to a bounded length over a 10-letter alphabet, each checked against a
//!     reference automaton that encodes ONLY the ordering rules the property lists.
use crate::canon::*;
use crate::json::J;
use crate::props::c04::run_reader;
use crate::props::c11::first_error_stage;
use crate::refpng::*;
use crate::report::Ctx;
use crate::rng::{fnv64, Rng};
use crate::util::{hex, unhex};

struct Inj {
    class: &'static str,
    file: Vec<u8>,
    /// decoding must fail no later than this frame index
    frame: usize,
}

fn ok_frames_at_or_after(r: &str, frame: usize) -> bool {
    for tok in r.split(' ') {
        if tok.starts_with("fin:") {
            continue;
        }
        if let Some(rest) = tok.strip_prefix('f') {
            if let Some((k, tail)) = rest.split_once(':') {
                if let Ok(k) = k.parse::<usize>() {
                    if k >= frame && tail.starts_with("ok(") {
                        return true;
                    }
                }
            }
        }
    }
    false
}

/// the property's oracle on a canonical reader result
fn rejected_in_time(r: &str, frame: usize) -> bool {
    if r.starts_with("PANIC") {
        return false;
    }
    if ok_frames_at_or_after(r, frame) {
        return false;
    }
    match first_error_stage(r) {
        Some(k) => k <= frame || k == usize::MAX - 1,
        None => false,
    }
}

fn build_frame_stream(img: &Img, interlace: bool, rng: &mut Rng, raw_mut: impl Fn(&mut Vec<u8>, &mut Rng), z_mut: impl Fn(&mut Vec<u8>, &mut Rng), d: &Deflater) -> Vec<u8> {
    let (mut raw, _) = scanlines(img, interlace, &Filters::Random, rng);
    raw_mut(&mut raw, rng);
    let mut z = zlib_stream(&raw, d);
    z_mut(&mut z, rng);
    z
}

fn still_with(img: &Img, interlace: bool, z: Vec<u8>, rng: &mut Rng, pieces: usize) -> Vec<RawChunk> {
    let mut cs = vec![ihdr(img.w, img.h, img.depth, img.color, interlace as u8)];
    if img.color == 3 {
        cs.push(random_palette(rng, 1usize << img.depth.min(8)));
    }
    let n = pieces.max(1);
    let step = (z.len() + n - 1) / n;
    for p in z.chunks(step.max(1)) {
        cs.push(RawChunk::new(b"IDAT", p.to_vec()));
    }
    cs.push(RawChunk::new(b"IEND", vec![]));
    cs
}

fn pos_of(cs: &[RawChunk], ty: &[u8; 4]) -> Vec<usize> {
    cs.iter().enumerate().filter(|(_, c)| &c.ty == ty).map(|(i, _)| i).collect()
}

/// all injections for one random still image
fn still_injections(rng: &mut Rng, out: &mut Vec<Inj>) {
    let (color, depth) = *rng.pick(&LEGAL_PAIRS);
    let (w, h) = (rng.range(1, 12) as u32, rng.range(2, 9) as u32);
    let img = Img::random(rng, color, depth, w, h);
    let interlace = rng.bool();
    let good_z = build_frame_stream(&img, interlace, rng, |_, _| {}, |_, _| {}, &Deflater::Level(6));
    let base = still_with(&img, interlace, good_z.clone(), rng, 3);
    let ser = |cs: &[RawChunk]| serialize(cs);
    // sanity: the unmodified file must decode (otherwise the generator is wrong)
    out.push(Inj { class: "control/valid", file: ser(&base), frame: usize::MAX });
    // 1. signature
    let mut f = ser(&base);
    let i = rng.usize(0, 7);
    f[i] ^= 1 << rng.below(8);
    out.push(Inj { class: "signature", file: f, frame: 0 });
    // 2. first chunk not IHDR
    let mut cs = base.clone();
    cs.insert(0, RawChunk::new(b"gAMA", vec![0, 1, 134, 160]));
    out.push(Inj { class: "first-not-ihdr/inserted", file: ser(&cs), frame: 0 });
    let mut cs = base.clone();
    cs.remove(0);
    out.push(Inj { class: "first-not-ihdr/removed", file: ser(&cs), frame: 0 });
    // 3. second IHDR: right after the first, before IDAT, after IDAT
    for (k, at) in [1usize, pos_of(&base, b"IDAT")[0], base.len() - 1].iter().enumerate() {
        let mut cs = base.clone();
        cs.insert(*at, base[0].clone());
        // a duplicate after the image data can only be seen once the trailer is read
        out.push(Inj { class: ["second-ihdr/after-first", "second-ihdr/before-idat", "second-ihdr/after-idat"][k], file: ser(&cs), frame: if k == 2 { 1 } else { 0 } });
    }
    // 3b. a second IHDR / PLTE with an empty body (a zero-length chunk takes a different path in the decoder)
    let mut cs = base.clone();
    cs.insert(1, RawChunk::new(b"IHDR", vec![]));
    out.push(Inj { class: "second-ihdr/empty", file: ser(&cs), frame: 0 });
    // 4. illegal IHDR fields
    let ih = |w: u32, h: u32, d: u8, c: u8, cm: u8, fm: u8, il: u8| {
        let mut v = vec![];
        v.extend_from_slice(&w.to_be_bytes());
        v.extend_from_slice(&h.to_be_bytes());
        v.extend_from_slice(&[d, c, cm, fm, il]);
        RawChunk::new(b"IHDR", v)
    };
    let il = interlace as u8;
    let bad_depth = *rng.pick(&[0u8, 3, 5, 6, 7, 9, 15, 17, 32, 255]);
    let bad_color = *rng.pick(&[1u8, 5, 7, 8, 255]);
    let bad_pair = *rng.pick(&[(2u8, 1u8), (2, 2), (2, 4), (4, 1), (4, 4), (6, 2), (6, 4), (3, 16)]);
    let variants: Vec<(&'static str, RawChunk)> = vec![
        ("ihdr/zero-width", ih(0, h, depth, color, 0, 0, il)),
        ("ihdr/zero-height", ih(w, 0, depth, color, 0, 0, il)),
        ("ihdr/bad-depth", ih(w, h, bad_depth, color, 0, 0, il)),
        ("ihdr/bad-color", ih(w, h, depth, bad_color, 0, 0, il)),
        ("ihdr/bad-pair", ih(w, h, bad_pair.1, bad_pair.0, 0, 0, il)),
        ("ihdr/compression", ih(w, h, depth, color, rng.range(1, 255) as u8, 0, il)),
        ("ihdr/filter-method", ih(w, h, depth, color, 0, rng.range(1, 255) as u8, il)),
        ("ihdr/interlace", ih(w, h, depth, color, 0, 0, rng.range(2, 255) as u8)),
    ];
    for (class, c) in variants {
        let mut cs = base.clone();
        cs[0] = c;
        out.push(Inj { class, file: ser(&cs), frame: 0 });
    }
    // 5. second PLTE (any colour type: the rule is "at most one PLTE")
    let mut cs = base.clone();
    let plte = random_palette(rng, 4);
    let at = pos_of(&cs, b"IDAT")[0];
    if color != 3 {
        cs.insert(at, plte.clone());
    }
    let at = pos_of(&cs, b"IDAT")[0];
    cs.insert(at, plte);
    out.push(Inj { class: "second-plte", file: ser(&cs), frame: 0 });
    // 6. no image data
    let cs: Vec<RawChunk> = base.iter().filter(|c| &c.ty != b"IDAT").cloned().collect();
    out.push(Inj { class: "no-image-data", file: ser(&cs), frame: 0 });
    // 7. IDAT resumed after an intervening chunk (each ancillary kind)
    let idats = pos_of(&base, b"IDAT");
    if idats.len() >= 2 {
        for (name, c) in [("tEXt", RawChunk::new(b"tEXt", b"k\0v".to_vec())), ("unknown", RawChunk::new(b"prVt", vec![1, 2, 3])), ("gAMA", RawChunk::new(b"gAMA", vec![0, 0, 1, 0]))] {
            let mut cs = base.clone();
            let at = idats[rng.usize(1, idats.len() - 1)];
            cs.insert(at, c);
            out.push(Inj { class: match name { "tEXt" => "idat-not-consecutive/tEXt", "unknown" => "idat-not-consecutive/unknown", _ => "idat-not-consecutive/gAMA" }, file: ser(&cs), frame: 0 });
        }
    }
    // 8. corrupt / too short compressed stream
    let zm: Vec<(&'static str, Box<dyn Fn(&mut Vec<u8>, &mut Rng)>, Deflater)> = vec![
        ("zlib/bad-cmf", Box::new(|z: &mut Vec<u8>, _: &mut Rng| z[0] = 0x79), Deflater::Level(6)),
        ("zlib/bad-fcheck", Box::new(|z: &mut Vec<u8>, _: &mut Rng| z[1] ^= 1), Deflater::Level(6)),
        ("zlib/stored-nlen", Box::new(|z: &mut Vec<u8>, _: &mut Rng| z[5] ^= 0x10), Deflater::Stored(65535)),
        ("zlib/block-type-3", Box::new(|z: &mut Vec<u8>, _: &mut Rng| z[2] = (z[2] & !6) | 6), Deflater::Stored(65535)),
        ("zlib/truncated", Box::new(|z: &mut Vec<u8>, r: &mut Rng| { let n = z.len(); let cut = r.usize(5, 9.min(n - 1)); z.truncate(n - cut); }), Deflater::Stored(65535)),
        // only the Adler-32 trailer (1..4 bytes) is missing: every pixel byte is there, the stream is still too short
        ("zlib/truncated-trailer", Box::new(|z: &mut Vec<u8>, r: &mut Rng| { let n = z.len(); let cut = r.usize(1, 4); z.truncate(n - cut); }), Deflater::Stored(65535)),
        ("zlib/truncated-trailer", Box::new(|z: &mut Vec<u8>, r: &mut Rng| { let n = z.len(); let cut = r.usize(1, 4); z.truncate(n - cut); }), Deflater::Level(6)),
        ("zlib/truncated-trailer", Box::new(|z: &mut Vec<u8>, r: &mut Rng| { let n = z.len(); let cut = r.usize(1, 4); z.truncate(n - cut); }), Deflater::Fdeflate),
    ];
    for (class, f, d) in zm {
        let z = build_frame_stream(&img, interlace, rng, |_, _| {}, |z, r| f(z, r), &d);
        let np = rng.usize(1, 3);
        let cs = still_with(&img, interlace, z, rng, np);
        out.push(Inj { class, file: ser(&cs), frame: 0 });
    }
    // a back-reference reaching before the start of the stream
    {
        let (raw, _) = scanlines(&img, interlace, &Filters::Uniform(0), rng);
        let z = fixed_huffman_zlib_reach_back(0, raw.len().max(2), raw.len().max(2) + rng.usize(0, 40));
        let cs = still_with(&img, interlace, z, rng, 1);
        out.push(Inj { class: "zlib/distance-before-start", file: ser(&cs), frame: 0 });
    }
    // too short: a valid stream that ends before the last row is complete
    let z = build_frame_stream(&img, interlace, rng, |raw, r| { let n = raw.len(); let cut = r.usize(1, (n / 2).max(1)); raw.truncate(n - cut); }, |_, _| {}, &Deflater::Level(6));
    let np = rng.usize(1, 3);
        let cs = still_with(&img, interlace, z, rng, np);
    out.push(Inj { class: "stream-too-short", file: ser(&cs), frame: 0 });
    // 9. undefined filter byte on some row of some pass
    let rb = img.row_bytes();
    let z = if !interlace {
        let row = rng.usize(0, h as usize - 1);
        let bad = rng.range(5, 255) as u8;
        build_frame_stream(&img, false, rng, move |raw, _| raw[row * (rb + 1)] = bad, |_, _| {}, &Deflater::Level(6))
    } else {
        // filter bytes sit at the start of every pass row: walk the passes
        let passes = adam7_passes(&img);
        let mut offs = vec![];
        let mut p = 0usize;
        for pi in &passes {
            if pi.w == 0 || pi.h == 0 {
                continue;
            }
            for _ in 0..pi.h {
                offs.push(p);
                p += 1 + pi.row_bytes();
            }
        }
        let at = *rng.pick(&offs);
        let bad = rng.range(5, 255) as u8;
        build_frame_stream(&img, true, rng, move |raw, _| raw[at] = bad, |_, _| {}, &Deflater::Level(6))
    };
    let cs = still_with(&img, interlace, z, rng, 2);
    out.push(Inj { class: "bad-filter-byte", file: ser(&cs), frame: 0 });
}

/// APNG injections: sequence numbers, missing fcTL, short fdAT, frame rectangles
fn anim_injections(rng: &mut Rng, out: &mut Vec<Inj>) {
    let mut a = random_anim(rng, 9, 3);
    while a.frames.len() < 2 {
        a = random_anim(rng, 9, 3);
    }
    let (base, exp) = anim_chunks(&a, rng);
    out.push(Inj { class: "control/valid-apng", file: serialize(&base), frame: usize::MAX });
    // frame index of chunk i = number of data sequences completed before it
    let frame_of = |cs: &[RawChunk], i: usize| -> usize {
        let mut frame = 0;
        let mut cur: Option<[u8; 4]> = None;
        for (k, c) in cs.iter().enumerate() {
            let is_data = &c.ty == b"IDAT" || &c.ty == b"fdAT";
            if let Some(t) = cur {
                if !is_data || t != c.ty {
                    frame += 1;
                    cur = None;
                }
            }
            if k == i {
                return frame;
            }
            if is_data {
                cur = Some(c.ty);
            }
        }
        frame
    };
    let seq_chunks: Vec<usize> = base.iter().enumerate().filter(|(_, c)| &c.ty == b"fcTL" || &c.ty == b"fdAT").map(|(i, _)| i).collect();
    // sequence number faults at a random position: gap, repeat, swap with next, far value
    for kind in 0..4 {
        let mut cs = base.clone();
        let i = *rng.pick(&seq_chunks);
        let cur = u32::from_be_bytes([cs[i].data[0], cs[i].data[1], cs[i].data[2], cs[i].data[3]]);
        let new = match kind { 0 => cur + 1, 1 => cur.wrapping_sub(1), 2 => cur + 2, _ => 0x8000_0000 | cur };
        if new == cur || (kind == 1 && cur == 0) {
            continue;
        }
        cs[i].data[..4].copy_from_slice(&new.to_be_bytes());
        out.push(Inj { class: ["seqno/plus-one", "seqno/minus-one", "seqno/plus-two", "seqno/far"][kind], file: serialize(&cs), frame: frame_of(&cs, i) });
    }
    // fdAT with no fcTL since the previous data sequence.  Removing an fcTL *between two fdAT runs* would merely
    // merge the runs (no rule broken), so: (a) remove the fcTL that follows the IDAT run, (b) replace an fcTL
    // between two fdAT runs by a tEXt chunk.  Sequence numbers are renumbered so that only this rule is broken.
    let renumber = |cs: &mut Vec<RawChunk>| {
        let mut seq = 0u32;
        for c in cs.iter_mut() {
            if &c.ty == b"fcTL" || &c.ty == b"fdAT" {
                c.data[..4].copy_from_slice(&seq.to_be_bytes());
                seq += 1;
            }
        }
    };
    let fctls: Vec<usize> = base.iter().enumerate().filter(|(i, c)| &c.ty == b"fcTL" && base.get(i + 1).map(|n| &n.ty == b"fdAT").unwrap_or(false)).map(|(i, _)| i).collect();
    for &i in &fctls {
        let mut cs = base.clone();
        let after_idat = i > 0 && &base[i - 1].ty == b"IDAT";
        if after_idat {
            cs.remove(i);
        } else {
            cs[i] = RawChunk::new(b"tEXt", b"k\0v".to_vec());
        }
        renumber(&mut cs);
        out.push(Inj { class: if after_idat { "fdat-without-fctl/after-idat" } else { "fdat-without-fctl/between-fdat-runs" }, file: serialize(&cs), frame: frame_of(&cs, i) + if after_idat { 0 } else { 0 } });
    }
    // a LATER frame whose compressed stream refers back before its own start (a corrupt stream: every frame's data sequence is a
    // zlib stream of its own; an inflater that keeps the previous frame's output as history would decode it from those bytes)
    for &i in &fctls {
        let fc = &base[i].data;
        let (fw, fh) = (u32::from_be_bytes([fc[4], fc[5], fc[6], fc[7]]), u32::from_be_bytes([fc[8], fc[9], fc[10], fc[11]]));
        let probe = Img { color: a.color, depth: a.depth, w: fw, h: fh, pixels: vec![] };
        // raw size of the frame's scanlines (non-interlaced: rows x (1 + row bytes); interlaced: never less than one row)
        let total = if a.interlace { adam7_passes(&Img { pixels: vec![0; probe.row_bytes() * fh as usize], ..probe.clone() }).iter().filter(|p| p.w > 0 && p.h > 0).map(|p| p.h as usize * (1 + p.row_bytes())).sum::<usize>() } else { fh as usize * (1 + probe.row_bytes()) };
        let z = fixed_huffman_zlib_reach_back(0, total.max(2), *rng.pick(&[1usize + total.max(2), 20.max(total + 1), 32768]));
        let mut cs = base.clone();
        // replace the fdAT run behind this fcTL by one fdAT chunk holding the corrupt stream
        let mut j = i + 1;
        while j < cs.len() && &cs[j].ty == b"fdAT" {
            cs.remove(j);
        }
        let mut d = vec![0, 0, 0, 0];
        d.extend_from_slice(&z);
        cs.insert(i + 1, RawChunk::new(b"fdAT", d));
        renumber(&mut cs);
        out.push(Inj { class: "zlib/distance-before-start/later-frame", file: serialize(&cs), frame: frame_of(&cs, i + 1) });
    }
    // fdAT shorter than 4 bytes
    let fdats: Vec<usize> = base.iter().enumerate().filter(|(_, c)| &c.ty == b"fdAT").map(|(i, _)| i).collect();
    if let Some(&i) = fdats.first() {
        let mut cs = base.clone();
        let n = rng.usize(0, 3);
        cs[i].data.truncate(n);
        out.push(Inj { class: "fdat-shorter-than-4", file: serialize(&cs), frame: frame_of(&cs, i) });
    }
    // frame rectangle faults on a random fcTL
    let all_fctl: Vec<usize> = base.iter().enumerate().filter(|(_, c)| &c.ty == b"fcTL").map(|(i, _)| i).collect();
    let (cw, ch) = (a.w, a.h);
    for kind in 0..7 {
        let mut cs = base.clone();
        let i = *rng.pick(&all_fctl);
        let rd = |d: &[u8], o: usize| u32::from_be_bytes([d[o], d[o + 1], d[o + 2], d[o + 3]]);
        let (fw, fh, fx, fy) = (rd(&cs[i].data, 4), rd(&cs[i].data, 8), rd(&cs[i].data, 12), rd(&cs[i].data, 16));
        let (nw, nh, nx, ny) = match kind {
            0 => (0, fh, fx, fy),
            1 => (fw, 0, fx, fy),
            2 => (fw, fh, cw - fw + 1, fy),
            3 => (fw, fh, fx, ch - fh + 1),
            4 => (cw + 1, fh, 0, fy),
            5 => (fw, fh, u32::MAX - fw + 1, fy),              // x + w = 2^32
            _ => (fw, fh, fx, u32::MAX),                       // y + h overflows
        };
        let d = &mut cs[i].data;
        d[4..8].copy_from_slice(&nw.to_be_bytes());
        d[8..12].copy_from_slice(&nh.to_be_bytes());
        d[12..16].copy_from_slice(&nx.to_be_bytes());
        d[16..20].copy_from_slice(&ny.to_be_bytes());
        out.push(Inj { class: ["fctl/zero-width", "fctl/zero-height", "fctl/x-outside", "fctl/y-outside", "fctl/wider-than-canvas", "fctl/x-plus-w-2^32", "fctl/y-overflow"][kind], file: serialize(&cs), frame: frame_of(&cs, i) });
    }
    let _ = exp;
}

// ---------------------------------------------------------------------------------------------
// chunk-kind sequences against the reference ordering automaton

const ALPHABET: [&str; 10] = ["IHDR", "PLTE", "tRNS", "IDAT", "acTL", "fcTL", "fdAT", "IEND", "tEXt", "prVt"];

/// Reference language of the rules the property lists: returns Some((rule, frame index by which decoding must have failed))
/// for a sequence that violates one of them, None otherwise.  Deliberately NOT the full PNG chunk grammar.
fn reference_violation(seq: &[usize]) -> Option<(&'static str, usize)> {
    let name = |k: usize| ALPHABET[k];
    if seq.is_empty() {
        return None;
    }
    if name(seq[0]) != "IHDR" {
        return Some(("first-not-ihdr", 0));
    }
    let mut frames_done = 0usize;
    let mut in_data: Option<&str> = None;
    let mut seen_plte = false;
    let mut idat_run_closed = false;
    let mut seen_idat = false;
    let mut fctl_since_data = false;
    for (i, &k) in seq.iter().enumerate() {
        let t = name(k);
        let is_data = t == "IDAT" || t == "fdAT";
        if let Some(d) = in_data {
            if d != t {
                frames_done += 1;
                if d == "IDAT" {
                    idat_run_closed = true;
                }
                in_data = None;
                fctl_since_data = false;
            }
        }
        match t {
            "IHDR" if i > 0 => return Some(("second-ihdr", frames_done)),
            "PLTE" => {
                if seen_plte {
                    return Some(("second-plte", frames_done));
                }
                seen_plte = true;
            }
            "IDAT" => {
                if idat_run_closed {
                    return Some(("idat-not-consecutive", frames_done));
                }
                seen_idat = true;
                in_data = Some("IDAT");
            }
            "fdAT" => {
                if in_data != Some("fdAT") && !fctl_since_data {
                    return Some(("fdat-without-fctl", frames_done));
                }
                in_data = Some("fdAT");
            }
            "fcTL" => fctl_since_data = true,
            "IEND" => {
                if !seen_idat && frames_done == 0 {
                    return Some(("no-image-data", 0));
                }
                return None; // nothing after IEND is read
            }
            _ => {}
        }
        let _ = is_data;
    }
    None
}

fn tiny_stream() -> Vec<u8> {
    // 1x1 gray8: filter byte 0 + one sample
    zlib_stream(&[0, 0x5A], &Deflater::Stored(65535))
}

fn build_sequence(seq: &[usize]) -> Vec<u8> {
    let mut cs = vec![];
    let mut seqno = 0u32;
    for &k in seq {
        let c = match ALPHABET[k] {
            "IHDR" => ihdr(1, 1, 8, 0, 0),
            "PLTE" => RawChunk::new(b"PLTE", vec![1, 2, 3]),
            "tRNS" => RawChunk::new(b"tRNS", vec![0, 9]),
            "IDAT" => RawChunk::new(b"IDAT", tiny_stream()),
            "acTL" => actl(2, 0),
            "fcTL" => {
                let f = Fctl { seq: seqno, w: 1, h: 1, x: 0, y: 0, delay_num: 1, delay_den: 10, dispose: 0, blend: 0 };
                seqno += 1;
                f.chunk()
            }
            "fdAT" => {
                let mut d = seqno.to_be_bytes().to_vec();
                seqno += 1;
                d.extend(tiny_stream());
                RawChunk::new(b"fdAT", d)
            }
            "IEND" => RawChunk::new(b"IEND", vec![]),
            "tEXt" => RawChunk::new(b"tEXt", b"k\0v".to_vec()),
            _ => RawChunk::new(b"prVt", vec![7]),
        };
        cs.push(c);
    }
    serialize(&cs)
}

fn seq_name(seq: &[usize]) -> String {
    seq.iter().map(|&k| ALPHABET[k]).collect::<Vec<_>>().join(",")
}

fn enumerate_sequences(ctx: &mut Ctx, max_len: usize) {
    let mut total = 0u64;
    let mut violating = 0u64;
    let mut seq: Vec<usize> = vec![];
    // iterative odometer over all sequences of length 1..=max_len
    for len in 1..=max_len {
        seq.clear();
        seq.resize(len, 0);
        loop {
            total += 1;
            if let Some((rule, frame)) = reference_violation(&seq) {
                violating += 1;
                let file = build_sequence(&seq);
                let r = run_reader(&file, &[], &DEFAULT_OPTS, png::Transformations::IDENTITY);
                ctx.rep.eval(len >= 2, fnv64(&file));
                ctx.rep.count("automaton rule", rule);
                // a stream that ends without IEND just runs out of input: that is truncation (C05), any error counts as rejection
                if !rejected_in_time(&r, frame) {
                    ctx.rep.violation("oracle", &format!("sequence/{}", rule), &format!("chunk sequence [{}] violates `{}` but decoding did not fail by frame {}: {}", seq_name(&seq), rule, frame, r),
                        J::obj().set("kind", J::s("sequence")).set("sequence", J::s(&seq_name(&seq))).set("file", J::s(&hex(&file))).set("frame", J::i(frame as u64)));
                }
            }
            // next
            let mut i = len;
            loop {
                if i == 0 {
                    break;
                }
                i -= 1;
                seq[i] += 1;
                if seq[i] < ALPHABET.len() {
                    break;
                }
                seq[i] = 0;
                if i == 0 {
                    i = usize::MAX;
                    break;
                }
            }
            if i == usize::MAX {
                break;
            }
        }
    }
    ctx.rep.count("sequences", "enumerated");
    ctx.rep.notes.push(format!("chunk-kind sequences enumerated: {} (all of length <= {} over {:?}), of which {} violate a listed ordering rule and were decoded", total, max_len, ALPHABET, violating));
    ctx.rep.exhaustive.push(format!("all chunk-kind sequences of length <= {} over a 10-letter alphabet vs the reference ordering automaton", max_len));
}

pub fn run(ctx: &mut Ctx) {
    ctx.rep.rule = "valid reference-built stills (all colour types, both interlace methods, 3 IDAT chunks) and APNGs x every listed violation class injected at a random site with CRCs recomputed \
        (signature, IHDR missing/duplicated at 3 positions, 8 illegal IHDR fields, second PLTE, no image data, IDAT resumed after 3 kinds of intervening chunk, 5 corrupt-zlib classes, stream too short, \
        undefined filter byte on a random row of a random pass, 4 sequence-number faults at a random fcTL/fdAT, fdAT without fcTL, fdAT < 4 bytes, 7 frame-rectangle faults incl. 32-bit overflow), \
        decoded through Reader (read_info, every frame, finish); plus ALL chunk-kind sequences up to a bounded length over {IHDR,PLTE,tRNS,IDAT,acTL,fcTL,fdAT,IEND,tEXt,private} checked against a reference automaton of the listed ordering rules; \
        non-trivial = every injected case / sequences of length >= 2; distinct = hash of the file".into();
    let mut rng = ctx.rng.fork(1);
    let n = ctx.n(240, 1500);
    for i in 0..n {
        let mut r = rng.fork(i as u64);
        let mut inj = vec![];
        still_injections(&mut r, &mut inj);
        anim_injections(&mut r, &mut inj);
        for j in inj {
            let r = run_reader(&j.file, &[], &DEFAULT_OPTS, png::Transformations::IDENTITY);
            ctx.rep.eval(true, fnv64(&j.file));
            ctx.rep.count("violation class", j.class);
            if j.class.starts_with("control/") {
                if first_error_stage(&r).is_some() {
                    ctx.rep.notes.push(format!("generator control file rejected ({}): {}", j.class, &crate::util::shorten(&r, 300, 0)));
                    ctx.rep.count("control", "rejected");
                }
                continue;
            }
            if !rejected_in_time(&r, j.frame) {
                ctx.rep.violation("oracle", &format!("accepted/{}", j.class),
                    &format!("stream with violation `{}` was not rejected by frame {}: {}", j.class, j.frame, &crate::util::shorten(&r, 600, 0)),
                    J::obj().set("kind", J::s("injection")).set("class", J::s(j.class)).set("frame", J::i(j.frame as u64)).set("file", J::s(&hex(&j.file))));
            }
            if i == 0 && ctx.rep.samples.len() < 4 {
                ctx.rep.sample(J::obj().set("class", J::s(j.class)).set("file_bytes", J::i(j.file.len() as u64)).set("must_fail_by_frame", J::i(j.frame as u64)));
            }
        }
    }
    enumerate_sequences(ctx, ctx.n(5, 6));
}

pub fn replay(ctx: &mut Ctx, case: &J) {
    let file = case.get("file").and_then(|f| f.as_str()).and_then(unhex).unwrap_or_default();
    let frame = case.get("frame").and_then(|f| f.as_i64()).unwrap_or(0) as usize;
    let r = run_reader(&file, &[], &DEFAULT_OPTS, png::Transformations::IDENTITY);
    ctx.rep.eval(true, fnv64(&file));
    if !rejected_in_time(&r, frame) {
        ctx.rep.violation("oracle", "accepted/replay", &format!("not rejected by frame {}: {}", frame, r), case.clone());
    }
}
