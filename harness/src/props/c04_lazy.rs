//! C04, Reader level, for every laziness of the inflater: the real `Reader` against the call-protocol model
//! `PngVerif/Model/LazyReader.lean` (driver `lazy run …`, theorems `PngVerif/Props/C04Lazy.lean`).
//!
//! Files are built with the reference builder from a description (frames: size, all-zero or random pixels, data cut short
//! or extended; stills and APNGs, with / without a separate default image, `acTL` declaring the right number of frames, one
//! more, one fewer; Adam7 or not).  Highly compressible frames whose raw size lies just above the inflater's buffer sizes
//! make the real inflater lazy when the file arrives in one piece (the tail of the frame comes out together with the end
//! of the data sequence) and eager when it arrives in small pieces.  Random and structured call sequences are run under
//! whole-file delivery and under several piece-wise deliveries and mapped to the model's result tokens.
//!
//! Checks (results are compared up to and including the first failed `read_until_image_data`, as C04 compares traces up
//! to the first error of that kind):
//!  * `Polled` sequences (`polledRes`, decided by the model): real(whole) = real(pieces) = model(eager) = model(lazy-all)
//!    (theorem `lazy_arrival_independent_partial` / `_upto_fatal`: the model's answer does not depend on the arrival, so no
//!    pull trace of the real inflater is needed);
//!  * other sequences: each real result equals the model's result under SOME arrival among {eager, lazy-all}; a
//!    difference between the two real deliveries there is finding D24 and is reported under the class key C04 already uses.
use crate::iowrap::PieceReader;
use crate::json::J;
use crate::model;
use crate::refpng::*;
use crate::report::Ctx;
use crate::rng::{fnv64, Rng};
use crate::util::{guarded, hex, unhex};

const PREFILL: u8 = 0xAA;
const D24_CLASS: &str = "reader/mixed-calls-differ/next_frame-after-all-rows-unpolled";

#[derive(Clone, Copy, Debug, PartialEq, Eq)]
pub enum LOp {
    NextFrame,
    NextRow,
    ReadRow,
    NextFrameInfo,
    Finish,
}

impl LOp {
    fn tok(&self) -> &'static str {
        match self {
            LOp::NextFrame => "nf",
            LOp::NextRow => "nr",
            LOp::ReadRow => "rr",
            LOp::NextFrameInfo => "fi",
            LOp::Finish => "fin",
        }
    }
    fn parse(s: &str) -> Option<LOp> {
        Some(match s {
            "nf" => LOp::NextFrame,
            "nr" => LOp::NextRow,
            "rr" => LOp::ReadRow,
            "fi" => LOp::NextFrameInfo,
            "fin" => LOp::Finish,
            _ => return None,
        })
    }
}

fn ops_string(ops: &[LOp]) -> String {
    if ops.is_empty() {
        return "-".into();
    }
    ops.iter().map(|o| o.tok()).collect::<Vec<_>>().join(",")
}

#[derive(Clone, Debug)]
struct FrameSpec {
    w: u32,
    h: u32,
    x: u32,
    y: u32,
    zero: bool,
    /// bytes removed from (negative) or appended to (positive) the frame's scanline data
    delta: i64,
    deflater: Deflater,
    split: Split,
}

#[derive(Clone, Debug)]
struct FileSpec {
    color: u8,
    depth: u8,
    interlace: bool,
    canvas: (u32, u32),
    frames: Vec<FrameSpec>,
    /// `Some((declared num_frames, separate default image))` for an APNG
    anim: Option<(u32, bool)>,
    label: String,
}

/// what the checks need to know about a built file
#[derive(Clone, Debug)]
pub struct Built {
    pub bytes: Vec<u8>,
    pub interlace: bool,
    pub rem0: usize,
    /// the model's frame list (`lazy run` syntax)
    pub model_frames: String,
    /// fcTL sequence number of each frame (None: the IDAT image without fcTL)
    pub seqs: Vec<Option<u32>>,
    /// (width, height) of each frame
    pub dims: Vec<(u32, u32)>,
    pub label: String,
}

const ADAM7: [(usize, usize, usize, usize); 7] = [(0, 0, 8, 8), (4, 0, 8, 8), (0, 4, 4, 8), (2, 0, 4, 4), (0, 2, 2, 4), (1, 0, 2, 2), (0, 1, 1, 2)];

fn pass_dims(w: u32, h: u32) -> Vec<(usize, usize)> {
    let cnt = |n: usize, off: usize, step: usize| (0..n).filter(|x| *x >= off && (*x - off) % step == 0).count();
    ADAM7.iter().map(|&(xo, yo, xs, ys)| (cnt(w as usize, xo, xs), cnt(h as usize, yo, ys))).collect()
}

fn bits_pp(color: u8, depth: u8) -> usize {
    samples(color) * depth as usize
}

/// `(count, rowlen)` groups of the row-units of a frame, in delivery order
fn row_groups(color: u8, depth: u8, interlace: bool, w: u32, h: u32) -> Vec<(usize, usize)> {
    let rl = |pw: usize| 1 + (pw * bits_pp(color, depth) + 7) / 8;
    if interlace {
        pass_dims(w, h).into_iter().filter(|(pw, ph)| *pw > 0 && *ph > 0).map(|(pw, ph)| (ph, rl(pw))).collect()
    } else {
        vec![(h as usize, rl(w as usize))]
    }
}

/// index of the row-unit `(pass, line)` (pass 1..=7) of an Adam7 frame
fn adam7_index(w: u32, h: u32, pass: usize, line: usize) -> usize {
    let pd = pass_dims(w, h);
    let mut off = 0;
    for p in 0..pass.saturating_sub(1).min(7) {
        if pd[p].0 > 0 && pd[p].1 > 0 {
            off += pd[p].1;
        }
    }
    off + line
}

fn build(spec: &FileSpec, rng: &mut Rng) -> Built {
    let mut cs = vec![ihdr(spec.canvas.0, spec.canvas.1, spec.depth, spec.color, spec.interlace as u8)];
    if let Some((declared, _)) = spec.anim {
        cs.push(actl(declared, 0));
    }
    let mut seq = 0u32;
    let mut seqs = vec![];
    let mut dims = vec![];
    let mut mframes = vec![];
    for (k, f) in spec.frames.iter().enumerate() {
        let with_fc = match spec.anim {
            None => false,
            Some((_, sep)) => !(k == 0 && sep),
        };
        if with_fc {
            let fc = Fctl { seq, w: f.w, h: f.h, x: f.x, y: f.y, delay_num: 1, delay_den: 10, dispose: 0, blend: 0 };
            cs.push(fc.chunk());
            seqs.push(Some(seq));
            seq += 1;
        } else {
            seqs.push(None);
        }
        let mut img = Img::random(rng, spec.color, spec.depth, f.w, f.h);
        for b in img.pixels.iter_mut() {
            // never the prefill byte of the caller's buffer: rows written by next_frame can be told from rows left alone
            *b = if f.zero { 0 } else { *b & 0x7F };
        }
        let filters = if f.zero { Filters::Uniform(0) } else { Filters::Random };
        let (mut raw, _) = scanlines(&img, spec.interlace, &filters, rng);
        if f.delta < 0 {
            let cut = ((-f.delta) as usize).min(raw.len());
            raw.truncate(raw.len() - cut);
        } else {
            raw.extend(std::iter::repeat(0u8).take(f.delta as usize));
        }
        let z = zlib_stream(&raw, &f.deflater);
        for piece in split(&z, &f.split, rng) {
            if k == 0 {
                cs.push(RawChunk::new(b"IDAT", piece));
            } else {
                let mut d = seq.to_be_bytes().to_vec();
                seq += 1;
                d.extend_from_slice(&piece);
                cs.push(RawChunk::new(b"fdAT", d));
            }
        }
        dims.push((f.w, f.h));
        let groups: Vec<String> = row_groups(spec.color, spec.depth, spec.interlace, f.w, f.h).iter().map(|(c, l)| format!("{}x{}", c, l)).collect();
        mframes.push(format!("{}/{}", if groups.is_empty() { "-".to_string() } else { groups.join("+") }, raw.len()));
    }
    cs.push(RawChunk::new(b"IEND", vec![]));
    let rem0 = match spec.anim {
        None => 1,
        Some((declared, sep)) => ((declared as usize) + sep as usize).max(1),
    };
    Built { bytes: serialize(&cs), interlace: spec.interlace, rem0, model_frames: mframes.join(","), seqs, dims, label: spec.label.clone() }
}

fn err_tok(e: &png::DecodingError) -> String {
    match e {
        png::DecodingError::Parameter(p) => {
            let s = p.to_string();
            if s.contains("End of image has been reached") {
                "err(polled)".into()
            } else {
                format!("err(parameter:{})", s)
            }
        }
        png::DecodingError::Format(f) => {
            let s = f.to_string();
            if s.contains("IDAT or fdAT chunk is missing") {
                "err(missing)".into()
            } else if s.contains("does not have enough data for image") {
                "err(nomore)".into()
            } else {
                format!("err(format:{})", s)
            }
        }
        png::DecodingError::IoError(e) if e.kind() == std::io::ErrorKind::UnexpectedEof => "err(eof)".into(),
        png::DecodingError::IoError(e) => format!("err(io:{:?})", e.kind()),
        png::DecodingError::LimitsExceeded => "err(limits)".into(),
    }
}

/// `(is_adam7, pass, line)` from the Debug form (the fields are not public)
fn ii_parts(ii: &png::InterlaceInfo) -> (bool, usize, usize) {
    let d = format!("{:?}", ii);
    let nums: Vec<usize> = d.split(|c: char| !c.is_ascii_digit()).filter(|s| !s.is_empty()).filter_map(|s| s.parse().ok()).collect();
    if d.starts_with("Null") {
        (false, 0, nums.first().copied().unwrap_or(0))
    } else {
        // "Adam7(Adam7Info { pass: 1, line: 0, width: 4 })": the 7 of "Adam7" twice, then pass, line, width
        (true, nums.get(2).copied().unwrap_or(0), nums.get(3).copied().unwrap_or(0))
    }
}

pub struct RealTrace {
    pub tokens: Vec<String>,
    pub panicked: bool,
}

/// the calls on the real `Reader`; `cuts` = the piece boundaries of the delivery (empty: the whole file at once)
pub fn run_real(b: &Built, ops: &[LOp], cuts: &[usize]) -> RealTrace {
    let rd = PieceReader::new(b.bytes.clone(), cuts.to_vec());
    let dec = png::Decoder::new(rd);
    let mut reader = match guarded(move || dec.read_info()) {
        Ok(Ok(r)) => r,
        Ok(Err(e)) => return RealTrace { tokens: vec![format!("noreader:{}", e)], panicked: false },
        Err(p) => return RealTrace { tokens: vec![format!("PANIC({})", p)], panicked: true },
    };
    let mut tokens = vec![];
    let frame_index = |r: &png::Reader<PieceReader>| -> usize {
        let s = r.info().frame_control.map(|f| f.sequence_number);
        match s {
            None => 0,
            Some(q) => b.seqs.iter().position(|x| *x == Some(q)).unwrap_or(usize::MAX),
        }
    };
    for op in ops {
        let res = guarded(|| -> String {
            match op {
                LOp::NextFrame => {
                    let mut buf = vec![PREFILL; reader.output_buffer_size()];
                    match reader.next_frame(&mut buf) {
                        Ok(oi) => {
                            let k = frame_index(&reader);
                            if b.interlace {
                                return format!("frame({})", k);
                            }
                            let ls = oi.line_size;
                            let written: Vec<usize> = (0..oi.height as usize).filter(|j| buf[j * ls..(j + 1) * ls].iter().any(|x| *x != PREFILL)).collect();
                            match (written.first(), written.last()) {
                                (Some(lo), Some(hi)) if hi - lo + 1 == written.len() => format!("frame({},{},{})", k, lo, written.len()),
                                (None, _) => format!("frame({},0,0)", k),
                                _ => format!("frame({},?{})", k, written.iter().map(|x| x.to_string()).collect::<Vec<_>>().join(".")),
                            }
                        }
                        Err(e) => err_tok(&e),
                    }
                }
                LOp::NextRow => {
                    let r = match reader.next_interlaced_row() {
                        Ok(Some(row)) => Ok(Some(*row.interlace())),
                        Ok(None) => Ok(None),
                        Err(e) => Err(e),
                    };
                    row_tok(&reader, b, r, &frame_index)
                }
                LOp::ReadRow => {
                    let n = reader.output_line_size(reader.info().width);
                    let mut buf = vec![0u8; n];
                    let r = reader.read_row(&mut buf);
                    row_tok(&reader, b, r, &frame_index)
                }
                LOp::NextFrameInfo => match reader.next_frame_info() {
                    Ok(_) => format!("fctl({})", frame_index(&reader)),
                    Err(e) => err_tok(&e),
                },
                LOp::Finish => match reader.finish() {
                    Ok(()) => "ok".into(),
                    Err(e) => err_tok(&e),
                },
            }
        });
        match res {
            Ok(t) => tokens.push(t),
            Err(p) => {
                tokens.push(format!("PANIC({})", p));
                return RealTrace { tokens, panicked: true };
            }
        }
    }
    RealTrace { tokens, panicked: false }
}

fn row_tok(reader: &png::Reader<PieceReader>, b: &Built, r: Result<Option<png::InterlaceInfo>, png::DecodingError>, frame_index: &dyn Fn(&png::Reader<PieceReader>) -> usize) -> String {
    match r {
        Ok(Some(ii)) => {
            let k = frame_index(reader);
            let (a7, pass, line) = ii_parts(&ii);
            let i = if a7 {
                let (w, h) = b.dims.get(k).copied().unwrap_or((1, 1));
                adam7_index(w, h, pass, line)
            } else {
                line
            };
            format!("row({},{})", k, i)
        }
        Ok(None) => "none".into(),
        Err(e) => err_tok(&e),
    }
}

fn is_fatal(t: &str) -> bool {
    t == "err(missing)" || t == "err(eof)"
}

/// tokens up to and including the first failed `read_until_image_data`
fn cut_fatal(toks: &[String]) -> Vec<String> {
    let e = toks.iter().position(|t| is_fatal(t)).map(|p| p + 1).unwrap_or(toks.len());
    toks[..e].to_vec()
}

struct ModelAns {
    tokens: Vec<String>,
    polled: bool,
    valid: bool,
}

fn parse_model(ans: &str, interlace: bool) -> Option<ModelAns> {
    let (t, flags) = ans.split_once(" | ")?;
    let mut tokens: Vec<String> = if t.is_empty() { vec![] } else { t.split(' ').map(|s| s.to_string()).collect() };
    if interlace {
        // which row-units a frame call wrote is not observable on an Adam7 image: compare the frame only
        for x in tokens.iter_mut() {
            if x.starts_with("frame(") {
                let k = x[6..].split(',').next().unwrap_or("").to_string();
                *x = format!("frame({})", k);
            }
        }
    }
    Some(ModelAns { tokens, polled: flags.contains("polled=1"), valid: flags.contains("valid=1") })
}

fn model_line(b: &Built, arrival: &str, ops: &[LOp]) -> String {
    format!("lazy run {} {} {} {} {}", b.interlace as u8, b.rem0, b.model_frames, arrival, ops_string(ops))
}

/// does the model give `real` (cut at the first fatal result) when each frame's data arrives either eagerly or lazily?
fn mixed_arrival_explains(b: &Built, ops: &[LOp], real: &[String]) -> bool {
    let avails: Vec<String> = b.model_frames.split(',').map(|f| f.rsplit('/').next().unwrap_or("0").to_string()).collect();
    let n = avails.len().min(10);
    let lines: Vec<String> = (0..(1usize << n))
        .map(|mask| {
            let arr: Vec<String> = avails.iter().enumerate().map(|(i, a)| if i < n && (mask >> i) & 1 == 1 { format!("-:{}", a) } else { format!("{}:0", a) }).collect();
            model_line(b, &arr.join(","), ops)
        })
        .collect();
    model::ask_one(&lines).iter().filter_map(|a| parse_model(a, b.interlace)).any(|m| m.valid && cut_fatal(&m.tokens) == real)
}

fn flush_frame(w: u32, h: u32) -> FrameSpec {
    FrameSpec { w, h, x: 0, y: 0, zero: true, delta: 0, deflater: Deflater::Level(6), split: Split::One }
}

fn specs(ctx: &Ctx, rng: &mut Rng) -> Vec<FileSpec> {
    let mut out = vec![];
    // stills: highly compressible, raw size just above the inflater's buffer sizes (the corner of D23 / D24)
    for (w, h, color, depth) in [(1024u32, 32u32, 0u8, 8u8), (31, 1030, 0, 8), (361, 363, 0, 8), (181, 181, 6, 8), (515, 16, 2, 16), (2048, 17, 0, 8)] {
        out.push(FileSpec { color, depth, interlace: false, canvas: (w, h), frames: vec![flush_frame(w, h)], anim: None, label: format!("still-flush-{}x{}", w, h) });
    }
    out.push(FileSpec { color: 0, depth: 8, interlace: true, canvas: (1024, 33), frames: vec![flush_frame(1024, 33)], anim: None, label: "still-flush-adam7".into() });
    // the same with the data cut short / extended
    for delta in [-1i64, -1025, -3000, 700] {
        let mut f = flush_frame(1024, 32);
        f.delta = delta;
        out.push(FileSpec { color: 0, depth: 8, interlace: false, canvas: (1024, 32), frames: vec![f], anim: None, label: format!("still-flush-delta{}", delta) });
    }
    // animations of such frames; acTL right, one too many (a frame is missing), one too few
    for (sep, dd, interlace) in [(false, 0i64, false), (true, 0, false), (false, 1, false), (true, 1, false), (false, -1, false), (false, 0, true), (true, 1, true)] {
        let mut frames = vec![flush_frame(1024, 40), flush_frame(1024, 33), { let mut f = flush_frame(1000, 34); f.x = 24; f.y = 6; f }];
        if dd == 0 && !sep {
            frames[1].delta = -2000;
        }
        let n_anim = frames.len() as i64 - sep as i64;
        out.push(FileSpec { color: 0, depth: 8, interlace, canvas: (1024, 40), frames, anim: Some(((n_anim + dd).max(0) as u32, sep)), label: format!("apng-flush-sep{}-declared{:+}{}", sep as u8, dd, if interlace { "-adam7" } else { "" }) });
    }
    // one frame where the acTL declares two: next_frame_info fails with MissingImageData while rows are pending
    for (w, h) in [(1024u32, 32u32), (31, 1030)] {
        out.push(FileSpec { color: 0, depth: 8, interlace: false, canvas: (w, h), frames: vec![flush_frame(w, h)], anim: Some((2, false)), label: format!("apng-flush-one-of-two-{}x{}", w, h) });
    }
    // small random files of every shape
    for i in 0..ctx.n(60, 240) {
        let mut r = rng.fork(1000 + i as u64);
        let (color, depth) = *r.pick(&[(0u8, 8u8), (0, 1), (0, 4), (2, 8), (4, 8), (6, 8), (0, 16), (6, 16)]);
        let interlace = r.chance(1, 3);
        let cw = r.range(1, 12) as u32;
        let ch = r.range(1, 12) as u32;
        let anim = r.chance(2, 3);
        let nframes = if anim { r.usize(1, 3) } else { 1 };
        let sep = anim && r.chance(1, 3);
        let mut frames = vec![];
        for k in 0..nframes {
            let full = k == 0 || r.chance(1, 3);
            let (w, h) = if full { (cw, ch) } else { (r.range(1, cw as u64) as u32, r.range(1, ch as u64) as u32) };
            let x = if full { 0 } else { r.range(0, (cw - w) as u64) as u32 };
            let y = if full { 0 } else { r.range(0, (ch - h) as u64) as u32 };
            let delta = match r.below(6) {
                0 => -(r.range(1, 40) as i64),
                1 => r.range(1, 30) as i64,
                _ => 0,
            };
            frames.push(FrameSpec { w, h, x, y, zero: r.chance(1, 3), delta, deflater: random_deflater(&mut r), split: match r.below(3) { 0 => Split::One, 1 => Split::Fixed(r.usize(1, 9)), _ => Split::Random(r.usize(1, 4)) } });
        }
        let declared = if anim { (nframes as i64 - sep as i64 + *r.pick(&[0i64, 0, 0, 1, -1])).max(0) as u32 } else { 0 };
        out.push(FileSpec { color, depth, interlace, canvas: (cw, ch), frames, anim: if anim { Some((declared, sep)) } else { None }, label: format!("small-{}{}", if anim { "apng" } else { "still" }, if interlace { "-adam7" } else { "" }) });
    }
    out
}

fn row_units(b: &Built, color_depth_interlace: (u8, u8, bool)) -> Vec<usize> {
    let (c, d, il) = color_depth_interlace;
    b.dims.iter().map(|(w, h)| row_groups(c, d, il, *w, *h).iter().map(|g| g.0).sum()).collect()
}

fn sequences(ctx: &Ctx, rng: &mut Rng, rows: &[usize]) -> Vec<Vec<LOp>> {
    let mut seqs: Vec<Vec<LOp>> = vec![];
    let row = |i: usize| if i % 5 == 4 { LOp::ReadRow } else { LOp::NextRow };
    let h0 = rows.first().copied().unwrap_or(1);
    // rows, then a call while k rows are still undelivered (k = 0: the D24 state)
    for k in 0..3usize {
        for tail in [
            vec![LOp::NextFrame],
            vec![LOp::NextFrame, LOp::NextFrame],
            vec![LOp::NextRow, LOp::NextFrame, LOp::NextRow],
            vec![LOp::NextFrameInfo, LOp::NextRow, LOp::NextFrame],
            vec![LOp::Finish, LOp::NextRow, LOp::NextFrame],
            vec![LOp::NextFrameInfo, LOp::NextFrameInfo, LOp::NextFrame, LOp::NextRow, LOp::NextFrame, LOp::NextFrame, LOp::Finish],
        ] {
            let mut v: Vec<LOp> = (0..h0.saturating_sub(k)).map(row).collect();
            v.extend(tail);
            seqs.push(v);
        }
    }
    // frame by frame with next_frame / by rows, then beyond the end
    let mut v = vec![];
    for (k, r) in rows.iter().enumerate() {
        if k % 2 == 0 {
            v.push(LOp::NextFrame);
        } else {
            v.push(LOp::NextFrameInfo);
            v.extend((0..*r + 1).map(row));
        }
    }
    v.extend([LOp::NextFrame, LOp::NextFrameInfo, LOp::NextRow, LOp::Finish, LOp::Finish, LOp::NextRow]);
    seqs.push(v);
    // random segments
    for _ in 0..ctx.n(14, 40) {
        let mut v = vec![];
        let nseg = rng.usize(1, 8);
        let mut fk = 0usize;
        for _ in 0..nseg {
            match rng.below(10) {
                0..=4 => {
                    let h = rows.get(fk.min(rows.len().saturating_sub(1))).copied().unwrap_or(1);
                    let n = match rng.below(4) {
                        0 => h,
                        1 => h.saturating_sub(rng.usize(0, 2)),
                        2 => h + 1,
                        _ => rng.usize(1, (h + 2).min(40)),
                    };
                    let base = v.len();
                    v.extend((0..n).map(|i| row(base + i)));
                }
                5 | 6 => {
                    v.push(LOp::NextFrame);
                    fk += 1;
                }
                7 | 8 => {
                    v.push(LOp::NextFrameInfo);
                    fk += 1;
                }
                _ => v.push(LOp::Finish),
            }
        }
        seqs.push(v);
    }
    seqs
}

fn deliveries(rng: &mut Rng, n: usize) -> Vec<(&'static str, Vec<usize>)> {
    let mut out: Vec<(&'static str, Vec<usize>)> = vec![];
    if n <= 6000 {
        out.push(("byte-wise", (1..n).collect()));
    }
    out.push(("7", (1..n).step_by(7).collect()));
    out.push(("4096", (1..n).step_by(4096).collect()));
    let mut c: Vec<usize> = (0..5).map(|_| rng.usize(1, n.saturating_sub(1).max(1))).collect();
    c.sort();
    c.dedup();
    out.push(("random", c));
    out
}

fn cuts_str(c: &[usize]) -> String {
    if c.is_empty() {
        "-".into()
    } else {
        c.iter().map(|x| x.to_string()).collect::<Vec<_>>().join(",")
    }
}

fn case_json(b: &Built, ops: &[LOp], cuts: &[usize]) -> J {
    J::obj()
        .set("what", J::s("lazy"))
        .set("file", J::s(&hex(&b.bytes)))
        .set("label", J::s(&b.label))
        .set("interlace", J::i(b.interlace as u64))
        .set("rem0", J::i(b.rem0 as u64))
        .set("frames", J::s(&b.model_frames))
        .set("seqs", J::s(&b.seqs.iter().map(|s| s.map(|x| x.to_string()).unwrap_or("-".into())).collect::<Vec<_>>().join(",")))
        .set("dims", J::s(&b.dims.iter().map(|(w, h)| format!("{}x{}", w, h)).collect::<Vec<_>>().join(",")))
        .set("ops", J::s(&ops_string(ops)))
        .set("cuts", J::s(&cuts_str(&cuts[..cuts.len().min(3000)])))
}

fn short(v: &[String], at: usize) -> String {
    let lo = at.saturating_sub(2);
    let hi = (at + 2).min(v.len());
    format!("…{}…", v[lo..hi].join(" "))
}

/// one (file, call sequence, delivery): the checks described at the top.  Returns false if something was reported.
fn check(ctx: &mut Ctx, b: &Built, ops: &[LOp], whole: &RealTrace, pieces: &RealTrace, cuts: &[usize], dname: &str, me: &ModelAns, ml: &ModelAns) -> bool {
    let case = || case_json(b, ops, cuts);
    if whole.panicked || pieces.panicked {
        ctx.rep.violation("oracle", "reader/panic", &format!("[{}] a call panicked: {}", b.label, whole.tokens.last().into_iter().chain(pieces.tokens.last()).filter(|t| t.starts_with("PANIC")).cloned().collect::<Vec<_>>().join(" / ")), case());
        return false;
    }
    if me.tokens.iter().chain(ml.tokens.iter()).any(|t| t.starts_with("PANIC")) {
        ctx.rep.violation("model", "lazy/model-panic", &format!("[{}] the model reports a panic (contradicts lazy_no_panic): {}", b.label, me.tokens.join(" ")), case());
        return false;
    }
    let (a, p, e, l) = (cut_fatal(&whole.tokens), cut_fatal(&pieces.tokens), cut_fatal(&me.tokens), cut_fatal(&ml.tokens));
    let first_diff = |x: &Vec<String>, y: &Vec<String>| x.iter().zip(y.iter()).position(|(u, v)| u != v).unwrap_or(x.len().min(y.len()));
    if me.polled {
        ctx.rep.count("lazy: call sequence", "polled");
        if e != l || !ml.polled {
            let at = first_diff(&e, &l);
            ctx.rep.violation("model", "lazy/theorem-contradicted", &format!("[{}] Polled sequence but model(eager) {} != model(lazy-all) {}", b.label, short(&e, at), short(&l, at)), case());
            return false;
        }
        if a != p {
            let at = first_diff(&a, &p);
            ctx.rep.violation("oracle", "lazy/polled-deliveries-differ", &format!("[{}] calls [{}]: result {} is `{}` with the whole file in one piece and `{}` with delivery {} (a Polled sequence: next_frame never right after the last row of a frame came from a row call)", b.label, crate::util::shorten(&ops_string(ops), 200, 180), at, a.get(at).map(|s| s.as_str()).unwrap_or("(none)"), p.get(at).map(|s| s.as_str()).unwrap_or("(none)"), dname), case());
            return false;
        }
        if a != e {
            let at = first_diff(&a, &e);
            ctx.rep.violation("model", "lazy/real-vs-model", &format!("[{}] calls [{}]: result {}: Reader `{}`, model `{}` (both deliveries agree)", b.label, crate::util::shorten(&ops_string(ops), 200, 180), at, short(&a, at), short(&e, at)), case());
            return false;
        }
        // after a failed read_until_image_data the arrival may show (lazy_missing_frame_counterexample): counted, not judged
        if whole.tokens != pieces.tokens {
            ctx.rep.count("lazy: after a failed read_until_image_data", "deliveries differ");
            if !ctx.rep.notes.iter().any(|n| n.starts_with("after a failed next_frame_info")) {
                let at = first_diff(&whole.tokens, &pieces.tokens);
                ctx.rep.notes.push(format!("after a failed next_frame_info (MissingImageData) the deliveries differ (not judged: behaviour after a Format error; Lean: lazy_missing_frame_counterexample): [{}] calls [{}]: result {} is `{}` with the whole file in one piece and `{}` with delivery {}", b.label, crate::util::shorten(&ops_string(ops), 160, 140), at, whole.tokens.get(at).map(|s| s.as_str()).unwrap_or("(none)"), pieces.tokens.get(at).map(|s| s.as_str()).unwrap_or("(none)"), dname));
            }
            let (fe, fl) = (&me.tokens, &ml.tokens);
            let explained = (whole.tokens == *fe || whole.tokens == *fl) && (pieces.tokens == *fe || pieces.tokens == *fl);
            ctx.rep.count("lazy: after a failed read_until_image_data", if explained { "both deliveries = model under eager / lazy-all" } else { "not one of the two model arrivals" });
        } else if a.len() < whole.tokens.len() {
            ctx.rep.count("lazy: after a failed read_until_image_data", "deliveries agree");
        }
        true
    } else {
        ctx.rep.count("lazy: call sequence", "not polled");
        let mut ok = true;
        for (name, r) in [("whole file", &a), ("pieces", &p)] {
            let which = match (*r == e, *r == l) {
                (true, true) => "both",
                (true, false) => "eager",
                (false, true) => "lazy-all",
                _ => "neither",
            };
            ctx.rep.count(&format!("lazy: non-polled, {} = model under", name), which);
            // several frames: the real inflater may be lazy on one frame and eager on another
            if which == "neither" && mixed_arrival_explains(b, ops, r) {
                ctx.rep.count("lazy: non-polled, explained by", "eager on some frames, lazy on others");
                continue;
            }
            if which == "neither" {
                let at = first_diff(r, &e).max(first_diff(r, &l));
                ctx.rep.violation("model", "lazy/real-vs-model-nonpolled", &format!("[{}] calls [{}] ({}): Reader {} is neither model(eager) {} nor model(lazy-all) {}", b.label, crate::util::shorten(&ops_string(ops), 200, 180), name, short(r, at), short(&e, at.min(e.len())), short(&l, at.min(l.len()))), case());
                ok = false;
            }
        }
        if ok && a != p {
            // finding D24: classified as C04 does (one more row poll in front of the call makes the deliveries agree)
            let at = first_diff(&a, &p);
            let mut class = "reader/mixed-calls-differ";
            // the state survives refused next_frame_info / finish calls (`PolledAfterEndOfImage`: nothing happens)
            let mut before = at;
            while before > 0 && matches!(ops.get(before - 1), Some(LOp::NextFrameInfo) | Some(LOp::Finish)) && a.get(before - 1).map(|t| t == "err(polled)").unwrap_or(false) {
                before -= 1;
            }
            if before > 0 && matches!(ops.get(at), Some(LOp::NextFrame)) && matches!(ops.get(before - 1), Some(LOp::NextRow) | Some(LOp::ReadRow)) {
                let mut ops2 = ops[..at].to_vec();
                ops2.push(LOp::NextRow);
                ops2.extend_from_slice(&ops[at..]);
                let (w2, p2) = (run_real(b, &ops2, &[]), run_real(b, &ops2, cuts));
                if !w2.panicked && !p2.panicked && w2.tokens.get(at).map(|x| x == "none").unwrap_or(false) && p2.tokens.get(at).map(|x| x == "none").unwrap_or(false) && cut_fatal(&w2.tokens) == cut_fatal(&p2.tokens) {
                    class = D24_CLASS;
                }
            }
            ctx.rep.violation("oracle", class, &format!("[{}] calls [{}]: result {} is `{}` with the whole file in one piece and `{}` with delivery {} (model: `{}` under an eager, `{}` under a lazy arrival)", b.label, crate::util::shorten(&ops_string(ops), 200, 180), at, a.get(at).map(|s| s.as_str()).unwrap_or("(none)"), p.get(at).map(|s| s.as_str()).unwrap_or("(none)"), dname, e.get(at).map(|s| s.as_str()).unwrap_or("(none)"), l.get(at).map(|s| s.as_str()).unwrap_or("(none)")), case());
            ok = false;
        }
        ok
    }
}

pub fn run_part(ctx: &mut Ctx) {
    let mut rng = ctx.rng.fork(0x1a2);
    let specs = specs(ctx, &mut rng);
    struct Job {
        b: usize,
        ops: Vec<LOp>,
    }
    let mut builts = vec![];
    let mut jobs: Vec<Job> = vec![];
    for (i, s) in specs.iter().enumerate() {
        let mut r = rng.fork(i as u64);
        let b = build(s, &mut r);
        let rows = row_units(&b, (s.color, s.depth, s.interlace));
        for ops in sequences(ctx, &mut r, &rows) {
            jobs.push(Job { b: i, ops });
        }
        builts.push(b);
    }
    let mut lines = vec![];
    for j in &jobs {
        lines.push(model_line(&builts[j.b], "eager", &j.ops));
        lines.push(model_line(&builts[j.b], "lazy-all", &j.ops));
    }
    let answers = model::ask(&lines);
    let mut dl_rng = rng.fork(77);
    let dls: Vec<Vec<(&'static str, Vec<usize>)>> = builts.iter().map(|b| deliveries(&mut dl_rng, b.bytes.len())).collect();
    for (ji, j) in jobs.iter().enumerate() {
        let b = &builts[j.b];
        let (me, ml) = match (parse_model(&answers[2 * ji], b.interlace), parse_model(&answers[2 * ji + 1], b.interlace)) {
            (Some(x), Some(y)) => (x, y),
            _ => {
                ctx.rep.violation("model", "lazy/driver-answer", &format!("[{}] unparsable driver answer `{}` to `{}`", b.label, crate::util::shorten(&answers[2 * ji], 120, 100), crate::util::shorten(&lines[2 * ji], 160, 140)), case_json(b, &j.ops, &[]));
                continue;
            }
        };
        if !me.valid || !ml.valid {
            ctx.rep.violation("model", "lazy/driver-answer", "arrival not valid", case_json(b, &j.ops, &[]));
            continue;
        }
        let whole = run_real(b, &j.ops, &[]);
        for (dname, cuts) in &dls[j.b] {
            // tall images x long sequences: two deliveries are enough
            if j.ops.len() > 400 && !(*dname == "4096" || *dname == "random") {
                continue;
            }
            ctx.rep.eval(true, fnv64(&b.bytes) ^ fnv64(ops_string(&j.ops).as_bytes()) ^ fnv64(dname.as_bytes()));
            ctx.rep.count("lazy: delivery", dname);
            ctx.rep.count("lazy: file", &b.label);
            let pieces = run_real(b, &j.ops, cuts);
            check(ctx, b, &j.ops, &whole, &pieces, cuts, dname, &me, &ml);
        }
        if ji < 2 {
            ctx.rep.sample(J::obj().set("lazy_file", J::s(&b.label)).set("frames", J::s(&b.model_frames)).set("ops", J::s(&crate::util::shorten(&ops_string(&j.ops), 120, 100))).set("reader", J::s(&crate::util::shorten(&whole.tokens.join(" "), 200, 180))));
        }
    }
}

/// replay of a stored case (`"what": "lazy"`)
pub fn replay(ctx: &mut Ctx, case: &J) {
    let gs = |k: &str| case.get(k).and_then(|x| x.as_str()).unwrap_or("").to_string();
    let gi = |k: &str| case.get(k).and_then(|x| x.as_i64()).unwrap_or(0) as u64;
    let bytes = unhex(&gs("file")).unwrap_or_default();
    let b = Built {
        bytes,
        interlace: gi("interlace") == 1,
        rem0: gi("rem0") as usize,
        model_frames: gs("frames"),
        seqs: gs("seqs").split(',').map(|s| s.parse().ok()).collect(),
        dims: gs("dims").split(',').filter_map(|s| s.split_once('x').and_then(|(w, h)| Some((w.parse().ok()?, h.parse().ok()?)))).collect(),
        label: gs("label"),
    };
    let ops: Vec<LOp> = gs("ops").split(',').filter_map(LOp::parse).collect();
    let cuts: Vec<usize> = gs("cuts").split(',').filter_map(|s| s.parse().ok()).collect();
    ctx.rep.eval(true, fnv64(&b.bytes));
    let answers = model::ask_one(&[model_line(&b, "eager", &ops), model_line(&b, "lazy-all", &ops)]);
    let (me, ml) = match (parse_model(&answers[0], b.interlace), parse_model(&answers[1], b.interlace)) {
        (Some(x), Some(y)) => (x, y),
        _ => {
            ctx.rep.violation("model", "lazy/driver-answer", "unparsable driver answer", case.clone());
            return;
        }
    };
    let (whole, pieces) = (run_real(&b, &ops, &[]), run_real(&b, &ops, &cuts));
    println!("whole:  {}\npieces: {}\neager:  {}\nlazy:   {}", whole.tokens.join(" "), pieces.tokens.join(" "), me.tokens.join(" "), ml.tokens.join(" "));
    check(ctx, &b, &ops, &whole, &pieces, &cuts, "replayed", &me, &ml);
}
