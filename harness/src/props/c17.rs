//! C17 — metadata written by the encoder is read back unchanged.
//!
//! Tie B for `PngVerif/Model/EncodeMeta.lean` (+ `Model/Text.lean`, `Model/Framing.lean`), through the
//! public API only: `png::Encoder` (`new` / `with_info`, every setter, `add_*_chunk`),
//! `Writer::{write_image_data, write_text_chunk, set_frame_*, reset_frame_*, set_blend_op,
//! set_dispose_op, finish}` -> bytes -> `png::Decoder::read_info`, all frames, `finish` -> `Info`.
//!
//! Oracle (independent of the model): the values supplied, with the documented sRGB override
//! (`Info::gamma()/chromaticities()` answer with the substitutes, the ICC profile is not written) and
//! tRNS in the decoder's form (low bytes of the samples for grayscale/RGB below 16 bits; skipped when it
//! does not apply to the colour type — those cases are only compared with the model).
//! Model: `c17 header` (chunk list: order, bodies; compressed payloads compared after inflating with an
//! independent inflater), `c17 decode` of the REAL chunks (Lean parsers + Lean inflater) against the real
//! decoder's `Info`, `c17 expect` (what `C17_header_roundtrip` promises) against both, the model's header
//! wrapped into a file and read by the real decoder, `c17 fcops` / `c17 enc fctl` for frame control.
//!
//! Class keys: `roundtrip/<kind>` (oracle), `refusal/<what>` (oracle), `model/<what>` (model).
use super::c20::SharedSink;
use crate::json::J;
use crate::model;
use crate::refpng::{self, RawChunk};
use crate::report::Ctx;
use crate::rng::{fnv64, Rng};
use crate::util::{guarded, hex, unhex};
use png::text_metadata::{ITXtChunk, TEXtChunk, ZTXtChunk};
use std::io::{Cursor, Write};

type Fail = (&'static str, String, String);

fn oracle(class: &str, what: String) -> Option<Fail> {
    Some(("oracle", class.to_string(), what))
}
fn modelf(class: &str, what: String) -> Option<Fail> {
    Some(("model", class.to_string(), what))
}
fn short(s: &str) -> String {
    // (cut at a character boundary: the text may hold anything the implementation returned)
    if s.chars().count() > 160 {
        format!("{}…({} bytes)", s.chars().take(160).collect::<String>(), s.len())
    } else {
        s.to_string()
    }
}
fn shex(s: &str) -> String {
    hex(s.as_bytes())
}

// ---------------------------------------------------------------------------------------------
// configurations
// ---------------------------------------------------------------------------------------------

#[derive(Clone, Debug, Default, PartialEq)]
struct Txt {
    kind: char, // 't' | 'z' | 'i'
    kw: String,
    text: String,
    /// iTXt written through `write_text_chunk` only: compressed flag, language tag, translated keyword
    flag: bool,
    lang: String,
    tk: String,
    /// zTXt/iTXt through `write_text_chunk`: `compress_text()` before writing
    pre: bool,
}

#[derive(Clone, Debug, PartialEq)]
enum Op {
    Dim(u32, u32),
    Pos(u32, u32),
    RDim,
    RPos,
    Delay(u16, u16),
    Blend(u8),
    Dispose(u8),
}

impl Op {
    fn tok(&self) -> String {
        match self {
            Op::Dim(w, h) => format!("dim/{}/{}", w, h),
            Op::Pos(x, y) => format!("pos/{}/{}", x, y),
            Op::RDim => "rdim".into(),
            Op::RPos => "rpos".into(),
            Op::Delay(n, d) => format!("delay/{}/{}", n, d),
            Op::Blend(b) => format!("blend/{}", b),
            Op::Dispose(o) => format!("dispose/{}", o),
        }
    }
    fn parse(s: &str) -> Option<Op> {
        let f: Vec<&str> = s.split('/').collect();
        Some(match f.as_slice() {
            ["dim", w, h] => Op::Dim(w.parse().ok()?, h.parse().ok()?),
            ["pos", x, y] => Op::Pos(x.parse().ok()?, y.parse().ok()?),
            ["rdim"] => Op::RDim,
            ["rpos"] => Op::RPos,
            ["delay", n, d] => Op::Delay(n.parse().ok()?, d.parse().ok()?),
            ["blend", b] => Op::Blend(b.parse().ok()?),
            ["dispose", o] => Op::Dispose(o.parse().ok()?),
            _ => return None,
        })
    }
}

#[derive(Clone, Debug, PartialEq)]
struct Anim {
    frames: u32,
    plays: u32,
    sep_def: bool,
    /// `Encoder::set_frame_delay / set_blend_op / set_dispose_op` before `write_header`
    enc_ops: Vec<Op>,
    /// setter calls on the `Writer` before each image (index 0 = the IDAT image)
    per_image: Vec<Vec<Op>>,
}

#[derive(Clone, Debug, PartialEq)]
struct Cfg {
    w: u32,
    h: u32,
    depth: u8,
    color: u8,
    palette: Option<Vec<u8>>,
    trns: Option<Vec<u8>>,
    phys: Option<(u32, u32, bool)>,
    gamma: Option<u32>,
    chrm: Option<[u32; 8]>,
    srgb: Option<u8>,
    icc: Option<Vec<u8>>,
    exif: Option<Vec<u8>>,
    head: Vec<Txt>,
    tail: Vec<Txt>,
    /// which items go into the `Info` given to `Encoder::with_info` instead of through a setter
    /// (bit 0 palette, 1 trns, 2 phys, 3 gamma, 4 chrm, 5 srgb, 6 texts); ICC and EXIF have no setter
    via_info: u32,
    anim: Option<Anim>,
    /// gamma and the eight chromaticity coordinates as `f32` bit patterns: they reach the encoder through the float
    /// constructors `ScaledFloat::new` / `SourceChromaticities::new`; `gamma` / `chrm` then hold what the harness's own
    /// arithmetic (`ref_scaled`) says they scale to.  Floats are outside the Lean model: it sees the scaled integers.
    floats: Option<[u32; 9]>,
}

/// `floor(max(x, 0) * 100000)` clamped to `u32`, with the product rounded to `f32` as the documented `f32` scaling factor
/// implies: computed in `f64` (the product of two `f32` values is exact there) and integers, not with the crate's code
fn ref_scaled(x: f32) -> u32 {
    if x.is_nan() || x <= 0.0 {
        return 0;
    }
    let product = (x as f64 * 100000.0) as f32; // exact product, one rounding to f32
    let fl = (product as f64).floor();
    if fl >= 4294967296.0 { u32::MAX } else { fl as u64 as u32 }
}
/// the scaled integer as a float: `u32 -> f32` rounds, the quotient rounds once more (53 >= 2 * 24 + 2 bits: the
/// detour through `f64` gives the correctly rounded `f32` quotient)
fn ref_value(s: u32) -> f32 {
    (((s as f64) as f32) as f64 / 100000.0) as f32
}
fn ref_exact(x: f32) -> bool {
    ref_value(ref_scaled(x)) == x
}
fn ref_in_range(x: f32) -> bool {
    x >= 0.0 && (((x as f64 * 100000.0) as f32) as f64).floor() <= 4294967296.0
}

/// The float constructors against the harness's own arithmetic, and the values read back as floats: what comes back
/// is `ScaledFloat::new(x)`, and where `ScaledFloat::exact(x)` holds `into_value()` of it is `x` itself.
fn oracle_floats(bits: &[u32; 9], s: &Snap) -> Option<Fail> {
    let back: Vec<Option<u32>> = std::iter::once(s.gama_chunk).chain((0..8).map(|k| s.chrm_chunk.map(|c| c[k]))).collect();
    for (k, &b) in bits.iter().enumerate() {
        let x = f32::from_bits(b);
        let name = if k == 0 { "gamma".to_string() } else { format!("chromaticity #{}", k - 1) };
        let made = png::ScaledFloat::new(x);
        if made.into_scaled() != ref_scaled(x) {
            return oracle("roundtrip/float-scaling", format!("{}: ScaledFloat::new({:e} = bits {:08x}) is {} but floor(max(x,0)*100000) is {}", name, x, b, made.into_scaled(), ref_scaled(x)));
        }
        if png::ScaledFloat::exact(x) != ref_exact(x) || png::ScaledFloat::in_range(x) != ref_in_range(x) {
            return oracle("roundtrip/float-predicates", format!("{}: exact({:e}) = {} (reference {}), in_range = {} (reference {})", name, x, png::ScaledFloat::exact(x), ref_exact(x), png::ScaledFloat::in_range(x), ref_in_range(x)));
        }
        note("float class", if x.is_nan() { "NaN" } else if x < 0.0 { "negative" } else if ref_scaled(x) == u32::MAX { "clamped to u32::MAX" } else if ref_exact(x) { "exact" } else { "inexact" });
        let read = match back[k] {
            Some(u) => png::ScaledFloat::from_scaled(u),
            None => return oracle("roundtrip/float-missing", format!("{} was not read back", name)),
        };
        if read != made {
            return oracle("roundtrip/float-value", format!("{}: wrote ScaledFloat::new({:e}) = {}, read back {}", name, x, made.into_scaled(), read.into_scaled()));
        }
        let v = read.into_value();
        if v.to_bits() != ref_value(read.into_scaled()).to_bits() || (ref_exact(x) && v != x) {
            return oracle("roundtrip/float-value", format!("{}: into_value() of the value read back is {:e}, wrote {:e} (exact: {}), reference {:e}", name, v, x, ref_exact(x), ref_value(read.into_scaled())));
        }
    }
    None
}

fn opt_hex(o: &Option<Vec<u8>>) -> String {
    match o {
        Some(b) => hex(b),
        None => "none".into(),
    }
}

fn txt_json(t: &Txt) -> J {
    J::obj()
        .set("kind", J::s(&t.kind.to_string()))
        .set("kw", J::s(&shex(&t.kw)))
        .set("text", J::s(&shex(&t.text)))
        .set("flag", J::Bool(t.flag))
        .set("lang", J::s(&shex(&t.lang)))
        .set("tk", J::s(&shex(&t.tk)))
        .set("pre", J::Bool(t.pre))
}

fn jstr(j: &J, k: &str) -> Option<String> {
    String::from_utf8(unhex(j.get(k)?.as_str()?)?).ok()
}
fn jbool(j: &J, k: &str) -> Option<bool> {
    match j.get(k)? {
        J::Bool(b) => Some(*b),
        _ => None,
    }
}
fn jopt_hex(j: &J, k: &str) -> Option<Option<Vec<u8>>> {
    let s = j.get(k)?.as_str()?;
    if s == "none" {
        Some(None)
    } else {
        Some(Some(unhex(s)?))
    }
}
fn jnums(j: &J, k: &str) -> Option<Option<Vec<u64>>> {
    let s = j.get(k)?.as_str()?;
    if s == "none" {
        return Some(None);
    }
    Some(Some(s.split(',').map(|x| x.parse::<u64>().ok()).collect::<Option<Vec<_>>>()?))
}

fn txt_from(j: &J) -> Option<Txt> {
    Some(Txt {
        kind: j.get("kind")?.as_str()?.chars().next()?,
        kw: jstr(j, "kw")?,
        text: jstr(j, "text")?,
        flag: jbool(j, "flag")?,
        lang: jstr(j, "lang")?,
        tk: jstr(j, "tk")?,
        pre: jbool(j, "pre")?,
    })
}

fn ops_str(ops: &[Op]) -> String {
    if ops.is_empty() {
        "-".into()
    } else {
        ops.iter().map(|o| o.tok()).collect::<Vec<_>>().join(";")
    }
}
fn ops_parse(s: &str) -> Option<Vec<Op>> {
    if s == "-" {
        return Some(vec![]);
    }
    s.split(';').map(Op::parse).collect()
}

impl Cfg {
    fn plain(w: u32, h: u32, depth: u8, color: u8) -> Cfg {
        Cfg {
            w,
            h,
            depth,
            color,
            palette: None,
            trns: None,
            phys: None,
            gamma: None,
            chrm: None,
            srgb: None,
            icc: None,
            exif: None,
            head: vec![],
            tail: vec![],
            via_info: 0,
            anim: None,
            floats: None,
        }
    }

    /// gamma and chromaticities given as floats (bit patterns)
    fn with_floats(mut self, bits: [u32; 9]) -> Cfg {
        let v = |k: usize| ref_scaled(f32::from_bits(bits[k]));
        self.gamma = Some(v(0));
        self.chrm = Some([v(1), v(2), v(3), v(4), v(5), v(6), v(7), v(8)]);
        self.floats = Some(bits);
        self
    }

    fn json(&self) -> J {
        let nums = |v: &[u64]| v.iter().map(|x| x.to_string()).collect::<Vec<_>>().join(",");
        let mut j = J::obj()
            .set("w", J::i(self.w as u64))
            .set("h", J::i(self.h as u64))
            .set("depth", J::i(self.depth))
            .set("color", J::i(self.color))
            .set("palette", J::s(&opt_hex(&self.palette)))
            .set("trns", J::s(&opt_hex(&self.trns)))
            .set("phys", J::s(&self.phys.map(|(x, y, m)| nums(&[x as u64, y as u64, m as u64])).unwrap_or("none".into())))
            .set("gamma", J::s(&self.gamma.map(|g| g.to_string()).unwrap_or("none".into())))
            .set("chrm", J::s(&self.chrm.map(|c| nums(&c.map(|x| x as u64))).unwrap_or("none".into())))
            .set("srgb", J::s(&self.srgb.map(|g| g.to_string()).unwrap_or("none".into())))
            .set("icc", J::s(&opt_hex(&self.icc)))
            .set("exif", J::s(&opt_hex(&self.exif)))
            .set("head", J::Arr(self.head.iter().map(txt_json).collect()))
            .set("tail", J::Arr(self.tail.iter().map(txt_json).collect()))
            .set("via_info", J::i(self.via_info as u64));
        if let Some(f) = &self.floats {
            j.put("floats_f32_bits_outside_the_model", J::s(&nums(&f.map(|x| x as u64))));
        }
        if let Some(a) = &self.anim {
            j.put(
                "anim",
                J::obj()
                    .set("frames", J::i(a.frames as u64))
                    .set("plays", J::i(a.plays as u64))
                    .set("sep_def", J::Bool(a.sep_def))
                    .set("enc_ops", J::s(&ops_str(&a.enc_ops)))
                    .set("per_image", J::Arr(a.per_image.iter().map(|o| J::s(&ops_str(o))).collect())),
            );
        }
        j
    }

    fn from_json(j: &J) -> Option<Cfg> {
        let arr = |k: &str| -> Option<Vec<Txt>> { j.get(k)?.as_arr()?.iter().map(txt_from).collect() };
        let anim = match j.get("anim") {
            Some(a) => Some(Anim {
                frames: a.get("frames")?.as_i64()? as u32,
                plays: a.get("plays")?.as_i64()? as u32,
                sep_def: jbool(a, "sep_def")?,
                enc_ops: ops_parse(a.get("enc_ops")?.as_str()?)?,
                per_image: a.get("per_image")?.as_arr()?.iter().map(|o| ops_parse(o.as_str()?)).collect::<Option<Vec<_>>>()?,
            }),
            None => None,
        };
        Some(Cfg {
            w: j.get("w")?.as_i64()? as u32,
            h: j.get("h")?.as_i64()? as u32,
            depth: j.get("depth")?.as_i64()? as u8,
            color: j.get("color")?.as_i64()? as u8,
            palette: jopt_hex(j, "palette")?,
            trns: jopt_hex(j, "trns")?,
            phys: match jnums(j, "phys")? {
                Some(v) if v.len() == 3 => Some((v[0] as u32, v[1] as u32, v[2] == 1)),
                Some(_) => return None,
                None => None,
            },
            gamma: jnums(j, "gamma")?.and_then(|v| v.first().map(|&x| x as u32)),
            chrm: match jnums(j, "chrm")? {
                Some(v) if v.len() == 8 => {
                    let mut a = [0u32; 8];
                    for k in 0..8 {
                        a[k] = v[k] as u32;
                    }
                    Some(a)
                }
                Some(_) => return None,
                None => None,
            },
            srgb: jnums(j, "srgb")?.and_then(|v| v.first().map(|&x| x as u8)),
            icc: jopt_hex(j, "icc")?,
            exif: jopt_hex(j, "exif")?,
            head: arr("head")?,
            tail: arr("tail")?,
            via_info: j.get("via_info")?.as_i64()? as u32,
            anim,
            floats: match j.get("floats_f32_bits_outside_the_model") {
                Some(_) => match jnums(j, "floats_f32_bits_outside_the_model")? {
                    Some(v) if v.len() == 9 => {
                        let mut a = [0u32; 9];
                        for k in 0..9 {
                            a[k] = v[k] as u32;
                        }
                        Some(a)
                    }
                    _ => return None,
                },
                None => None,
            },
        })
    }

    fn key(&self) -> u64 {
        fnv64(self.json().to_string().as_bytes())
    }

    /// the 16 tokens of `<cfg>` in the `c17` protocol (head items only: that is what `write_header` sees)
    fn model_tokens(&self) -> String {
        let s = |x: &str| if x.is_empty() { "-".to_string() } else { shex(x) };
        let list = |kind: char, f: &dyn Fn(&Txt) -> String| -> String {
            let v: Vec<String> = self.head.iter().filter(|t| t.kind == kind).map(f).collect();
            if v.is_empty() {
                "-".into()
            } else {
                v.join(";")
            }
        };
        format!(
            "{} {} {} {} {} {} {} {} {} {} {} {} {} {} {} {}",
            self.w,
            self.h,
            self.depth,
            self.color,
            opt_hex(&self.palette),
            opt_hex(&self.trns),
            self.phys.map(|(x, y, m)| format!("{},{},{}", x, y, m as u8)).unwrap_or("none".into()),
            self.gamma.map(|g| g.to_string()).unwrap_or("none".into()),
            self.chrm.map(|c| c.iter().map(|x| x.to_string()).collect::<Vec<_>>().join(",")).unwrap_or("none".into()),
            self.srgb.map(|g| g.to_string()).unwrap_or("none".into()),
            opt_hex(&self.icc),
            opt_hex(&self.exif),
            self.anim.as_ref().map(|a| format!("{},{}", a.frames, a.plays)).unwrap_or("none".into()),
            list('t', &|t| format!("{}/{}", s(&t.kw), s(&t.text))),
            list('z', &|t| format!("{}/u:{}", s(&t.kw), s(&t.text))),
            list('i', &|t| format!("{}/0/-/-/u:{}", s(&t.kw), s(&t.text))),
        )
    }
}

// ---------------------------------------------------------------------------------------------
// calling the crate: encoder
// ---------------------------------------------------------------------------------------------

fn color_of(c: u8) -> png::ColorType {
    match c {
        0 => png::ColorType::Grayscale,
        2 => png::ColorType::Rgb,
        3 => png::ColorType::Indexed,
        4 => png::ColorType::GrayscaleAlpha,
        _ => png::ColorType::Rgba,
    }
}
fn depth_of(d: u8) -> png::BitDepth {
    match d {
        1 => png::BitDepth::One,
        2 => png::BitDepth::Two,
        4 => png::BitDepth::Four,
        8 => png::BitDepth::Eight,
        _ => png::BitDepth::Sixteen,
    }
}
fn intent_of(r: u8) -> png::SrgbRenderingIntent {
    match r {
        0 => png::SrgbRenderingIntent::Perceptual,
        1 => png::SrgbRenderingIntent::RelativeColorimetric,
        2 => png::SrgbRenderingIntent::Saturation,
        _ => png::SrgbRenderingIntent::AbsoluteColorimetric,
    }
}
fn chrm_of(c: &[u32; 8]) -> png::SourceChromaticities {
    let f = png::ScaledFloat::from_scaled;
    png::SourceChromaticities { white: (f(c[0]), f(c[1])), red: (f(c[2]), f(c[3])), green: (f(c[4]), f(c[5])), blue: (f(c[6]), f(c[7])) }
}
fn chrm_back(c: &png::SourceChromaticities) -> [u32; 8] {
    [
        c.white.0.into_scaled(),
        c.white.1.into_scaled(),
        c.red.0.into_scaled(),
        c.red.1.into_scaled(),
        c.green.0.into_scaled(),
        c.green.1.into_scaled(),
        c.blue.0.into_scaled(),
        c.blue.1.into_scaled(),
    ]
}
fn samples(color: u8) -> usize {
    match color {
        0 | 3 => 1,
        2 => 3,
        4 => 2,
        _ => 4,
    }
}
fn image_len(color: u8, depth: u8, w: u32, h: u32) -> usize {
    ((w as usize * samples(color) * depth as usize + 7) / 8) * h as usize
}

fn enc_class(e: &png::EncodingError) -> String {
    match e {
        png::EncodingError::Format(f) => {
            let m = f.to_string();
            // the variant name from the Debug form first (a reworded message does not change it), the Display text as a fall-back
            let dbg = format!("{:?}", f);
            if dbg.contains("BadTextEncoding(Unrepresentable)") {
                "err:unrepresentable".into()
            } else if dbg.contains("BadTextEncoding(InvalidKeywordSize)") {
                "err:invalidKeywordSize".into()
            } else if dbg.contains("BadTextEncoding(CompressionError)") {
                "err:compressionError".into()
            } else if dbg.contains("OutOfBounds") {
                "err:outOfBounds".into()
            } else if dbg.contains("ZeroWidth") {
                "err:zeroWidth".into()
            } else if dbg.contains("ZeroHeight") {
                "err:zeroHeight".into()
            } else if dbg.contains("ZeroFrames") {
                "err:zeroFrames".into()
            } else if dbg.contains("NotAnimated") {
                "err:notAnimated".into()
            } else if m.contains("cannot be encoded into valid ISO 8859-1") {
                "err:unrepresentable".into()
            } else if m.contains("Invalid keyword size") {
                "err:invalidKeywordSize".into()
            } else if m.contains("Unable to compress") {
                "err:compressionError".into()
            } else if m.contains("go over the frame boundaries") {
                "err:outOfBounds".into()
            } else if m.contains("Zero width") {
                "err:zeroWidth".into()
            } else if m.contains("Zero height") {
                "err:zeroHeight".into()
            } else if m.contains("Zero frames") {
                "err:zeroFrames".into()
            } else if m.contains("not an animation") {
                "err:notAnimated".into()
            } else {
                format!("format:{}", m)
            }
        }
        png::EncodingError::IoError(e) => format!("io:{:?}", e.kind()),
        png::EncodingError::Parameter(p) => format!("parameter:{}", p),
        png::EncodingError::LimitsExceeded => "limits".to_string(),
    }
}

fn text_obj(t: &Txt) -> Result<TextObj, String> {
    Ok(match t.kind {
        't' => TextObj::T(TEXtChunk::new(t.kw.clone(), t.text.clone())),
        'z' => {
            let mut c = ZTXtChunk::new(t.kw.clone(), t.text.clone());
            if t.pre {
                c.compress_text().map_err(|e| format!("compress_text: {}", enc_class(&e)))?;
            }
            TextObj::Z(c)
        }
        _ => {
            let mut c = ITXtChunk::new(t.kw.clone(), t.text.clone());
            c.compressed = t.flag;
            c.language_tag = t.lang.clone();
            c.translated_keyword = t.tk.clone();
            if t.pre {
                c.compress_text().map_err(|e| format!("compress_text: {}", enc_class(&e)))?;
            }
            TextObj::I(c)
        }
    })
}

enum TextObj {
    T(TEXtChunk),
    Z(ZTXtChunk),
    I(ITXtChunk),
}

fn write_text<W: Write>(w: &mut png::Writer<W>, o: &TextObj) -> Result<(), png::EncodingError> {
    match o {
        TextObj::T(c) => w.write_text_chunk(c),
        TextObj::Z(c) => w.write_text_chunk(c),
        TextObj::I(c) => w.write_text_chunk(c),
    }
}

/// configure an `Encoder` for `cfg` on `sink`; `Err((call, class))` if a configuration call refuses
fn build_encoder(cfg: &Cfg, sink: SharedSink) -> Result<png::Encoder<'static, SharedSink>, (String, String)> {
    let vi = |bit: u32| cfg.via_info & (1 << bit) != 0;
    // integers through `from_scaled`, floats through the float constructors
    let gamma_of = |g: u32| match &cfg.floats {
        Some(f) => png::ScaledFloat::new(f32::from_bits(f[0])),
        None => png::ScaledFloat::from_scaled(g),
    };
    let chrm_of = |c: &[u32; 8]| match &cfg.floats {
        Some(f) => {
            let x = |k: usize| f32::from_bits(f[k]);
            png::SourceChromaticities::new((x(1), x(2)), (x(3), x(4)), (x(5), x(6)), (x(7), x(8)))
        }
        None => chrm_of(c),
    };
    let mut info = png::Info::with_size(cfg.w, cfg.h);
    info.color_type = color_of(cfg.color);
    info.bit_depth = depth_of(cfg.depth);
    info.icc_profile = cfg.icc.clone().map(|v| v.into());
    info.exif_metadata = cfg.exif.clone().map(|v| v.into());
    if vi(0) {
        info.palette = cfg.palette.clone().map(|v| v.into());
    }
    if vi(1) {
        info.trns = cfg.trns.clone().map(|v| v.into());
    }
    if vi(2) {
        info.pixel_dims = cfg.phys.map(|(x, y, m)| png::PixelDimensions { xppu: x, yppu: y, unit: if m { png::Unit::Meter } else { png::Unit::Unspecified } });
    }
    if vi(3) {
        info.source_gamma = cfg.gamma.map(gamma_of);
    }
    if vi(4) {
        info.source_chromaticities = cfg.chrm.as_ref().map(chrm_of);
    }
    if vi(5) {
        info.srgb = cfg.srgb.map(intent_of);
    }
    if vi(6) {
        for t in &cfg.head {
            match t.kind {
                't' => info.uncompressed_latin1_text.push(TEXtChunk::new(t.kw.clone(), t.text.clone())),
                'z' => info.compressed_latin1_text.push(ZTXtChunk::new(t.kw.clone(), t.text.clone())),
                _ => info.utf8_text.push(ITXtChunk::new(t.kw.clone(), t.text.clone())),
            }
        }
    }
    let mut enc = png::Encoder::with_info(sink, info).map_err(|e| ("with_info".to_string(), enc_class(&e)))?;
    if !vi(0) {
        if let Some(p) = &cfg.palette {
            enc.set_palette(p.clone());
        }
    }
    if !vi(1) {
        if let Some(t) = &cfg.trns {
            enc.set_trns(t.clone());
        }
    }
    if !vi(2) && cfg.phys.is_some() {
        enc.set_pixel_dims(cfg.phys.map(|(x, y, m)| png::PixelDimensions { xppu: x, yppu: y, unit: if m { png::Unit::Meter } else { png::Unit::Unspecified } }));
    }
    if !vi(3) {
        if let Some(g) = cfg.gamma {
            enc.set_source_gamma(gamma_of(g));
        }
    }
    if !vi(4) {
        if let Some(c) = &cfg.chrm {
            enc.set_source_chromaticities(chrm_of(c));
        }
    }
    if !vi(5) {
        if let Some(r) = cfg.srgb {
            enc.set_source_srgb(intent_of(r));
        }
    }
    if !vi(6) {
        for t in &cfg.head {
            let r = match t.kind {
                't' => enc.add_text_chunk(t.kw.clone(), t.text.clone()),
                'z' => enc.add_ztxt_chunk(t.kw.clone(), t.text.clone()),
                _ => enc.add_itxt_chunk(t.kw.clone(), t.text.clone()),
            };
            r.map_err(|e| ("add_chunk".to_string(), enc_class(&e)))?;
        }
    }
    if let Some(a) = &cfg.anim {
        enc.set_animated(a.frames, a.plays).map_err(|e| ("set_animated".to_string(), enc_class(&e)))?;
        if a.sep_def {
            enc.set_sep_def_img(true).map_err(|e| ("set_sep_def_img".to_string(), enc_class(&e)))?;
        }
        for op in &a.enc_ops {
            let r = match op {
                Op::Delay(n, d) => enc.set_frame_delay(*n, *d),
                Op::Blend(b) => enc.set_blend_op(if *b == 1 { png::BlendOp::Over } else { png::BlendOp::Source }),
                Op::Dispose(o) => enc.set_dispose_op(dispose_of(*o)),
                _ => Ok(()),
            };
            r.map_err(|e| ("encoder frame setter".to_string(), enc_class(&e)))?;
        }
    }
    Ok(enc)
}

fn dispose_of(o: u8) -> png::DisposeOp {
    match o {
        0 => png::DisposeOp::None,
        1 => png::DisposeOp::Background,
        _ => png::DisposeOp::Previous,
    }
}

/// frame control as nine numbers: seq, w, h, x, y, delay_num, delay_den, dispose, blend
type Fc = [u32; 9];

/// The documented semantics of the setters (doc comments of `Writer::set_frame_dimension` etc.),
/// written independently of the model: a call that would leave the canvas, or make the frame empty,
/// is an error and changes nothing.
fn ref_apply(cw: u32, ch: u32, fc: &mut Fc, op: &Op) -> bool {
    match *op {
        Op::Dim(w, h) => {
            if w == 0 || h == 0 || fc[3] as u64 + w as u64 > cw as u64 || fc[4] as u64 + h as u64 > ch as u64 {
                return false;
            }
            fc[1] = w;
            fc[2] = h;
        }
        Op::Pos(x, y) => {
            if x as u64 + fc[1] as u64 > cw as u64 || y as u64 + fc[2] as u64 > ch as u64 {
                return false;
            }
            fc[3] = x;
            fc[4] = y;
        }
        Op::RDim => {
            fc[1] = cw - fc[3];
            fc[2] = ch - fc[4];
        }
        Op::RPos => {
            fc[3] = 0;
            fc[4] = 0;
        }
        Op::Delay(n, d) => {
            fc[5] = n as u32;
            fc[6] = d as u32;
        }
        Op::Blend(b) => fc[8] = b as u32,
        Op::Dispose(o) => fc[7] = o as u32,
    }
    true
}

struct Encoded {
    file: Vec<u8>,
    /// per image: result of every setter call (true = Ok)
    op_results: Vec<Vec<bool>>,
}

/// Write the whole file.  `Err((call, class))`: which call refused.
fn encode(cfg: &Cfg, rng: &mut Rng) -> Result<Result<Encoded, (String, String)>, String> {
    let cfg = cfg.clone();
    let mut rng = rng.clone();
    guarded(move || -> Result<Encoded, (String, String)> {
        let sink = SharedSink::default();
        let enc = build_encoder(&cfg, sink.clone())?;
        let mut w = enc.write_header().map_err(|e| ("write_header".to_string(), enc_class(&e)))?;
        let images = match &cfg.anim {
            Some(a) => a.frames as usize + a.sep_def as usize,
            None => 1,
        };
        let mut fc: Fc = [0, cfg.w, cfg.h, 0, 0, 1, 30, 0, 0];
        let mut op_results = vec![];
        for k in 0..images {
            let mut res = vec![];
            if let Some(a) = &cfg.anim {
                for op in a.per_image.get(k).map(|v| &v[..]).unwrap_or(&[]) {
                    let r = match op {
                        Op::Dim(x, y) => w.set_frame_dimension(*x, *y),
                        Op::Pos(x, y) => w.set_frame_position(*x, *y),
                        Op::RDim => w.reset_frame_dimension(),
                        Op::RPos => w.reset_frame_position(),
                        Op::Delay(n, d) => w.set_frame_delay(*n, *d),
                        Op::Blend(b) => w.set_blend_op(if *b == 1 { png::BlendOp::Over } else { png::BlendOp::Source }),
                        Op::Dispose(o) => w.set_dispose_op(dispose_of(*o)),
                    };
                    if r.is_ok() {
                        ref_apply(cfg.w, cfg.h, &mut fc, op);
                    }
                    res.push(r.is_ok());
                }
            }
            op_results.push(res);
            let (fw, fh) = if cfg.anim.is_some() { (fc[1], fc[2]) } else { (cfg.w, cfg.h) };
            let data = rng.bytes(image_len(cfg.color, cfg.depth, fw, fh));
            w.write_image_data(&data).map_err(|e| (format!("write_image_data #{}", k), enc_class(&e)))?;
        }
        for (k, t) in cfg.tail.iter().enumerate() {
            let o = text_obj(t).map_err(|m| (format!("tail #{}", k), m))?;
            write_text(&mut w, &o).map_err(|e| (format!("write_text_chunk #{}", k), enc_class(&e)))?;
        }
        w.finish().map_err(|e| ("finish".to_string(), enc_class(&e)))?;
        Ok(Encoded { file: sink.bytes(), op_results })
    })
}

// ---------------------------------------------------------------------------------------------
// calling the crate: decoder
// ---------------------------------------------------------------------------------------------

#[derive(Clone, Debug, Default, PartialEq)]
struct Snap {
    w: u32,
    h: u32,
    depth: u8,
    color: u8,
    interlaced: bool,
    palette: Option<Vec<u8>>,
    trns: Option<Vec<u8>>,
    phys: Option<(u32, u32, bool)>,
    gama_chunk: Option<u32>,
    chrm_chunk: Option<[u32; 8]>,
    srgb: Option<u8>,
    gamma: Option<u32>,
    chrm: Option<[u32; 8]>,
    /// the public fields `Info::source_gamma / source_chromaticities` (the decoder never sets them)
    source_fields_set: bool,
    icc: Option<Vec<u8>>,
    exif: Option<Vec<u8>>,
    actl: Option<(u32, u32)>,
    fctl: Option<Fc>,
    t: Vec<(String, String)>,
    z: Vec<(String, Result<String, String>)>,
    i: Vec<(String, bool, String, String, Result<String, String>)>,
}

fn fc_of(f: &png::FrameControl) -> Fc {
    [f.sequence_number, f.width, f.height, f.x_offset, f.y_offset, f.delay_num as u32, f.delay_den as u32, f.dispose_op as u32, f.blend_op as u32]
}

fn snap(info: &png::Info) -> Snap {
    Snap {
        w: info.width,
        h: info.height,
        depth: info.bit_depth as u8,
        color: info.color_type as u8,
        interlaced: info.interlaced,
        palette: info.palette.as_ref().map(|c| c.to_vec()),
        trns: info.trns.as_ref().map(|c| c.to_vec()),
        phys: info.pixel_dims.map(|p| (p.xppu, p.yppu, p.unit == png::Unit::Meter)),
        gama_chunk: info.gama_chunk.map(|g| g.into_scaled()),
        chrm_chunk: info.chrm_chunk.as_ref().map(chrm_back),
        srgb: info.srgb.map(|r| r as u8),
        gamma: info.gamma().map(|g| g.into_scaled()),
        chrm: info.chromaticities().as_ref().map(chrm_back),
        source_fields_set: info.source_gamma.is_some() || info.source_chromaticities.is_some(),
        icc: info.icc_profile.as_ref().map(|c| c.to_vec()),
        exif: info.exif_metadata.as_ref().map(|c| c.to_vec()),
        actl: info.animation_control.map(|a| (a.num_frames, a.num_plays)),
        fctl: info.frame_control.as_ref().map(fc_of),
        t: info.uncompressed_latin1_text.iter().map(|c| (c.keyword.clone(), c.text.clone())).collect(),
        z: info.compressed_latin1_text.iter().map(|c| (c.keyword.clone(), c.get_text().map_err(|e| e.to_string()))).collect(),
        i: info
            .utf8_text
            .iter()
            .map(|c| (c.keyword.clone(), c.compressed, c.language_tag.clone(), c.translated_keyword.clone(), c.get_text().map_err(|e| e.to_string())))
            .collect(),
    }
}

struct Decoded {
    after_info: Snap,
    /// frame control reported after each successfully decoded image
    frames: Vec<Option<Fc>>,
    fin: Snap,
}

fn decode(file: &[u8]) -> Result<Result<Decoded, String>, String> {
    let file = file.to_vec();
    guarded(move || -> Result<Decoded, String> {
        let dec = png::Decoder::new(Cursor::new(file));
        let mut reader = dec.read_info().map_err(|e| format!("read_info: {}", e))?;
        let after_info = snap(reader.info());
        let total = match reader.info().animation_control {
            Some(a) => a.num_frames as usize + reader.info().frame_control.is_none() as usize,
            None => 1,
        };
        let mut frames = vec![];
        for k in 0..total {
            let mut buf = vec![0u8; reader.output_buffer_size()];
            reader.next_frame(&mut buf).map_err(|e| format!("next_frame #{}: {}", k, e))?;
            frames.push(reader.info().frame_control.as_ref().map(fc_of));
        }
        reader.finish().map_err(|e| format!("finish: {}", e))?;
        let fin = snap(reader.info());
        Ok(Decoded { after_info, frames, fin })
    })
}

fn latin1_bytes(s: &str) -> Vec<u8> {
    s.chars().map(|c| (c as u32).min(255) as u8).collect()
}

/// the same one-line form as `Driver.fullInfoStr` (`fctl` is always printed as `none`: frame control
/// is compared separately)
fn info_string(s: &Snap) -> String {
    let ob = |o: &Option<Vec<u8>>| o.as_ref().map(|b| hex(b)).unwrap_or("none".into());
    let on = |o: &Option<u32>| o.map(|b| b.to_string()).unwrap_or("none".into());
    let oc = |o: &Option<[u32; 8]>| o.map(|c| c.iter().map(|x| x.to_string()).collect::<Vec<_>>().join(",")).unwrap_or("none".into());
    let t: Vec<String> = s.t.iter().map(|(k, v)| format!("t:{}:{}", hex(&latin1_bytes(k)), hex(&latin1_bytes(v)))).collect();
    let z: Vec<String> = s
        .z
        .iter()
        .map(|(k, v)| format!("z:{}:{}", hex(&latin1_bytes(k)), v.as_ref().map(|x| hex(&latin1_bytes(x))).unwrap_or("err".into())))
        .collect();
    let i: Vec<String> = s
        .i
        .iter()
        .map(|(k, f, l, tk, v)| {
            format!("i:{}:{}:{}:{}:{}", hex(&latin1_bytes(k)), *f as u8, hex(l.as_bytes()), hex(tk.as_bytes()), v.as_ref().map(|x| hex(x.as_bytes())).unwrap_or("err".into()))
        })
        .collect();
    format!(
        "{}x{} d{} c{} il{} plte={} trns={} sbit=none bkgd=none phys={} gama={} chrm={} srgb={} cicp=none mdcv=none clli=none exif={} icc={} actl={} fctl=none text=[{}|{}|{}] gamma()={} chromaticities()={}",
        s.w,
        s.h,
        s.depth,
        s.color,
        s.interlaced as u8,
        ob(&s.palette),
        ob(&s.trns),
        s.phys.map(|(x, y, m)| format!("{},{},{}", x, y, m as u8)).unwrap_or("none".into()),
        on(&s.gama_chunk),
        oc(&s.chrm_chunk),
        s.srgb.map(|b| b.to_string()).unwrap_or("none".into()),
        ob(&s.exif),
        ob(&s.icc),
        s.actl.map(|(f, p)| format!("{},{}", f, p)).unwrap_or("none".into()),
        t.join(";"),
        z.join(";"),
        i.join(";"),
        on(&s.gamma),
        oc(&s.chrm),
    )
}

/// replace the `fctl=…` token by `fctl=none`
fn no_fctl(s: &str) -> String {
    match (s.find(" fctl="), s.find(" text=[")) {
        (Some(a), Some(b)) if a < b => format!("{} fctl=none{}", &s[..a], &s[b..]),
        _ => s.to_string(),
    }
}

/// chunks of a file: (type, body)
fn chunks_of(file: &[u8]) -> Vec<([u8; 4], Vec<u8>)> {
    crate::props::c11::chunk_positions(file).iter().map(|c| (c.ty, file[c.start + 8..c.start + 8 + c.len].to_vec())).collect()
}

fn chunks_tok(cs: &[([u8; 4], Vec<u8>)]) -> String {
    if cs.is_empty() {
        "-".into()
    } else {
        cs.iter().map(|(t, b)| format!("{}:{}", String::from_utf8_lossy(t), hex(b))).collect::<Vec<_>>().join(",")
    }
}

fn parse_chunks_tok(s: &str) -> Option<Vec<([u8; 4], Vec<u8>)>> {
    if s == "-" {
        return Some(vec![]);
    }
    s.split(',')
        .map(|item| {
            let (t, b) = item.split_once(':')?;
            let tb = t.as_bytes();
            if tb.len() != 4 {
                return None;
            }
            Some(([tb[0], tb[1], tb[2], tb[3]], unhex(b)?))
        })
        .collect()
}

fn ref_inflate(z: &[u8]) -> Option<Vec<u8>> {
    miniz_oxide::inflate::decompress_to_vec_zlib(z).ok()
}

// ---------------------------------------------------------------------------------------------
// cases
// ---------------------------------------------------------------------------------------------

#[derive(Clone, Debug)]
enum Case {
    /// a configuration the encoder must accept; everything is read back
    Header(Cfg),
    /// one unrepresentable text item (`bad` indexes `head` if `in_head`, else `tail`)
    Refuse { cfg: Cfg, in_head: bool, bad: usize, what: String },
    /// an iTXt chunk obtained from a decoder (compressed payload `raw` deflated), `compressed` cleared,
    /// written again
    Inflated { raw: Vec<u8> },
    /// an animation written partly or wholly through `StreamWriter`s, with the stream writer's setters
    Stream(StreamCase),
}

/// one image written through a stream writer: its data is written up to `split` (>= 1 except for the
/// first image of a session), then the setters are called (they apply to the NEXT frame), then the rest
#[derive(Clone, Debug, PartialEq)]
struct SFrame {
    ops: Vec<Op>,
    split_permille: u32,
}

#[derive(Clone, Debug, PartialEq)]
enum Seg {
    /// `Writer` setters, then `Writer::write_image_data`
    Whole { ops: Vec<Op> },
    /// `Writer` setters, then ONE `StreamWriter` (`stream_writer_with_size`, or `into_stream_writer_with_size`
    /// for the last segment when `owned_last`) writing these images
    Stream { pre_ops: Vec<Op>, frames: Vec<SFrame>, buf: usize },
}

#[derive(Clone, Debug, PartialEq)]
struct StreamCase {
    w: u32,
    h: u32,
    depth: u8,
    color: u8,
    frames: u32,
    plays: u32,
    sep_def: bool,
    enc_ops: Vec<Op>,
    segs: Vec<Seg>,
    owned_last: bool,
}

impl StreamCase {
    fn json(&self) -> J {
        J::obj()
            .set("w", J::i(self.w as u64))
            .set("h", J::i(self.h as u64))
            .set("depth", J::i(self.depth))
            .set("color", J::i(self.color))
            .set("frames", J::i(self.frames as u64))
            .set("plays", J::i(self.plays as u64))
            .set("sep_def", J::Bool(self.sep_def))
            .set("owned_last", J::Bool(self.owned_last))
            .set("enc_ops", J::s(&ops_str(&self.enc_ops)))
            .set(
                "segs",
                J::Arr(
                    self.segs
                        .iter()
                        .map(|g| match g {
                            Seg::Whole { ops } => J::obj().set("kind", J::s("whole")).set("ops", J::s(&ops_str(ops))),
                            Seg::Stream { pre_ops, frames, buf } => J::obj()
                                .set("kind", J::s("stream"))
                                .set("pre_ops", J::s(&ops_str(pre_ops)))
                                .set("buf", J::i(*buf as u64))
                                .set("frames", J::Arr(frames.iter().map(|f| J::obj().set("ops", J::s(&ops_str(&f.ops))).set("split", J::i(f.split_permille as u64))).collect())),
                        })
                        .collect(),
                ),
            )
    }
    fn from_json(j: &J) -> Option<StreamCase> {
        let n = |k: &str| -> Option<i64> { j.get(k)?.as_i64() };
        let mut segs = vec![];
        for g in j.get("segs")?.as_arr()? {
            segs.push(match g.get("kind")?.as_str()? {
                "whole" => Seg::Whole { ops: ops_parse(g.get("ops")?.as_str()?)? },
                _ => Seg::Stream {
                    pre_ops: ops_parse(g.get("pre_ops")?.as_str()?)?,
                    buf: g.get("buf")?.as_i64()? as usize,
                    frames: g
                        .get("frames")?
                        .as_arr()?
                        .iter()
                        .map(|f| Some(SFrame { ops: ops_parse(f.get("ops")?.as_str()?)?, split_permille: f.get("split")?.as_i64()? as u32 }))
                        .collect::<Option<Vec<_>>>()?,
                },
            });
        }
        Some(StreamCase {
            w: n("w")? as u32,
            h: n("h")? as u32,
            depth: n("depth")? as u8,
            color: n("color")? as u8,
            frames: n("frames")? as u32,
            plays: n("plays")? as u32,
            sep_def: jbool(j, "sep_def")?,
            owned_last: jbool(j, "owned_last")?,
            enc_ops: ops_parse(j.get("enc_ops")?.as_str()?)?,
            segs,
        })
    }
}

impl Case {
    fn json(&self) -> J {
        match self {
            Case::Header(c) => J::obj().set("op", J::s("header")).set("cfg", c.json()),
            Case::Refuse { cfg, in_head, bad, what } => J::obj()
                .set("op", J::s("refuse"))
                .set("cfg", cfg.json())
                .set("in_head", J::Bool(*in_head))
                .set("bad", J::i(*bad as u64))
                .set("what", J::s(what)),
            Case::Inflated { raw } => J::obj().set("op", J::s("inflated")).set("raw", J::s(&hex(raw))),
            Case::Stream(c) => J::obj().set("op", J::s("stream")).set("cfg", c.json()),
        }
    }
    fn from_json(j: &J) -> Option<Case> {
        match j.get("op")?.as_str()? {
            "header" => Some(Case::Header(Cfg::from_json(j.get("cfg")?)?)),
            "refuse" => Some(Case::Refuse {
                cfg: Cfg::from_json(j.get("cfg")?)?,
                in_head: jbool(j, "in_head")?,
                bad: j.get("bad")?.as_i64()? as usize,
                what: j.get("what")?.as_str()?.to_string(),
            }),
            "inflated" => Some(Case::Inflated { raw: unhex(j.get("raw")?.as_str()?)? }),
            "stream" => Some(Case::Stream(StreamCase::from_json(j.get("cfg")?)?)),
            _ => None,
        }
    }
    fn key(&self) -> u64 {
        fnv64(self.json().to_string().as_bytes())
    }
    /// non-trivial: at least one metadata item beyond IHDR is configured (refusals and the
    /// re-written iTXt chunk always are)
    fn nontrivial(&self) -> bool {
        match self {
            Case::Header(c) => {
                c.palette.is_some()
                    || c.trns.is_some()
                    || c.phys.is_some()
                    || c.gamma.is_some()
                    || c.chrm.is_some()
                    || c.srgb.is_some()
                    || c.icc.is_some()
                    || c.exif.is_some()
                    || !c.head.is_empty()
                    || !c.tail.is_empty()
                    || c.anim.is_some()
            }
            _ => true,
        }
    }
}

/// everything computed from the real crate before the model is asked
struct Prepared {
    enc: Option<Result<Result<Encoded, (String, String)>, String>>,
    dec: Option<Result<Result<Decoded, String>, String>>,
    lines: Vec<String>,
    /// for `Refuse`: (which call refused, class), sink after the refusal, sink growth of a refused tail call
    refusal: Option<Result<(Option<(String, String)>, Vec<u8>, usize), String>>,
    /// for `Inflated`: result of writing, body written, decode result of the file
    inflated: Option<(Result<Vec<u8>, String>, Option<Result<(), String>>)>,
    /// for `Stream`: the file and the result of every setter call in call order
    stream: Option<Result<Result<(Vec<u8>, Vec<bool>), (String, String)>, String>>,
}

const HEADER_END: [&[u8; 4]; 2] = [b"fcTL", b"IDAT"];

fn header_chunks(file: &[u8]) -> (Vec<([u8; 4], Vec<u8>)>, usize) {
    let pos = crate::props::c11::chunk_positions(file);
    let mut out = vec![];
    for c in &pos {
        if HEADER_END.iter().any(|t| **t == c.ty) {
            return (out, c.start);
        }
        out.push((c.ty, file[c.start + 8..c.start + 8 + c.len].to_vec()));
    }
    (out, file.len())
}

fn tail_enc_line(t: &Txt) -> String {
    let s = |x: &str| if x.is_empty() { "-".to_string() } else { shex(x) };
    // a chunk that was compressed before writing holds a payload only the real codec can produce;
    // the model is asked about the uncompressed state, payloads are compared after inflating
    match t.kind {
        't' => format!("c17 enc text {} {}", s(&t.kw), s(&t.text)),
        'z' => format!("c17 enc ztxt {} u:{}", s(&t.kw), s(&t.text)),
        _ => format!("c17 enc itxt {} {} {} {} u:{}", s(&t.kw), t.flag as u8, s(&t.lang), s(&t.tk), s(&t.text)),
    }
}

/// expected frame controls from the documented semantics of the setters: one entry per image;
/// `None` for a separate default image; sequence numbers are filled in from the file afterwards
fn expected_frames(cfg: &Cfg) -> (Vec<Option<Fc>>, Vec<Vec<bool>>) {
    let a = match &cfg.anim {
        Some(a) => a,
        None => return (vec![None], vec![vec![]]),
    };
    let mut fc: Fc = [0, cfg.w, cfg.h, 0, 0, 1, 30, 0, 0];
    for op in &a.enc_ops {
        ref_apply(cfg.w, cfg.h, &mut fc, op);
    }
    let images = a.frames as usize + a.sep_def as usize;
    let mut out = vec![];
    let mut results = vec![];
    for k in 0..images {
        let mut r = vec![];
        for op in a.per_image.get(k).map(|v| &v[..]).unwrap_or(&[]) {
            r.push(ref_apply(cfg.w, cfg.h, &mut fc, op));
        }
        results.push(r);
        out.push(if a.sep_def && k == 0 { None } else { Some(fc) });
    }
    (out, results)
}

fn prepare_header(cfg: &Cfg, rng: &mut Rng) -> Prepared {
    let enc = encode(cfg, rng);
    let mut lines = vec![format!("c17 header {}", cfg.model_tokens()), format!("c17 expect {}", cfg.model_tokens())];
    let mut dec = None;
    if let Ok(Ok(e)) = &enc {
        dec = Some(decode(&e.file));
        let meta: Vec<([u8; 4], Vec<u8>)> =
            chunks_of(&e.file).into_iter().filter(|(t, _)| ![b"IDAT", b"fdAT", b"fcTL", b"IEND"].iter().any(|x| *x == t)).collect();
        lines.push(format!("c17 decode {}", chunks_tok(&meta)));
        for t in &cfg.tail {
            lines.push(tail_enc_line(t));
        }
        if let Some(a) = &cfg.anim {
            let images = a.frames as usize + a.sep_def as usize;
            let mut ops: Vec<Op> = a.enc_ops.clone();
            for k in 0..images {
                ops.extend(a.per_image.get(k).cloned().unwrap_or_default());
                lines.push(format!("c17 fcops {} {} {}", cfg.w, cfg.h, ops_str(&ops)));
            }
            for (t, b) in chunks_of(&e.file) {
                if &t == b"fcTL" && b.len() == 26 {
                    let u = |i: usize| u32::from_be_bytes([b[i], b[i + 1], b[i + 2], b[i + 3]]);
                    let h = |i: usize| u16::from_be_bytes([b[i], b[i + 1]]) as u32;
                    lines.push(format!("c17 enc fctl {},{},{},{},{},{},{},{},{}", u(0), u(4), u(8), u(12), u(16), h(20), h(22), b[24], b[25]));
                }
            }
        }
    }
    Prepared { enc: Some(enc), dec, lines, refusal: None, inflated: None, stream: None }
}

// ---------------------------------------------------------------------------------------------
// judges
// ---------------------------------------------------------------------------------------------

thread_local! {
    static NOTES: std::cell::RefCell<Vec<(String, String)>> = std::cell::RefCell::new(Vec::new());
    static SUBST: std::cell::RefCell<(u32, [u32; 8])> = std::cell::RefCell::new((0, [0; 8]));
    /// does the real decoder parse chunks of length zero?  (probed once, see `probe_empty_chunks`)
    static PARSES_EMPTY: std::cell::Cell<bool> = std::cell::Cell::new(false);
}

/// What does the real decoder do with an empty eXIf chunk?  `true`: it reports `Some([])` (chunks of
/// length zero are parsed like any other — the decoder after the zero-length-chunk repair); `false`:
/// the chunk is not seen (`None`).  Decides what the harness expects where the outcome legitimately
/// depends on it (an empty palette counts as "seen"; the model's switch must agree).
fn probe_empty_chunks() -> bool {
    let f = tiny_png(&[RawChunk::new(b"eXIf", vec![])]);
    match decode(&f) {
        Ok(Ok(d)) => d.fin.exif.as_deref() == Some(&[][..]),
        _ => false,
    }
}
fn parses_empty() -> bool {
    PARSES_EMPTY.with(|x| x.get())
}
fn note(h: &str, k: &str) {
    NOTES.with(|n| n.borrow_mut().push((h.to_string(), k.to_string())));
}

/// the substitutes the crate documents for sRGB images, read through the public accessors
fn crate_substitutes() -> (u32, [u32; 8]) {
    let mut i = png::Info::default();
    i.srgb = Some(png::SrgbRenderingIntent::Perceptual);
    (i.gamma().map(|g| g.into_scaled()).unwrap_or(0), i.chromaticities().as_ref().map(chrm_back).unwrap_or([0; 8]))
}

/// tRNS as the decoder presents it (PNG specification 11.3.2.1: one sample per channel; below 16 bits
/// only the low byte of each two-byte sample is significant); `None` = the chunk does not apply
fn ref_trns(color: u8, depth: u8, palette_seen: bool, v: &[u8]) -> Option<Vec<u8>> {
    match color {
        0 if v.len() >= 2 => Some(if depth < 16 { vec![v[1]] } else { v.to_vec() }),
        2 if v.len() >= 6 => Some(if depth < 16 { vec![v[1], v[3], v[5]] } else { v.to_vec() }),
        3 if palette_seen => Some(v.to_vec()),
        _ => None,
    }
}

/// field-by-field comparison of what the decoder reports with what was supplied
fn oracle_fields(cfg: &Cfg, s: &Snap, with_tail: bool) -> Option<Fail> {
    let (sg, sc) = SUBST.with(|x| *x.borrow());
    if (s.w, s.h, s.depth, s.color, s.interlaced) != (cfg.w, cfg.h, cfg.depth, cfg.color, false) {
        return oracle("roundtrip/ihdr", format!("IHDR read back as {}x{} depth {} colour {} interlaced {}", s.w, s.h, s.depth, s.color, s.interlaced));
    }
    if s.phys != cfg.phys {
        return oracle("roundtrip/phys", format!("pixel dimensions {:?} read back as {:?}", cfg.phys, s.phys));
    }
    if s.srgb != cfg.srgb {
        return oracle("roundtrip/srgb", format!("sRGB intent {:?} read back as {:?}", cfg.srgb, s.srgb));
    }
    let want_gamma = if cfg.srgb.is_some() { Some(sg) } else { cfg.gamma };
    if s.gamma != want_gamma {
        return oracle("roundtrip/gama", format!("gamma() = {:?}, expected {:?} (configured {:?}, sRGB {:?})", s.gamma, want_gamma, cfg.gamma, cfg.srgb));
    }
    let want_chrm = if cfg.srgb.is_some() { Some(sc) } else { cfg.chrm };
    if s.chrm != want_chrm {
        return oracle("roundtrip/chrm", format!("chromaticities() = {:?}, expected {:?}", s.chrm, want_chrm));
    }
    // the raw chunks: without sRGB as configured; with sRGB only when equal to the substitute
    let want_gc = if cfg.srgb.is_some() { cfg.gamma.filter(|g| *g == sg) } else { cfg.gamma };
    let want_cc = if cfg.srgb.is_some() { cfg.chrm.filter(|c| *c == sc) } else { cfg.chrm };
    if s.gama_chunk != want_gc || s.chrm_chunk != want_cc {
        return oracle("roundtrip/srgb-compat-chunks", format!("gama_chunk {:?} / chrm_chunk {:?}, expected {:?} / {:?}", s.gama_chunk, s.chrm_chunk, want_gc, want_cc));
    }
    let want_icc = if cfg.srgb.is_some() { None } else { cfg.icc.clone() };
    if s.icc != want_icc {
        return oracle("roundtrip/iccp", format!("ICC profile of {:?} bytes read back as {:?} bytes", want_icc.as_ref().map(|v| v.len()), s.icc.as_ref().map(|v| v.len())));
    }
    if s.exif != cfg.exif {
        let class = if cfg.exif.as_deref() == Some(&[][..]) { "roundtrip/exif-empty" } else { "roundtrip/exif" };
        return oracle(class, format!("EXIF block of {:?} bytes read back as {:?}", cfg.exif.as_ref().map(|v| v.len()), s.exif.as_ref().map(|v| v.len())));
    }
    if s.actl != cfg.anim.as_ref().map(|a| (a.frames, a.plays)) {
        return oracle("roundtrip/actl", format!("animation control read back as {:?}", s.actl));
    }
    if s.palette != cfg.palette {
        let class = if cfg.palette.as_deref() == Some(&[][..]) { "roundtrip/plte-empty" } else { "roundtrip/plte" };
        return oracle(class, format!("palette of {:?} bytes read back as {:?}", cfg.palette.as_ref().map(|v| v.len()), s.palette.as_ref().map(|v| v.len())));
    }
    match &cfg.trns {
        None => {
            if s.trns.is_some() {
                return oracle("roundtrip/trns", "transparency appeared from nowhere".into());
            }
        }
        Some(v) if v.is_empty() && cfg.color == 3 && cfg.palette.is_some() => {
            // an empty alpha table is a legal value for an indexed image: it has to come back
            if s.trns.as_deref() != Some(&[][..]) {
                return oracle("roundtrip/trns-empty", format!("empty transparency read back as {:?}", s.trns));
            }
        }
        Some(v) => {
            // a palette written as an empty chunk is seen only by a decoder that parses empty chunks
            let seen = cfg.palette.as_ref().map(|p| !p.is_empty() || parses_empty()).unwrap_or(false);
            match ref_trns(cfg.color, cfg.depth, seen, v) {
                Some(want) => {
                    if s.trns.as_ref() != Some(&want) {
                        return oracle("roundtrip/trns", format!("transparency {} read back as {:?}, expected {}", hex(v), s.trns.as_ref().map(|x| hex(x)), hex(&want)));
                    }
                    if want != *v {
                        note("observation", "tRNS below 16 bits: Info::trns holds the low byte of each sample, not the chunk contents");
                    }
                }
                None => note("observation", "tRNS that does not apply to the colour type: written by the encoder, ignored by the decoder (model compared only)"),
            }
        }
    }
    let items: Vec<&Txt> = if with_tail { cfg.head.iter().chain(cfg.tail.iter()).collect() } else { cfg.head.iter().collect() };
    let in_head = |t: &&Txt| cfg.head.iter().any(|h| std::ptr::eq(*t, h));
    let want_t: Vec<(String, String)> = items.iter().filter(|t| t.kind == 't').map(|t| (t.kw.clone(), t.text.clone())).collect();
    if s.t != want_t {
        return oracle("roundtrip/text", format!("{} tEXt chunks written, read back {:?}", want_t.len(), short(&format!("{:?}", s.t))));
    }
    let want_z: Vec<(String, Result<String, String>)> = items.iter().filter(|t| t.kind == 'z').map(|t| (t.kw.clone(), Ok(t.text.clone()))).collect();
    if s.z != want_z {
        return oracle("roundtrip/ztxt", format!("{} zTXt chunks written, read back {}", want_z.len(), short(&format!("{:?}", s.z))));
    }
    let want_i: Vec<(String, bool, String, String, Result<String, String>)> = items
        .iter()
        .filter(|t| t.kind == 'i')
        .map(|t| if in_head(t) { (t.kw.clone(), false, String::new(), String::new(), Ok(t.text.clone())) } else { (t.kw.clone(), t.flag, t.lang.clone(), t.tk.clone(), Ok(t.text.clone())) })
        .collect();
    if s.i != want_i {
        return oracle("roundtrip/itxt", format!("{} iTXt chunks written, read back {}", want_i.len(), short(&format!("{:?}", s.i))));
    }
    if s.source_fields_set {
        note("observation", "decoded Info::source_gamma / source_chromaticities are set");
    }
    None
}

/// split a zTXt / iCCP body into (bytes up to and including the method byte, payload)
fn split_z(body: &[u8]) -> Option<(&[u8], &[u8])> {
    let n = body.iter().position(|&b| b == 0)?;
    if body.len() < n + 2 {
        return None;
    }
    Some((&body[..n + 2], &body[n + 2..]))
}

/// compare one chunk body of the model with the real one; compressed payloads after inflating
fn same_body(ty: &[u8; 4], real: &[u8], model: &[u8]) -> bool {
    match ty {
        b"iCCP" | b"zTXt" => match (split_z(real), split_z(model)) {
            (Some((h1, p1)), Some((h2, p2))) => h1 == h2 && ref_inflate(p1).is_some() && ref_inflate(p1) == ref_inflate(p2),
            _ => false,
        },
        b"iTXt" => {
            // keyword 0 flag method lang 0 tk 0 payload
            let cut = |b: &[u8]| -> Option<(usize, bool)> {
                let k = b.iter().position(|&x| x == 0)?;
                let flag = *b.get(k + 1)? == 1;
                let l = k + 3 + b.get(k + 3..)?.iter().position(|&x| x == 0)?;
                let t = l + 1 + b.get(l + 1..)?.iter().position(|&x| x == 0)?;
                Some((t + 1, flag))
            };
            match (cut(real), cut(model)) {
                (Some((a, f1)), Some((b, f2))) => {
                    real[..a] == model[..b] && f1 == f2 && if f1 { ref_inflate(&real[a..]).is_some() && ref_inflate(&real[a..]) == ref_inflate(&model[b..]) } else { real[a..] == model[b..] }
                }
                _ => false,
            }
        }
        _ => real == model,
    }
}

fn judge_header(cfg: &Cfg, p: &Prepared, ans: &[String]) -> Option<Fail> {
    let e = match p.enc.as_ref()? {
        Err(pn) => return oracle("panic/encoder", format!("encoder panicked: {}", pn)),
        Ok(Err((call, class))) => return oracle("roundtrip/encode-refused", format!("{} refused a legal configuration: {}", call, class)),
        Ok(Ok(e)) => e,
    };
    let d = match p.dec.as_ref()? {
        Err(pn) => return oracle("panic/decoder", format!("decoder panicked: {}", pn)),
        Ok(Err(m)) => return oracle("roundtrip/undecodable", format!("the decoder refuses the encoder's file: {}", m)),
        Ok(Ok(d)) => d,
    };
    // --- oracle: header items right after read_info, everything after finish ---
    if let Some(f) = oracle_fields(cfg, &d.after_info, false) {
        return Some(f);
    }
    if let Some(f) = oracle_fields(cfg, &d.fin, true) {
        return Some(f);
    }
    if let (Some(bits), None) = (&cfg.floats, cfg.srgb) {
        if let Some(f) = oracle_floats(bits, &d.fin) {
            return Some(f);
        }
    }
    // --- oracle: frame control ---
    let (mut want_frames, want_results) = expected_frames(cfg);
    if cfg.anim.is_some() {
        if e.op_results != want_results {
            return oracle("roundtrip/fctl-setter", format!("setter calls answered {:?}, documented semantics give {:?}", e.op_results, want_results));
        }
        // sequence numbers by the APNG rule: number of fcTL and fdAT chunks before this fcTL
        let mut seq = 0u32;
        let mut fseqs = vec![];
        for (t, _) in chunks_of(&e.file) {
            if &t == b"fcTL" {
                fseqs.push(seq);
            }
            if &t == b"fcTL" || &t == b"fdAT" {
                seq += 1;
            }
        }
        let mut it = fseqs.into_iter();
        for f in want_frames.iter_mut().flatten() {
            f[0] = it.next().unwrap_or(u32::MAX);
        }
        if d.frames != want_frames {
            return oracle("roundtrip/fctl", format!("frame controls read back {:?}, expected {:?}", d.frames, want_frames));
        }
    }
    // --- model ---
    let need = 3 + cfg.tail.len();
    if ans.len() < need {
        return modelf("protocol", format!("model answered {} lines", ans.len()));
    }
    let (real_head, cut) = header_chunks(&e.file);
    let mh = match ans[0].strip_prefix("ok ").and_then(parse_chunks_tok) {
        Some(m) => m,
        None => return modelf("model/header/refused", format!("model: {}", short(&ans[0]))),
    };
    if mh.iter().map(|c| c.0).collect::<Vec<_>>() != real_head.iter().map(|c| c.0).collect::<Vec<_>>() {
        let f = |v: &[([u8; 4], Vec<u8>)]| v.iter().map(|c| String::from_utf8_lossy(&c.0).to_string()).collect::<Vec<_>>().join(" ");
        return modelf("model/header/order", format!("model chunks [{}], real [{}]", f(&mh), f(&real_head)));
    }
    for ((t, rb), (_, mb)) in real_head.iter().zip(mh.iter()) {
        if !same_body(t, rb, mb) {
            return modelf(&format!("model/header/{}", String::from_utf8_lossy(t)), format!("body real {} model {}", short(&hex(rb)), short(&hex(mb))));
        }
    }
    let s_real = info_string(&d.fin);
    if no_fctl(&ans[2]) != s_real {
        return modelf("model/decode", format!("Lean parsers on the real chunks: {} ; real decoder: {}", short(&ans[2]), short(&s_real)));
    }
    if cfg.tail.is_empty() && no_fctl(&ans[1]) != s_real {
        return modelf("model/expect", format!("C17_header_roundtrip promises {} ; real decoder: {}", short(&ans[1]), short(&s_real)));
    }
    // tail chunks: bodies
    let tails: Vec<([u8; 4], Vec<u8>)> = {
        let all = chunks_of(&e.file);
        let idat_last = all.iter().rposition(|(t, _)| t == b"IDAT" || t == b"fdAT").unwrap_or(0);
        all[idat_last + 1..].iter().filter(|(t, _)| t != b"IEND").cloned().collect()
    };
    if tails.len() != cfg.tail.len() {
        return oracle("roundtrip/tail-count", format!("{} chunks written after the image data, {} asked for", tails.len(), cfg.tail.len()));
    }
    for (k, (t, rb)) in tails.iter().enumerate() {
        match unhex(&ans[3 + k]) {
            Some(mb) if !ans[3 + k].starts_with("err") && same_body(t, rb, &mb) => {}
            _ => return modelf(&format!("model/enc/{}", String::from_utf8_lossy(t)), format!("body real {} model {}", short(&hex(rb)), short(&ans[3 + k]))),
        }
    }
    // frame control lines
    if let Some(a) = &cfg.anim {
        let images = a.frames as usize + a.sep_def as usize;
        let base = 3 + cfg.tail.len();
        let mut nops = a.enc_ops.len();
        for k in 0..images {
            let line = match ans.get(base + k) {
                Some(l) => l,
                None => return modelf("protocol", format!("model answered {} lines", ans.len())),
            };
            let (rs, rest) = match line.split_once(';') {
                Some(x) => x,
                None => return modelf("protocol", format!("fcops answer {}", short(line))),
            };
            let rs: Vec<&str> = if rs.is_empty() { vec![] } else { rs.split(',').collect() };
            let mine = e.op_results.get(k).cloned().unwrap_or_default();
            let tail_rs: Vec<bool> = rs[nops.min(rs.len())..].iter().map(|x| *x == "ok").collect();
            nops += mine.len();
            let (fcs, inv) = rest.split_once(" inv=").unwrap_or((rest, "?"));
            let mfc: Vec<u32> = fcs.split(',').filter_map(|x| x.parse().ok()).collect();
            let want = {
                let mut fc: Fc = [0, cfg.w, cfg.h, 0, 0, 1, 30, 0, 0];
                for op in &a.enc_ops {
                    ref_apply(cfg.w, cfg.h, &mut fc, op);
                }
                for j in 0..=k {
                    for op in a.per_image.get(j).map(|v| &v[..]).unwrap_or(&[]) {
                        ref_apply(cfg.w, cfg.h, &mut fc, op);
                    }
                }
                fc
            };
            if tail_rs != mine || mfc.len() != 9 || mfc[1..] != want[1..] || inv != "1" {
                return modelf("model/fcops", format!("image {}: model {} ; crate results {:?}, frame control {:?}", k, short(line), mine, want));
            }
        }
        let fbodies: Vec<Vec<u8>> = chunks_of(&e.file).into_iter().filter(|(t, _)| t == b"fcTL").map(|(_, b)| b).collect();
        for (k, b) in fbodies.iter().enumerate() {
            if ans.get(base + images + k).map(|s| s.as_str()) != Some(&hex(b)) {
                return modelf("model/enc/fcTL", format!("fcTL #{} real {} model {:?}", k, hex(b), ans.get(base + images + k)));
            }
        }
    }
    // --- the model's header, read by the real decoder ---
    let mut f2 = refpng::SIG.to_vec();
    for (t, b) in &mh {
        f2.extend_from_slice(&RawChunk::new(t, b.clone()).bytes());
    }
    f2.extend_from_slice(&e.file[cut..]);
    match decode(&f2) {
        Ok(Ok(d2)) => {
            if info_string(&d2.fin) != s_real {
                return modelf("model/model-header-real-decoder", format!("real decoder on the model's header: {} ; on the real header: {}", short(&info_string(&d2.fin)), short(&s_real)));
            }
        }
        Ok(Err(m)) => return modelf("model/model-header-real-decoder", format!("the real decoder refuses the model's header: {}", m)),
        Err(pn) => return oracle("panic/decoder", format!("decoder panicked on the model's header: {}", pn)),
    }
    None
}

// ---------------------------------------------------------------------------------------------
// refusals
// ---------------------------------------------------------------------------------------------

/// Run the encoder on a configuration with one unrepresentable text item.
/// Returns (refusing call and class if any call refused, sink afterwards, growth of the sink during a
/// refused `write_text_chunk`).
fn run_refusal(cfg: &Cfg, in_head: bool, bad: usize, rng: &mut Rng) -> Result<(Option<(String, String)>, Vec<u8>, usize), String> {
    let cfg = cfg.clone();
    let mut rng = rng.clone();
    guarded(move || {
        let sink = SharedSink::default();
        let enc = match build_encoder(&cfg, sink.clone()) {
            Ok(e) => e,
            Err(r) => return (Some(r), sink.bytes(), 0),
        };
        let mut w = match enc.write_header() {
            Ok(w) => w,
            Err(e) => return (Some(("write_header".to_string(), enc_class(&e))), sink.bytes(), 0),
        };
        if in_head {
            drop(w);
            return (None, sink.bytes(), 0);
        }
        let data = rng.bytes(image_len(cfg.color, cfg.depth, cfg.w, cfg.h));
        if let Err(e) = w.write_image_data(&data) {
            return (Some(("write_image_data".to_string(), enc_class(&e))), sink.bytes(), 0);
        }
        let mut refused = None;
        let mut growth = 0;
        for (k, t) in cfg.tail.iter().enumerate() {
            let o = match text_obj(t) {
                Ok(o) => o,
                Err(m) => {
                    // `compress_text` refused (text not Latin-1): also a refusal before anything is written
                    if k == bad {
                        refused = Some(("compress_text".to_string(), m.trim_start_matches("compress_text: ").to_string()));
                    }
                    continue;
                }
            };
            let before = sink.len();
            if let Err(e) = write_text(&mut w, &o) {
                if k == bad {
                    refused = Some(("write_text_chunk".to_string(), enc_class(&e)));
                    growth = sink.len() - before;
                } else {
                    return (Some((format!("write_text_chunk #{} (representable)", k), enc_class(&e))), sink.bytes(), 0);
                }
            }
        }
        let _ = w.finish();
        (refused, sink.bytes(), growth)
    })
}

/// what the PNG format demands for a text item (from the chunk layouts of the specification)
fn expected_refusal(t: &Txt, head: bool) -> Option<&'static str> {
    let latin1 = |s: &str| s.chars().all(|c| (c as u32) <= 255);
    if !latin1(&t.kw) {
        return Some("err:unrepresentable");
    }
    let n = t.kw.chars().count();
    if n == 0 || n > 79 {
        return Some("err:invalidKeywordSize");
    }
    if t.kw.contains('\0') {
        return Some("err:unrepresentable");
    }
    match t.kind {
        't' | 'z' if !latin1(&t.text) => Some("err:unrepresentable"),
        'i' if !head && (!t.lang.is_ascii() || t.lang.contains('\0')) => Some("err:unrepresentable"),
        'i' if !head && t.tk.contains('\0') => Some("err:unrepresentable"),
        _ => None,
    }
}

fn prepare_refuse(cfg: &Cfg, in_head: bool, bad: usize, rng: &mut Rng) -> Prepared {
    let refusal = run_refusal(cfg, in_head, bad, rng);
    let lines = if in_head { vec![format!("c17 header {}", cfg.model_tokens())] } else { cfg.tail.get(bad).map(|t| vec![tail_enc_line(t)]).unwrap_or_default() };
    Prepared { enc: None, dec: None, lines, refusal: Some(refusal), inflated: None, stream: None }
}

fn judge_refuse(cfg: &Cfg, in_head: bool, bad: usize, what: &str, p: &Prepared, ans: &[String]) -> Option<Fail> {
    let item = if in_head { cfg.head.get(bad)? } else { cfg.tail.get(bad)? };
    let want = match expected_refusal(item, in_head) {
        Some(w) => w,
        None => return modelf("refusal/generator", "the item is representable".into()),
    };
    let (refused, sink, growth) = match p.refusal.as_ref()? {
        Err(pn) => return oracle("panic/encoder", format!("encoder panicked: {}", pn)),
        Ok(x) => x,
    };
    let class_key = format!("refusal/{}", what);
    let (call, class) = match refused {
        Some(x) => x,
        None => return oracle(&class_key, format!("{} item with keyword {} was accepted and written", item.kind, short(&shex(&item.kw)))),
    };
    note("refusing call", &format!("{}/{}", item.kind, call));
    if class != want {
        return oracle(&class_key, format!("{} answered {} but the format demands {}", call, class, want));
    }
    if *growth != 0 {
        return oracle(&format!("{}/bytes-written", class_key), format!("the refused write_text_chunk call left {} bytes in the sink", growth));
    }
    // no chunk of the refused item in the sink; for a header refusal nothing after it either
    let ty: &[u8; 4] = match item.kind {
        't' => b"tEXt",
        'z' => b"zTXt",
        _ => b"iTXt",
    };
    let kwb = latin1_bytes(&item.kw);
    let all = chunks_of(sink);
    let covered: usize = 8 + all.iter().map(|(_, b)| 12 + b.len()).sum::<usize>();
    if covered != sink.len() {
        return oracle(&format!("{}/bytes-written", class_key), format!("the sink holds {} bytes that are not whole chunks", sink.len() - covered.min(sink.len())));
    }
    let others: Vec<&Txt> = cfg.head.iter().chain(cfg.tail.iter()).filter(|t| !std::ptr::eq(*t, item)).collect();
    for (t, b) in &all {
        if t == ty {
            let k: Vec<u8> = b.iter().copied().take_while(|&x| x != 0).collect();
            let accounted = others.iter().any(|o| o.kind == item.kind && latin1_bytes(&o.kw) == k);
            if !accounted || (k == kwb && !others.iter().any(|o| o.kind == item.kind && o.kw == item.kw)) {
                return oracle(&format!("{}/bytes-written", class_key), format!("the sink holds a {} chunk with keyword bytes {} that no accepted item accounts for", String::from_utf8_lossy(t), hex(&k)));
            }
        }
    }
    // model
    if ans.len() != 1 {
        return modelf("protocol", format!("model answered {} lines", ans.len()));
    }
    if in_head {
        // `err:<class> <chunks before the failing step>`; the real sink additionally ends with the IEND
        // that `Writer::drop` writes when `write_header` fails
        let (mc, mchunks) = ans[0].split_once(' ').unwrap_or((&ans[0], "-"));
        if mc != want {
            return modelf("model/refusal/class", format!("model {} ; crate {}", mc, class));
        }
        let mt: Vec<String> = match parse_chunks_tok(mchunks) {
            Some(v) => v.iter().map(|c| String::from_utf8_lossy(&c.0).to_string()).collect(),
            None => return modelf("protocol", format!("header answer {}", short(&ans[0]))),
        };
        let mut rt: Vec<String> = all.iter().map(|c| String::from_utf8_lossy(&c.0).to_string()).collect();
        if call == "write_header" {
            if rt.last().map(|s| s.as_str()) == Some("IEND") {
                rt.pop();
                note("observation", "write_header failed: Writer::drop still appended IEND to the sink");
            }
            if rt != mt {
                return modelf("model/refusal/sink", format!("after the refusal the sink holds [{}], the model says [{}]", rt.join(" "), mt.join(" ")));
            }
        }
    } else if ans[0] != want {
        return modelf("model/refusal/class", format!("model {} ; crate {}", ans[0], class));
    }
    None
}

// ---------------------------------------------------------------------------------------------
// iTXt: compressed payload, `compressed` cleared
// ---------------------------------------------------------------------------------------------

fn zlib(data: &[u8]) -> Vec<u8> {
    let mut e = flate2::write::ZlibEncoder::new(Vec::new(), flate2::Compression::new(6));
    e.write_all(data).unwrap();
    e.finish().unwrap()
}

fn tiny_png(extra: &[RawChunk]) -> Vec<u8> {
    let mut cs = vec![refpng::ihdr(1, 1, 8, 0, 0)];
    cs.extend_from_slice(extra);
    cs.push(RawChunk::new(b"IDAT", zlib(&[0, 0x55])));
    cs.push(RawChunk::new(b"IEND", vec![]));
    refpng::serialize(&cs)
}

fn prepare_inflated(raw: &[u8]) -> Prepared {
    let z = zlib(raw);
    let mut body = b"k\0\x01\0\0\0".to_vec();
    body.extend_from_slice(&z);
    let src = tiny_png(&[RawChunk::new(b"iTXt", body)]);
    let r = guarded(move || -> (Result<Vec<u8>, String>, Option<Result<(), String>>) {
        let dec = png::Decoder::new(Cursor::new(src));
        let reader = match dec.read_info() {
            Ok(r) => r,
            Err(e) => return (Err(format!("source file: {}", e)), None),
        };
        let mut c = match reader.info().utf8_text.first() {
            Some(c) => c.clone(),
            None => return (Err("source file: no iTXt".into()), None),
        };
        c.compressed = false;
        let sink = SharedSink::default();
        let mut enc = png::Encoder::new(sink.clone(), 1, 1);
        enc.set_color(png::ColorType::Grayscale);
        enc.set_depth(png::BitDepth::Eight);
        let mut w = match enc.write_header() {
            Ok(w) => w,
            Err(e) => return (Err(format!("write_header: {}", enc_class(&e))), None),
        };
        if let Err(e) = w.write_image_data(&[0x55]) {
            return (Err(format!("write_image_data: {}", enc_class(&e))), None);
        }
        let before = sink.len();
        if let Err(e) = w.write_text_chunk(&c) {
            let g = sink.len() - before;
            return (Err(if g == 0 { enc_class(&e) } else { format!("{}+wrote{}", enc_class(&e), g) }), None);
        }
        let _ = w.finish();
        let file = sink.bytes();
        let body = chunks_of(&file).into_iter().find(|(t, _)| t == b"iTXt").map(|(_, b)| b).unwrap_or_default();
        let d = match decode(&file) {
            Ok(Ok(d)) => {
                if d.fin.i.len() == 1 && d.fin.i[0].4.is_ok() {
                    Ok(())
                } else {
                    Err(format!("read back {:?}", d.fin.i))
                }
            }
            Ok(Err(m)) => Err(m),
            Err(p) => Err(format!("PANIC {}", p)),
        };
        (Ok(body), Some(d))
    });
    let inflated = match r {
        Ok(x) => x,
        Err(p) => (Err(format!("PANIC {}", p)), None),
    };
    Prepared { enc: None, dec: None, lines: vec![format!("c17 enc itxt 6b 0 - - c:{}", hex(&z))], refusal: None, inflated: Some(inflated), stream: None }
}

fn judge_inflated(raw: &[u8], p: &Prepared, ans: &[String]) -> Option<Fail> {
    let (written, back) = p.inflated.as_ref()?;
    let valid = std::str::from_utf8(raw).is_ok();
    match (written, back) {
        (Err(m), _) if m.starts_with("PANIC") => return oracle("panic/encoder", m.clone()),
        (Err(m), _) if m.starts_with("source file") || m.starts_with("write_") => return modelf("inflated/setup", m.clone()),
        (Err(class), _) => {
            // a refusal: correct for a payload that is no text, wrong for one that is
            note("iTXt compressed payload, flag cleared", if valid { "valid UTF-8: refused" } else { "not UTF-8: refused" });
            if valid {
                return oracle("roundtrip/itxt-inflated", format!("a chunk whose text is valid was refused: {}", class));
            }
            if class.contains("+wrote") {
                return oracle("refusal/itxt-inflated/bytes-written", class.clone());
            }
            if class != "err:unrepresentable" {
                return oracle("refusal/itxt-inflated", format!("a payload that is not UTF-8 was refused as {} instead of Unrepresentable", class));
            }
        }
        (Ok(body), Some(d)) => {
            note("iTXt compressed payload, flag cleared", if valid { "valid UTF-8: written" } else { "not UTF-8: WRITTEN" });
            if let Err(m) = d {
                let class = if valid { "roundtrip/itxt-inflated" } else { "roundtrip/itxt-inflated-non-utf8" };
                return oracle(
                    class,
                    format!(
                        "ITXtChunk with compressed=false holding a compressed payload that inflates to {} was written without an error ({} body bytes); decoding the file: {}",
                        hex(raw),
                        body.len(),
                        m
                    ),
                );
            }
            if !valid {
                return oracle("roundtrip/itxt-inflated-non-utf8", "a payload that is not UTF-8 was written and read back as text".into());
            }
        }
        _ => {}
    }
    if ans.len() != 1 {
        return modelf("protocol", format!("model answered {} lines", ans.len()));
    }
    let imp = match written {
        Ok(b) => hex(b),
        Err(c) => c.clone(),
    };
    if ans[0] != imp {
        return modelf("model/itxt-inflated", format!("model {} ; crate {}", short(&ans[0]), short(&imp)));
    }
    None
}

// ---------------------------------------------------------------------------------------------
// animations through StreamWriter
// ---------------------------------------------------------------------------------------------

fn apply_stream_op<W: Write>(sw: &mut png::StreamWriter<W>, op: &Op) -> Result<(), png::EncodingError> {
    match op {
        Op::Dim(x, y) => sw.set_frame_dimension(*x, *y),
        Op::Pos(x, y) => sw.set_frame_position(*x, *y),
        Op::RDim => sw.reset_frame_dimension(),
        Op::RPos => sw.reset_frame_position(),
        Op::Delay(n, d) => sw.set_frame_delay(*n, *d),
        Op::Blend(b) => sw.set_blend_op(if *b == 1 { png::BlendOp::Over } else { png::BlendOp::Source }),
        Op::Dispose(o) => sw.set_dispose_op(dispose_of(*o)),
    }
}

fn apply_writer_op<W: Write>(w: &mut png::Writer<W>, op: &Op) -> Result<(), png::EncodingError> {
    match op {
        Op::Dim(x, y) => w.set_frame_dimension(*x, *y),
        Op::Pos(x, y) => w.set_frame_position(*x, *y),
        Op::RDim => w.reset_frame_dimension(),
        Op::RPos => w.reset_frame_position(),
        Op::Delay(n, d) => w.set_frame_delay(*n, *d),
        Op::Blend(b) => w.set_blend_op(if *b == 1 { png::BlendOp::Over } else { png::BlendOp::Source }),
        Op::Dispose(o) => w.set_dispose_op(dispose_of(*o)),
    }
}

/// the images of one session; `wfc` / the copy follow what the calls ANSWERED (so that the data sizes
/// fit what the crate expects); the documented semantics are computed separately in `stream_reference`
fn run_session<W: Write>(
    sw: &mut png::StreamWriter<W>,
    c: &StreamCase,
    frames: &[SFrame],
    wfc: &mut Fc,
    results: &mut Vec<bool>,
    rng: &mut Rng,
    image_no: &mut usize,
) -> Result<(), (String, String)> {
    let mut copy = *wfc;
    for (j, f) in frames.iter().enumerate() {
        if j > 0 {
            // the first byte of this image makes the stream writer take over its copy
            let seq = wfc[0];
            *wfc = copy;
            wfc[0] = seq;
        }
        let data = rng.bytes(image_len(c.color, c.depth, wfc[1], wfc[2]));
        let mut split = (data.len() as u64 * f.split_permille as u64 / 1000) as usize;
        if j > 0 {
            split = split.max(1);
        }
        let split = split.min(data.len());
        sw.write_all(&data[..split]).map_err(|e| (format!("StreamWriter::write, image #{}", image_no), e.to_string()))?;
        for op in &f.ops {
            let r = apply_stream_op(sw, op);
            if r.is_ok() {
                ref_apply(c.w, c.h, &mut copy, op);
            }
            results.push(r.is_ok());
        }
        sw.write_all(&data[split..]).map_err(|e| (format!("StreamWriter::write, image #{}", image_no), e.to_string()))?;
        *image_no += 1;
    }
    Ok(())
}

fn encode_stream(c: &StreamCase, rng: &mut Rng) -> Result<Result<(Vec<u8>, Vec<bool>), (String, String)>, String> {
    let c = c.clone();
    let mut rng = rng.clone();
    guarded(move || -> Result<(Vec<u8>, Vec<bool>), (String, String)> {
        let sink = SharedSink::default();
        let mut cfg = Cfg::plain(c.w, c.h, c.depth, c.color);
        if c.color == 3 {
            cfg.palette = Some(vec![0x40; 3 << c.depth.min(8)]);
        }
        cfg.anim = Some(Anim { frames: c.frames, plays: c.plays, sep_def: c.sep_def, enc_ops: c.enc_ops.clone(), per_image: vec![] });
        let enc = build_encoder(&cfg, sink.clone())?;
        let mut w = enc.write_header().map_err(|e| ("write_header".to_string(), enc_class(&e)))?;
        let mut wfc: Fc = [0, c.w, c.h, 0, 0, 1, 30, 0, 0];
        for op in &c.enc_ops {
            ref_apply(c.w, c.h, &mut wfc, op);
        }
        let mut results = vec![];
        let mut image_no = 0usize;
        let nseg = c.segs.len();
        let mut owned_done = false;
        let mut segs = c.segs.iter().enumerate();
        // (the writer is moved into the last stream writer when `owned_last`)
        let mut writer = Some(w);
        for (k, seg) in &mut segs {
            let w = match writer.as_mut() {
                Some(w) => w,
                None => break,
            };
            match seg {
                Seg::Whole { ops } => {
                    for op in ops {
                        let r = apply_writer_op(w, op);
                        if r.is_ok() {
                            ref_apply(c.w, c.h, &mut wfc, op);
                        }
                        results.push(r.is_ok());
                    }
                    let data = rng.bytes(image_len(c.color, c.depth, wfc[1], wfc[2]));
                    w.write_image_data(&data).map_err(|e| (format!("write_image_data, image #{}", image_no), enc_class(&e)))?;
                    image_no += 1;
                }
                Seg::Stream { pre_ops, frames, buf } => {
                    for op in pre_ops {
                        let r = apply_writer_op(w, op);
                        if r.is_ok() {
                            ref_apply(c.w, c.h, &mut wfc, op);
                        }
                        results.push(r.is_ok());
                    }
                    if c.owned_last && k + 1 == nseg {
                        let w = writer.take().unwrap_or_else(|| unreachable!());
                        let mut sw = w.into_stream_writer_with_size(*buf).map_err(|e| ("into_stream_writer".to_string(), enc_class(&e)))?;
                        run_session(&mut sw, &c, frames, &mut wfc, &mut results, &mut rng, &mut image_no)?;
                        sw.finish().map_err(|e| ("StreamWriter::finish (owned)".to_string(), enc_class(&e)))?;
                        owned_done = true;
                    } else {
                        let mut sw = w.stream_writer_with_size(*buf).map_err(|e| ("stream_writer".to_string(), enc_class(&e)))?;
                        run_session(&mut sw, &c, frames, &mut wfc, &mut results, &mut rng, &mut image_no)?;
                        sw.finish().map_err(|e| ("StreamWriter::finish".to_string(), enc_class(&e)))?;
                    }
                }
            }
        }
        if !owned_done {
            if let Some(w) = writer.take() {
                w.finish().map_err(|e| ("finish".to_string(), enc_class(&e)))?;
            }
        }
        Ok((sink.bytes(), results))
    })
}

/// The documented semantics, independent of the crate's answers and of the model: expected frame
/// control of every image (`None` for the separate default image), expected verdict of every setter
/// call in call order, and the event list for `c17 fcstream`.
fn stream_reference(c: &StreamCase) -> (Vec<Option<Fc>>, Vec<bool>, String) {
    let mut wfc: Fc = [0, c.w, c.h, 0, 0, 1, 30, 0, 0];
    let mut evs: Vec<String> = vec![];
    for op in &c.enc_ops {
        ref_apply(c.w, c.h, &mut wfc, op);
        evs.push(format!("w/{}", op.tok()));
    }
    let mut frames = vec![];
    let mut verdicts = vec![];
    // (the `Encoder` setters cannot fail on an animated encoder and are not in `verdicts`)
    let mut first = true;
    for seg in &c.segs {
        match seg {
            Seg::Whole { ops } => {
                for op in ops {
                    verdicts.push(ref_apply(c.w, c.h, &mut wfc, op));
                    evs.push(format!("w/{}", op.tok()));
                }
                let skip = first && c.sep_def;
                frames.push(if skip { None } else { Some(wfc) });
                evs.push(if skip { "img0".into() } else { "img".into() });
                first = false;
            }
            Seg::Stream { pre_ops, frames: fs, .. } => {
                for op in pre_ops {
                    verdicts.push(ref_apply(c.w, c.h, &mut wfc, op));
                    evs.push(format!("w/{}", op.tok()));
                }
                let mut copy = wfc;
                for (j, f) in fs.iter().enumerate() {
                    if j == 0 {
                        let skip = first && c.sep_def;
                        frames.push(if skip { None } else { Some(wfc) });
                        evs.push(if skip { "open0".into() } else { "open".into() });
                    } else {
                        let seq = wfc[0];
                        wfc = copy;
                        wfc[0] = seq;
                        frames.push(Some(wfc));
                        evs.push("next".into());
                    }
                    first = false;
                    for op in &f.ops {
                        verdicts.push(ref_apply(c.w, c.h, &mut copy, op));
                        evs.push(format!("s/{}", op.tok()));
                    }
                }
                evs.push("close".into());
            }
        }
    }
    (frames, verdicts, evs.join(";"))
}

fn prepare_stream(c: &StreamCase, rng: &mut Rng) -> Prepared {
    let enc = encode_stream(c, rng);
    let (_, _, evs) = stream_reference(c);
    let mut lines = vec![format!("c17 fcstream {} {} {}", c.w, c.h, evs)];
    let mut dec = None;
    if let Ok(Ok((file, _))) = &enc {
        dec = Some(decode(file));
        for (t, b) in chunks_of(file) {
            if &t == b"fcTL" && b.len() == 26 {
                let u = |i: usize| u32::from_be_bytes([b[i], b[i + 1], b[i + 2], b[i + 3]]);
                let h = |i: usize| u16::from_be_bytes([b[i], b[i + 1]]) as u32;
                lines.push(format!("c17 enc fctl {},{},{},{},{},{},{},{},{}", u(0), u(4), u(8), u(12), u(16), h(20), h(22), b[24], b[25]));
            }
        }
    }
    Prepared { enc: None, dec, lines, refusal: None, inflated: None, stream: Some(enc) }
}

fn judge_stream(c: &StreamCase, p: &Prepared, ans: &[String]) -> Option<Fail> {
    let (file, results) = match p.stream.as_ref() {
        None => return modelf("harness/prepare", "no stream result".into()),
        Some(Err(pn)) => return oracle("panic/encoder", format!("encoder panicked: {}", pn)),
        Some(Ok(Err((call, class)))) => return oracle("roundtrip/stream/encode-refused", format!("{} failed on a legal animation: {}", call, class)),
        Some(Ok(Ok(x))) => x,
    };
    let d = match p.dec.as_ref() {
        None => return modelf("harness/prepare", "no decode result".into()),
        Some(Err(pn)) => return oracle("panic/decoder", format!("decoder panicked: {}", pn)),
        Some(Ok(Err(m))) => return oracle("roundtrip/stream/undecodable", format!("the decoder refuses the stream writer's file: {}", m)),
        Some(Ok(Ok(d))) => d,
    };
    let (mut want_frames, want_verdicts, _) = stream_reference(c);
    if *results != want_verdicts {
        return oracle("roundtrip/stream/fctl-setter", format!("setter calls answered {:?}, documented semantics give {:?}", results, want_verdicts));
    }
    if d.fin.actl != Some((c.frames, c.plays)) {
        return oracle("roundtrip/stream/actl", format!("animation control read back as {:?}", d.fin.actl));
    }
    // sequence numbers by the APNG rule
    let mut seq = 0u32;
    let mut fseqs = vec![];
    let all = chunks_of(file);
    for (t, _) in &all {
        if t == b"fcTL" {
            fseqs.push(seq);
        }
        if t == b"fcTL" || t == b"fdAT" {
            seq += 1;
        }
    }
    let mut it = fseqs.into_iter();
    for f in want_frames.iter_mut().flatten() {
        f[0] = it.next().unwrap_or(u32::MAX);
    }
    if d.frames != want_frames {
        let names = ["sequence_number", "width", "height", "x_offset", "y_offset", "delay_num", "delay_den", "dispose_op", "blend_op"];
        let mut which = String::new();
        for (k, (g, w)) in d.frames.iter().zip(want_frames.iter()).enumerate() {
            if let (Some(g), Some(w)) = (g, w) {
                if let Some(i) = (0..9).find(|&i| g[i] != w[i]) {
                    which = format!("/{}", names[i]);
                    note("stream frame that differs", &format!("image {}", k.min(5)));
                    break;
                }
            } else if g != w {
                which = "/presence".into();
                break;
            }
        }
        return oracle(&format!("roundtrip/stream/fctl{}", which), format!("frame controls read back {:?}, expected {:?}", d.frames, want_frames));
    }
    // model
    let line = match ans.first() {
        Some(l) => l,
        None => return modelf("protocol", "model answered nothing".into()),
    };
    let (rs, fcs) = match line.split_once(';') {
        Some(x) => x,
        None => return modelf("protocol", format!("fcstream answer {}", short(line))),
    };
    let mres: Vec<bool> = if rs.is_empty() { vec![] } else { rs.split(',').map(|x| x == "ok").collect() };
    // the model also lists the `Encoder`-level calls, which always succeed
    let skip = c.enc_ops.len().min(mres.len());
    if mres[skip..] != results[..] {
        return modelf("model/fcstream/results", format!("model {} ; crate {:?}", short(rs), results));
    }
    let mfcs: Vec<Vec<u32>> = if fcs.is_empty() { vec![] } else { fcs.split('|').map(|f| f.split(',').filter_map(|x| x.parse().ok()).collect()).collect() };
    let wf: Vec<Fc> = want_frames.iter().flatten().copied().collect();
    if mfcs.len() != wf.len() || mfcs.iter().zip(wf.iter()).any(|(m, w)| m.len() != 9 || m[1..] != w[1..]) {
        return modelf("model/fcstream/frames", format!("model {} ; frame controls written {:?}", short(fcs), wf));
    }
    let fbodies: Vec<&Vec<u8>> = all.iter().filter(|(t, _)| t == b"fcTL").map(|(_, b)| b).collect();
    for (k, b) in fbodies.iter().enumerate() {
        if ans.get(1 + k).map(|s| s.as_str()) != Some(&hex(b)) {
            return modelf("model/enc/fcTL", format!("fcTL #{} real {} model {:?}", k, hex(b), ans.get(1 + k)));
        }
    }
    None
}

fn gen_stream_ops(rng: &mut Rng, cw: u32, ch: u32, geometry: bool) -> Vec<Op> {
    // more calls, and every setter, than `gen_ops`
    let n = rng.usize(0, 5);
    let mut v = gen_ops(rng, cw, ch, geometry);
    v.truncate(n);
    if rng.chance(1, 2) {
        v.push(match rng.below(if geometry { 7 } else { 3 }) {
            0 => Op::Dispose(rng.below(3) as u8),
            1 => Op::Blend(rng.below(2) as u8),
            2 => Op::Delay(gen_u16(rng), gen_u16(rng)),
            3 => Op::Dim(rng.range(1, cw as u64) as u32, rng.range(1, ch as u64) as u32),
            4 => Op::Pos(rng.range(0, cw as u64 - 1) as u32, rng.range(0, ch as u64 - 1) as u32),
            5 => Op::RDim,
            _ => Op::RPos,
        });
    }
    v
}

fn gen_stream_case(rng: &mut Rng) -> StreamCase {
    let (color, depth) = *rng.pick(&PAIRS);
    let (w, h) = (rng.range(1, 6) as u32, rng.range(1, 5) as u32);
    let frames = rng.range(2, 5) as u32;
    let sep_def = rng.chance(1, 4);
    let images = frames as usize + sep_def as usize;
    let mut segs = vec![];
    let mut left = images;
    let mode = rng.below(3); // 0: one stream writer for everything, 1: mixed, 2: mostly streams
    while left > 0 {
        let first = left == images;
        let stream = match mode {
            0 => true,
            1 => rng.bool(),
            _ => rng.chance(3, 4),
        };
        if stream {
            let n = if mode == 0 { left } else { rng.usize(1, left) };
            let mut fs = vec![];
            for j in 0..n {
                // setters after the start of the session's last image would have no frame to apply to
                let ops = if j + 1 == n { vec![] } else { gen_stream_ops(rng, w, h, true) };
                fs.push(SFrame { ops, split_permille: *rng.pick(&[0u32, 1, 500, 999, 1000, 1000]) });
            }
            // geometry setters of the `Writer` only once an image has been written
            segs.push(Seg::Stream { pre_ops: gen_stream_ops(rng, w, h, !first), frames: fs, buf: *rng.pick(&[5usize, 6, 7, 16, 64, 4096]) });
            left -= n;
        } else {
            segs.push(Seg::Whole { ops: gen_stream_ops(rng, w, h, !first) });
            left -= 1;
        }
    }
    let owned_last = matches!(segs.last(), Some(Seg::Stream { .. })) && rng.bool();
    StreamCase { w, h, depth, color, frames, plays: if rng.bool() { 0 } else { gen_u32(rng) }, sep_def, enc_ops: gen_ops(rng, w, h, false), segs, owned_last }
}

// ---------------------------------------------------------------------------------------------
// generators
// ---------------------------------------------------------------------------------------------

const PAIRS: [(u8, u8); 15] = [(0, 1), (0, 2), (0, 4), (0, 8), (0, 16), (2, 8), (2, 16), (3, 1), (3, 2), (3, 4), (3, 8), (4, 8), (4, 16), (6, 8), (6, 16)];
const U32_EDGES: [u32; 13] = [0, 1, 2, 255, 256, 65535, 65536, 0x7FFF_FFFF, 0x8000_0000, 0xFFFF_FFFE, 0xFFFF_FFFF, 45455, 100000];

fn gen_u32(rng: &mut Rng) -> u32 {
    if rng.chance(1, 2) {
        *rng.pick(&U32_EDGES)
    } else {
        rng.next() as u32
    }
}
fn gen_u16(rng: &mut Rng) -> u16 {
    if rng.chance(1, 2) {
        *rng.pick(&[0u16, 1, 2, 30, 100, 255, 256, 0x7FFF, 0x8000, 0xFFFE, 0xFFFF])
    } else {
        rng.next() as u16
    }
}

fn gen_latin1(rng: &mut Rng, n: usize, nul: bool) -> String {
    let class = rng.below(4);
    (0..n)
        .map(|_| {
            let b = match class {
                0 => rng.range(0x20, 0x7E) as u8,
                1 => rng.byte(),
                2 => *rng.pick(&[0u8, 1, 0x7F, 0x80, 0x81, 0xA0, 0xFE, 0xFF, b'a']),
                _ => rng.range(0x80, 0xFF) as u8,
            };
            char::from(if b == 0 && !nul { 1 } else { b })
        })
        .collect()
}

fn gen_unicode(rng: &mut Rng, n: usize, nul: bool) -> String {
    let edges = [0x0u32, 0x1, 0x7F, 0x80, 0xFF, 0x100, 0x7FF, 0x800, 0xD7FF, 0xE000, 0xFFFD, 0xFFFF, 0x10000, 0x1F600, 0x10FFFF];
    (0..n)
        .map(|_| {
            let v = match rng.below(6) {
                0 | 1 => rng.range(0x20, 0x7E) as u32,
                2 => rng.range(0, 0x24F) as u32,
                3 => rng.range(0x800, 0xFFFF) as u32,
                4 => rng.range(0x10000, 0x10FFFF) as u32,
                _ => *rng.pick(&edges),
            };
            let c = char::from_u32(v).unwrap_or('\u{FFFD}');
            if c == '\0' && !nul {
                '\u{1}'
            } else {
                c
            }
        })
        .collect()
}

fn text_len(rng: &mut Rng) -> usize {
    match rng.below(10) {
        0 => 0,
        1 => 1,
        2..=6 => rng.usize(2, 60),
        7 | 8 => rng.usize(61, 800),
        _ => rng.usize(801, 5000),
    }
}

fn gen_txt(rng: &mut Rng, tail: bool) -> Txt {
    let kind = *rng.pick(&['t', 'z', 'i']);
    let kl = if rng.chance(1, 3) { *rng.pick(&[1usize, 78, 79]) } else { rng.usize(1, 79) };
    let n = text_len(rng);
    // separators (NUL) are legal inside text bodies
    let text = if kind == 'i' { gen_unicode(rng, n, true) } else { gen_latin1(rng, n, true) };
    let lang: String = if tail && rng.bool() { (0..rng.usize(1, 8)).map(|_| rng.range(0x21, 0x7E) as u8 as char).collect() } else { String::new() };
    let tkl = rng.usize(1, 12);
    let tk = if tail && rng.bool() { gen_unicode(rng, tkl, false) } else { String::new() };
    Txt { kind, kw: gen_latin1(rng, kl, false), text, flag: tail && rng.bool(), lang, tk, pre: tail && kind != 't' && rng.bool() }
}

fn blob(rng: &mut Rng, n: usize) -> Vec<u8> {
    if n > 4096 && rng.bool() {
        // compressible
        let pat = rng.bytes(97);
        (0..n).map(|i| pat[i % 97] ^ ((i / 977) as u8)).collect()
    } else {
        rng.class_bytes(n)
    }
}

fn blob_len(rng: &mut Rng, allow_zero: bool) -> usize {
    let n = match rng.below(12) {
        0 => 0,
        1 => 1,
        2 => 2,
        3..=6 => rng.usize(3, 300),
        7 => *rng.pick(&[32767usize, 32768, 32769]),
        8 => *rng.pick(&[65535usize, 65536, 65537]),
        _ => rng.usize(301, 9000),
    };
    if n == 0 && !allow_zero {
        1
    } else {
        n
    }
}

/// a legal configuration: every item valid for its colour type
fn gen_cfg(rng: &mut Rng, density: u64) -> Cfg {
    let (color, depth) = *rng.pick(&PAIRS);
    let mut c = Cfg::plain(rng.range(1, 5) as u32, rng.range(1, 4) as u32, depth, color);
    let on = |rng: &mut Rng| rng.chance(density, 8);
    let entries = rng.usize(1, (1usize << depth.min(8)).min(256));
    if color == 3 || (matches!(color, 2 | 6) && on(rng) && rng.chance(1, 3)) {
        c.palette = Some(rng.bytes(entries * 3));
    }
    if on(rng) {
        c.trns = match color {
            0 => Some(if depth == 16 || rng.chance(1, 4) { rng.bytes(2) } else { vec![0, rng.byte() & ((1u16 << depth) - 1) as u8] }),
            2 => Some(if depth == 16 || rng.chance(1, 4) { rng.bytes(6) } else { vec![0, rng.byte(), 0, rng.byte(), 0, rng.byte()] }),
            3 => {
                let n = rng.usize(1, entries);
                Some(rng.bytes(n))
            }
            _ => None,
        };
    }
    if on(rng) {
        c.phys = Some((gen_u32(rng), gen_u32(rng), rng.bool()));
    }
    if on(rng) {
        c.gamma = Some(if rng.chance(1, 4) { 45455 } else { gen_u32(rng) });
    }
    if on(rng) {
        c.chrm = Some(if rng.chance(1, 4) {
            [31270, 32900, 64000, 33000, 30000, 60000, 15000, 6000]
        } else {
            let mut a = [0u32; 8];
            for x in a.iter_mut() {
                *x = gen_u32(rng);
            }
            a
        });
    }
    if on(rng) && rng.bool() {
        c.srgb = Some(rng.below(4) as u8);
    }
    if on(rng) {
        let n = blob_len(rng, true);
        c.icc = Some(blob(rng, n));
    }
    if on(rng) {
        let n = blob_len(rng, false);
        c.exif = Some(blob(rng, n));
    }
    if on(rng) {
        for _ in 0..rng.usize(1, 4) {
            c.head.push(gen_txt(rng, false));
        }
    }
    if on(rng) && rng.bool() {
        for _ in 0..rng.usize(1, 3) {
            c.tail.push(gen_txt(rng, true));
        }
    }
    c.via_info = rng.below(128) as u32;
    c
}

fn gen_ops(rng: &mut Rng, cw: u32, ch: u32, geometry: bool) -> Vec<Op> {
    let n = rng.usize(0, 4);
    (0..n)
        .map(|_| {
            let (rw, rh) = (rng.range(0, cw as u64 + 1) as u32, rng.range(0, ch as u64 + 1) as u32);
            let (rx, ry) = (rng.range(0, cw as u64) as u32, rng.range(0, ch as u64) as u32);
            match rng.below(if geometry { 9 } else { 3 }) {
            0 => Op::Delay(gen_u16(rng), gen_u16(rng)),
            1 => Op::Blend(rng.below(2) as u8),
            2 => Op::Dispose(rng.below(3) as u8),
            3 | 4 => Op::Dim(*rng.pick(&[0, 1, cw, cw + 1, u32::MAX, rw]), *rng.pick(&[0, 1, ch, ch + 1, rh])),
            5 | 6 => Op::Pos(*rng.pick(&[0, 1, cw - 1, cw, u32::MAX, rx]), *rng.pick(&[0, 1, ch - 1, ch, ry])),
            7 => Op::RDim,
            _ => Op::RPos,
            }
        })
        .collect()
}

fn gen_anim(rng: &mut Rng, c: &mut Cfg) {
    c.w = rng.range(1, 6) as u32;
    c.h = rng.range(1, 5) as u32;
    let frames = rng.range(1, 4) as u32;
    let sep_def = rng.chance(1, 3);
    let images = frames as usize + sep_def as usize;
    let mut per_image = vec![];
    for k in 0..images {
        // the IDAT image must cover the canvas: geometry setters only for fdAT frames
        per_image.push(gen_ops(rng, c.w, c.h, k > 0));
    }
    c.anim = Some(Anim { frames, plays: if rng.bool() { 0 } else { gen_u32(rng) }, sep_def, enc_ops: gen_ops(rng, c.w, c.h, false), per_image });
}

fn refusal_item(rng: &mut Rng, what: &str, tail: bool) -> Txt {
    let mut t = gen_txt(rng, tail);
    t.pre = false;
    let nul_in = |rng: &mut Rng, s: &str| -> String {
        let mut cs: Vec<char> = s.chars().collect();
        let i = rng.usize(0, cs.len());
        cs.insert(i, '\0');
        cs.into_iter().collect()
    };
    match what {
        "kw-empty" => t.kw = String::new(),
        "kw-80" => t.kw = gen_latin1(rng, 80, false),
        "kw-long" => {
            let n = rng.usize(81, 400);
            t.kw = gen_latin1(rng, n, false)
        }
        "kw-non-latin1" => {
            let mut cs: Vec<char> = t.kw.chars().collect();
            let i = rng.usize(0, cs.len() - 1);
            cs[i] = *rng.pick(&['\u{100}', '\u{20AC}', '\u{1F600}']);
            t.kw = cs.into_iter().collect();
        }
        "text-non-latin1" => {
            if t.kind == 'i' {
                t.kind = *rng.pick(&['t', 'z']);
                t.text = gen_latin1(rng, 5, true);
            }
            let at = rng.usize(0, t.text.chars().count());
            let mut cs: Vec<char> = t.text.chars().collect();
            cs.insert(at, *rng.pick(&['\u{100}', '\u{20AC}', '\u{1F600}']));
            t.text = cs.into_iter().collect();
        }
        "lang-non-ascii" => {
            t.kind = 'i';
            t.text = gen_unicode(rng, 5, true);
            t.lang.push(*rng.pick(&['\u{80}', '\u{E9}', '\u{20AC}']));
        }
        "kw-nul" => {
            if t.kw.chars().count() == 79 {
                t.kw.pop();
            }
            t.kw = nul_in(rng, &t.kw.clone());
        }
        "lang-nul" => {
            t.kind = 'i';
            t.text = gen_unicode(rng, 5, true);
            t.lang = nul_in(rng, &t.lang.clone());
        }
        _ => {
            t.kind = 'i';
            t.text = gen_unicode(rng, 5, true);
            t.tk = nul_in(rng, &t.tk.clone());
        }
    }
    t
}

fn gen_cases(ctx: &mut Ctx) -> Vec<Case> {
    let mut rng = ctx.rng.fork(17);
    let quick = ctx.quick();
    let mut cases = vec![];
    // --- one item at a time, boundary values ---
    for &v in &U32_EDGES {
        let mut c = Cfg::plain(2, 2, 8, 2);
        c.gamma = Some(v);
        cases.push(Case::Header(c.clone()));
        c.gamma = None;
        c.phys = Some((v, U32_EDGES[(v as usize) % 13], v % 2 == 0));
        cases.push(Case::Header(c.clone()));
        c.phys = None;
        let mut a = [v; 8];
        a[(v % 8) as usize] = !v;
        c.chrm = Some(a);
        cases.push(Case::Header(c));
    }
    for r in 0..4u8 {
        for (g, ch) in [(None, None), (Some(45455), Some([31270, 32900, 64000, 33000, 30000, 60000, 15000, 6000])), (Some(45456), Some([31270, 32900, 64000, 33000, 30000, 60000, 15000, 6001]))] {
            let mut c = Cfg::plain(1, 1, 8, 6);
            c.srgb = Some(r);
            c.gamma = g;
            c.chrm = ch;
            c.icc = Some(vec![1, 2, 3]);
            c.via_info = if r % 2 == 0 { 127 } else { 0 };
            cases.push(Case::Header(c));
        }
    }
    for &(color, depth) in &PAIRS {
        let mut c = Cfg::plain(3, 2, depth, color);
        if color == 3 {
            c.palette = Some(rng.bytes(3 << depth.min(8).min(3)));
        }
        cases.push(Case::Header(c));
    }
    // --- blobs: every interesting length, ICC and EXIF ---
    let mut sizes: Vec<usize> = vec![0, 1, 2, 3, 100, 32767, 32768, 32769, 65535, 65536, 65537];
    if quick {
        sizes.extend([300 << 10, 600 << 10]);
    } else {
        sizes.extend([100_000, 200 << 10, 300 << 10, 400 << 10, 600 << 10, 700_001]);
    }
    for &n in &sizes {
        let mut c = Cfg::plain(1, 1, 8, 0);
        c.icc = Some(blob(&mut rng, n));
        cases.push(Case::Header(c));
        let mut c = Cfg::plain(1, 1, 8, 0);
        c.exif = Some(blob(&mut rng, n));
        cases.push(Case::Header(c));
    }
    // empty palette / transparency (one root cause with the empty EXIF block: zero-length chunks);
    // the value has to come back, whatever the decoder does today (see `probe_empty_chunks`)
    {
        let mut c = Cfg::plain(1, 1, 8, 2);
        c.palette = Some(vec![]);
        cases.push(Case::Header(c));
        let mut c = Cfg::plain(1, 1, 8, 3);
        c.palette = Some(vec![1, 2, 3]);
        c.trns = Some(vec![]);
        cases.push(Case::Header(c));
    }
    // palettes and transparency of every size
    for entries in [1usize, 2, 16, 255, 256] {
        for tl in [1usize, entries] {
            let mut c = Cfg::plain(2, 1, 8, 3);
            c.palette = Some(rng.bytes(entries * 3));
            c.trns = Some(rng.bytes(tl));
            cases.push(Case::Header(c));
        }
    }
    // tRNS that does not apply (model only): alpha colour types, short bodies
    for (color, depth, t) in [(4u8, 8u8, vec![0u8, 1]), (6, 8, vec![0, 1, 0, 2, 0, 3]), (0, 8, vec![7]), (2, 8, vec![1, 2, 3]), (4, 16, vec![1, 2, 3, 4])] {
        let mut c = Cfg::plain(1, 1, depth, color);
        c.trns = Some(t);
        cases.push(Case::Header(c));
    }
    // keyword lengths 1, 78, 79 for each kind, head and tail
    for kl in [1usize, 78, 79] {
        for kind in ['t', 'z', 'i'] {
            for tail in [false, true] {
                let mut c = Cfg::plain(1, 1, 8, 0);
                let mut t = gen_txt(&mut rng, tail);
                t.kind = kind;
                t.kw = gen_latin1(&mut rng, kl, false);
                t.text = if kind == 'i' { "t\u{e9}xt \u{20ac} \0 sep".into() } else { "t\u{e9}xt \0 sep \u{ff}".into() };
                if tail {
                    c.tail.push(t)
                } else {
                    c.head.push(t)
                }
                cases.push(Case::Header(c));
            }
        }
    }
    // large texts
    for _ in 0..ctx.n(1, 4) {
        let n = if quick { 200 << 10 } else { rng.usize(64 << 10, 600 << 10) };
        for kind in ['t', 'z', 'i'] {
            let mut c = Cfg::plain(1, 1, 8, 0);
            let text = if kind == 'i' { gen_unicode(&mut rng, n / 3, true) } else { gen_latin1(&mut rng, n, true) };
            c.head.push(Txt { kind, kw: "Big".into(), text, ..Default::default() });
            cases.push(Case::Header(c));
        }
    }
    // --- gamma and chromaticities given as floats (`ScaledFloat::new`, `SourceChromaticities::new`) ---
    {
        let specials: [f32; 36] = [
            0.0, -0.0, 1.0, 0.45455, 0.5, 2.2, 1.0 / 2.2, 0.3127, 0.329, 0.64, 0.33, 0.3, 0.6, 0.15, 0.06, 0.1, 0.2, 0.7, 1e-5, 0.99999e-5, 1e-6,
            f32::MIN_POSITIVE, f32::EPSILON, 42949.67, 42949.672, 42949.68, 42950.0, 21474.836, 1e9, f32::MAX, f32::INFINITY, f32::NEG_INFINITY, f32::NAN, -1.0, -1e-9, 167.77216,
        ];
        let float_of = |rng: &mut Rng| -> f32 {
            match rng.below(7) {
                // a multiple of 1/100000 (a candidate for an exact round trip), small or anywhere in the u32 range
                0 => rng.below(300_000) as f32 / 100000.0,
                1 => gen_u32(rng) as f32 / 100000.0,
                // just below / at / above a multiple of 1/100000
                2 => ((rng.below(200_000) as f64 + *rng.pick(&[-1e-3, -1e-6, 0.0, 1e-6, 1e-3, 0.5])) / 100000.0) as f32,
                // typical magnitudes, any mantissa
                3 => f32::from_bits(0x3c00_0000 + rng.below(0x0400_0000) as u32),
                // around the clamp at u32::MAX / 100000
                4 => 42949.0 + rng.below(2000) as f32 / 1000.0,
                5 => *rng.pick(&specials),
                // any bit pattern (negative, subnormal, huge, infinite, NaN)
                _ => f32::from_bits(rng.next() as u32),
            }
        };
        for (k, x) in specials.iter().enumerate() {
            let mut bits = [0u32; 9];
            bits[0] = x.to_bits();
            for j in 1..9 {
                bits[j] = specials[(k + 5 * j) % specials.len()].to_bits();
            }
            let mut c = Cfg::plain(2, 2, 8, 2).with_floats(bits);
            c.via_info = [0, 1 << 3, 1 << 4, 3 << 3][k % 4];
            cases.push(Case::Header(c));
        }
        for k in 0..ctx.n(400, 4000) {
            let mut bits = [0u32; 9];
            for b in bits.iter_mut() {
                *b = float_of(&mut rng).to_bits();
            }
            let mut c = Cfg::plain(1, 1, 8, *rng.pick(&[0u8, 2, 6])).with_floats(bits);
            c.via_info = [0, 1 << 3, 1 << 4, 3 << 3][k % 4];
            cases.push(Case::Header(c));
        }
    }
    // --- combinations ---
    for _ in 0..ctx.n(1500, 15000) {
        let d = rng.range(1, 7);
        cases.push(Case::Header(gen_cfg(&mut rng, d)));
    }
    // --- animations with per-frame setters ---
    for _ in 0..ctx.n(600, 6000) {
        let mut c = gen_cfg(&mut rng, 1);
        c.tail.clear();
        gen_anim(&mut rng, &mut c);
        cases.push(Case::Header(c));
    }
    // --- animations through StreamWriter(s), with the stream writer's setters between frames ---
    for _ in 0..ctx.n(600, 6000) {
        cases.push(Case::Stream(gen_stream_case(&mut rng)));
    }
    // --- refusals ---
    let whats = ["kw-empty", "kw-80", "kw-long", "kw-non-latin1", "text-non-latin1", "lang-non-ascii", "kw-nul", "lang-nul", "tk-nul"];
    for round in 0..ctx.n(24, 200) {
        for what in whats {
            let needs_tail = matches!(what, "lang-non-ascii" | "lang-nul" | "tk-nul");
            let in_head = !needs_tail && (round % 2 == 0);
            let mut c = gen_cfg(&mut rng, 2);
            if round % 4 != 0 {
                c.via_info &= !(1 << 6); // texts through add_*_chunk (else: through `Info` + with_info)
            }
            c.tail.iter_mut().for_each(|t| t.pre = false);
            let item = refusal_item(&mut rng, what, !in_head);
            let bad = if in_head {
                let at = rng.usize(0, c.head.len());
                c.head.insert(at, item);
                at
            } else {
                let at = rng.usize(0, c.tail.len());
                c.tail.insert(at, item);
                at
            };
            cases.push(Case::Refuse { cfg: c, in_head, bad, what: what.to_string() });
        }
    }
    // --- iTXt: compressed payload, flag cleared ---
    for raw in [&[0xFFu8][..], &[0xC3, 0x28], &[0xED, 0xA0, 0x80], &[0x80], b"plain", "ok \u{e9}\u{20ac}".as_bytes(), &[]] {
        cases.push(Case::Inflated { raw: raw.to_vec() });
    }
    for _ in 0..ctx.n(6, 40) {
        let n = rng.usize(1, 40);
        let raw = if rng.bool() { rng.bytes(n) } else { gen_unicode(&mut rng, n, true).into_bytes() };
        cases.push(Case::Inflated { raw });
    }
    cases
}

// ---------------------------------------------------------------------------------------------
// driver
// ---------------------------------------------------------------------------------------------

fn prepare(c: &Case, rng: &mut Rng) -> Prepared {
    match c {
        Case::Header(cfg) => prepare_header(cfg, rng),
        Case::Refuse { cfg, in_head, bad, .. } => prepare_refuse(cfg, *in_head, *bad, rng),
        Case::Inflated { raw } => prepare_inflated(raw),
        Case::Stream(c) => prepare_stream(c, rng),
    }
}

fn judge(c: &Case, p: &Prepared, ans: &[String]) -> Option<Fail> {
    match c {
        Case::Header(cfg) => judge_header(cfg, p, ans),
        Case::Refuse { cfg, in_head, bad, what } => judge_refuse(cfg, *in_head, *bad, what, p, ans),
        Case::Inflated { raw } => judge_inflated(raw, p, ans),
        Case::Stream(c) => judge_stream(c, p, ans),
    }
}

fn run_one(c: &Case, rng: &mut Rng) -> Option<Fail> {
    let p = prepare(c, rng);
    let ans = model::ask_one(&p.lines);
    judge(c, &p, &ans)
}

/// make a failing configuration smaller while it keeps failing with the same class
fn shrink(c: &Case, class: &str, rng: &Rng) -> Case {
    let cfg = match c {
        Case::Header(cfg) => cfg.clone(),
        _ => return c.clone(),
    };
    let still = |x: &Cfg| -> bool {
        let mut r = rng.clone();
        let v = run_one(&Case::Header(x.clone()), &mut r);
        NOTES.with(|n| n.borrow_mut().clear());
        matches!(v, Some((_, k, _)) if k == class)
    };
    let mut cur = cfg;
    let mut budget = 40;
    loop {
        let mut cands: Vec<Cfg> = vec![];
        macro_rules! drop_field {
            ($f:ident) => {
                if cur.$f.is_some() {
                    let mut x = cur.clone();
                    x.$f = None;
                    cands.push(x);
                }
            };
        }
        drop_field!(trns);
        drop_field!(phys);
        drop_field!(gamma);
        drop_field!(chrm);
        drop_field!(srgb);
        drop_field!(icc);
        drop_field!(exif);
        drop_field!(anim);
        if cur.color != 3 {
            drop_field!(palette);
        }
        for k in 0..cur.head.len() {
            let mut x = cur.clone();
            x.head.remove(k);
            cands.push(x);
        }
        for k in 0..cur.tail.len() {
            let mut x = cur.clone();
            x.tail.remove(k);
            cands.push(x);
        }
        if cur.via_info != 0 {
            let mut x = cur.clone();
            x.via_info = 0;
            cands.push(x);
        }
        let mut progressed = false;
        for x in cands {
            if budget == 0 {
                return Case::Header(cur);
            }
            budget -= 1;
            if still(&x) {
                cur = x;
                progressed = true;
                break;
            }
        }
        if !progressed {
            return Case::Header(cur);
        }
    }
}

fn size_class(n: usize) -> &'static str {
    match n {
        0 => "0",
        1..=300 => "1-300",
        301..=32767 => "301-32767",
        32768..=65537 => "32768-65537",
        _ => ">64K",
    }
}

fn record(ctx: &mut Ctx, c: &Case) {
    match c {
        Case::Header(cfg) => {
            ctx.rep.count("case", if cfg.anim.is_some() { "animated" } else if cfg.floats.is_some() { "header, gamma/chromaticities as floats (floats are outside the model)" } else { "header" });
            ctx.rep.count("colour/depth", &format!("{}/{}", cfg.color, cfg.depth));
            let mut n = 0;
            let mut item = |ctx: &mut Ctx, present: bool, name: &str| {
                if present {
                    ctx.rep.count("item", name);
                    n += 1;
                }
            };
            item(ctx, cfg.palette.is_some(), "PLTE");
            item(ctx, cfg.trns.is_some(), "tRNS");
            item(ctx, cfg.phys.is_some(), "pHYs");
            item(ctx, cfg.gamma.is_some(), "gAMA");
            item(ctx, cfg.chrm.is_some(), "cHRM");
            item(ctx, cfg.srgb.is_some(), "sRGB");
            item(ctx, cfg.icc.is_some(), "iCCP");
            item(ctx, cfg.exif.is_some(), "eXIf");
            item(ctx, cfg.head.iter().any(|t| t.kind == 't') || cfg.tail.iter().any(|t| t.kind == 't'), "tEXt");
            item(ctx, cfg.head.iter().any(|t| t.kind == 'z') || cfg.tail.iter().any(|t| t.kind == 'z'), "zTXt");
            item(ctx, cfg.head.iter().any(|t| t.kind == 'i') || cfg.tail.iter().any(|t| t.kind == 'i'), "iTXt");
            item(ctx, cfg.anim.is_some(), "acTL+fcTL");
            ctx.rep.count("items per file", &n.to_string());
            ctx.rep.count("sRGB x gAMA", &format!("{}/{}", if cfg.srgb.is_some() { "sRGB" } else { "no sRGB" }, match cfg.gamma { None => "none", Some(45455) => "substitute", Some(_) => "other" }));
            if let Some(b) = &cfg.icc {
                ctx.rep.count("ICC length", size_class(b.len()));
            }
            if let Some(b) = &cfg.exif {
                ctx.rep.count("EXIF length", size_class(b.len()));
            }
            for t in cfg.head.iter().chain(cfg.tail.iter()) {
                ctx.rep.count("keyword length", &match t.kw.chars().count() { 1 => "1".to_string(), 78 => "78".into(), 79 => "79".into(), _ => "2-77".into() });
            }
            if let Some(a) = &cfg.anim {
                ctx.rep.count("frames/sep_def", &format!("{}/{}", a.frames, a.sep_def));
                for op in a.per_image.iter().flatten().chain(a.enc_ops.iter()) {
                    ctx.rep.count("setter", op.tok().split('/').next().unwrap_or(""));
                }
            }
        }
        Case::Refuse { what, in_head, .. } => {
            ctx.rep.count("case", "refusal");
            ctx.rep.count("refusal", &format!("{}/{}", what, if *in_head { "add_chunk+write_header" } else { "write_text_chunk" }));
        }
        Case::Stream(c) => {
            ctx.rep.count("case", "stream-animation");
            ctx.rep.count("stream frames/sep_def", &format!("{}/{}", c.frames, c.sep_def));
            let nstream = c.segs.iter().filter(|g| matches!(g, Seg::Stream { .. })).count();
            ctx.rep.count("stream writers per file / whole images", &format!("{}/{}", nstream, c.segs.len() - nstream));
            ctx.rep.count("last stream writer", if c.owned_last { "into_stream_writer" } else { "stream_writer (borrowed)" });
            for g in &c.segs {
                if let Seg::Stream { frames, buf, .. } = g {
                    ctx.rep.count("stream chunk buffer", &buf.to_string());
                    for f in frames {
                        for op in &f.ops {
                            ctx.rep.count("stream setter", op.tok().split('/').next().unwrap_or(""));
                        }
                        if !f.ops.is_empty() {
                            ctx.rep.count("stream setters called", match f.split_permille { 0 => "before the image's data", 1000 => "after the image's last byte", _ => "inside the image's data" });
                        }
                    }
                }
            }
        }
        Case::Inflated { raw } => {
            ctx.rep.count("case", "itxt-inflated");
            ctx.rep.count("inflated payload", if std::str::from_utf8(raw).is_ok() { "valid UTF-8" } else { "not UTF-8" });
        }
    }
}

pub fn run(ctx: &mut Ctx) {
    ctx.rep.rule = "sampled: configurations of the public Encoder API (with_info and every setter; 15 colour/depth pairs; \
        u32/u16 fields at {0,1,2,255,256,65535,65536,2^31-1,2^31,2^32-2,2^32-1,45455,100000} and random; all enum members; \
        ICC/EXIF blobs of 0,1,2,3,100,32767..32769,65535..65537 bytes, 300 KiB and 600 KiB (thorough: more); palettes 1..256 entries; \
        tEXt/zTXt/iTXt with keyword lengths 1/78/79/random, texts over all of Latin-1 / Unicode incl. NUL, up to 200 KiB (thorough 600 KiB), \
        written by add_*_chunk, through Info, and by write_text_chunk after the image (iTXt with flag/language/translated keyword, pre-compressed or not); \
        sRGB present/absent x gAMA/cHRM none/substitute/other x ICC; animations of 1..4 frames with or without a separate default image and random \
        sequences of the seven frame setters (in and out of bounds)) -> real Encoder -> bytes -> real Decoder (read_info, all frames, finish) -> accessors \
        vs the values supplied; chunk list and bodies vs `c17 header`; Lean parsers on the real chunks (`c17 decode`) and `c17 expect` vs the real Info; \
        the model's header read by the real decoder; refusals (9 kinds of unrepresentable text x head/tail): error class, sink unchanged / no chunk of the item; \
        animations of 2..5 frames written through StreamWriter(s) (stream_writer / into_stream_writer, chunk buffers 5..4096, mixed with whole-image frames) \
        with all seven StreamWriter setters called before / inside / after an image's data: every frame's fcTL read back, all nine fields, vs the documented semantics and `c17 fcstream`; \
        iTXt with a compressed payload and the flag cleared; gamma and chromaticities given as floats (ScaledFloat::new / SourceChromaticities::new: multiples of 1/100000, values next to them, random mantissas, \
        the clamp at u32::MAX/100000, negative / subnormal / infinite / NaN): the scaled integers, ScaledFloat::exact / in_range and into_value() of the values read back against the harness's own f64/integer arithmetic \
        (floats are outside the Lean model, which is asked about the scaled integers). non-trivial = at least one metadata item beyond IHDR; distinct = hash of the whole case"
        .into();
    let pre = model::ask_one(&["c17 consts".to_string()]);
    let sub = crate_substitutes();
    SUBST.with(|x| *x.borrow_mut() = sub);
    let probe = probe_empty_chunks();
    PARSES_EMPTY.with(|x| x.set(probe));
    ctx.rep.count("real decoder on an empty eXIf chunk", if probe { "parsed: Some([])" } else { "not parsed: None" });
    let want = format!("{} {} 2147483647", sub.0, sub.1.iter().map(|x| x.to_string()).collect::<Vec<_>>().join(","));
    let (consts, switch) = pre[0].rsplit_once(" parseEmpty=").unwrap_or((&pre[0], "?"));
    ctx.rep.evals(2);
    if consts != want {
        ctx.rep.violation("model", "model/consts", &format!("model constants {} but the crate's accessors give {}", consts, want), J::obj().set("op", J::s("consts")));
    }
    if switch != if probe { "1" } else { "0" } {
        ctx.rep.violation(
            "model",
            "model/parse-empty-switch",
            &format!("the real decoder {} chunks of length zero, but EncodeMeta.parseEmptyChunks = {} in the model: flip that definition", if probe { "parses" } else { "does not parse" }, switch),
            J::obj().set("op", J::s("consts")),
        );
    }
    ctx.rep.notes.push("model codec: stored-block zlib + the Lean inflater (payload bytes are never compared, only what they inflate to)".into());
    let cases = gen_cases(ctx);
    // phase 1: the real crate
    let mut rngs = vec![];
    let mut prepared = vec![];
    for (k, c) in cases.iter().enumerate() {
        let r = ctx.rng.fork(1000 + k as u64);
        rngs.push(r.clone());
        let mut r2 = r;
        prepared.push(prepare(c, &mut r2));
        NOTES.with(|n| n.borrow_mut().clear());
    }
    // phase 2: the model, in one batch
    let mut lines = vec![];
    let mut spans = vec![];
    for p in &prepared {
        spans.push((lines.len(), p.lines.len()));
        lines.extend(p.lines.iter().cloned());
    }
    let answers = model::ask(&lines);
    // phase 3: verdicts
    for (k, c) in cases.iter().enumerate() {
        let (start, n) = spans[k];
        ctx.rep.eval(c.nontrivial(), c.key());
        ctx.rep.model_compared += 1;
        record(ctx, c);
        // a defect of the harness itself must not take the run down: it is reported with the case
        let verdict = match guarded(|| judge(c, &prepared[k], &answers[start..start + n])) {
            Ok(v) => v,
            Err(p) => modelf("harness/judge-panic", format!("the harness panicked while judging: {}", p)),
        };
        let notes: Vec<(String, String)> = NOTES.with(|n| n.borrow_mut().drain(..).collect());
        for (h, key) in notes {
            ctx.rep.count(&h, &key);
        }
        if let Some((kind, class, what)) = verdict {
            let small = shrink(c, &class, &rngs[k]);
            let mut j = small.json();
            j.put("rng", J::s(&format!("{:x}", rngs[k].0)));
            ctx.rep.violation(kind, &class, &what, j);
        }
    }
    for c in cases.iter().filter(|c| matches!(c, Case::Header(cfg) if cfg.icc.as_ref().map(|b| b.len() < 40).unwrap_or(true) && cfg.head.iter().all(|t| t.text.len() < 20) && cfg.tail.is_empty() && cfg.exif.as_ref().map(|b| b.len() < 40).unwrap_or(true))).step_by(41).take(6) {
        ctx.rep.sample(c.json());
    }
}

pub fn replay(ctx: &mut Ctx, case: &J) {
    SUBST.with(|x| *x.borrow_mut() = crate_substitutes());
    PARSES_EMPTY.with(|x| x.set(probe_empty_chunks()));
    if let Some(c) = Case::from_json(case) {
        let mut rng = match case.get("rng").and_then(|r| r.as_str()).and_then(|s| u64::from_str_radix(s, 16).ok()) {
            Some(s) => Rng(s),
            None => ctx.rng.fork(1),
        };
        ctx.rep.eval(true, c.key());
        if let Some((kind, class, what)) = run_one(&c, &mut rng) {
            ctx.rep.violation(kind, &class, &what, c.json());
        }
    }
}
