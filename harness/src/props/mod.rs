use crate::json::J;
use crate::report::Ctx;

pub mod c01;
pub mod c03;
pub mod c04;
pub mod c04_lazy;
pub mod c06;
pub mod c06_datapath;
pub mod c07;
pub mod c08;
pub mod c10;
pub mod c11;
pub mod c14;
pub mod c14_enc;
pub mod c15;
pub mod c12;
pub mod c16;
pub mod c17;
pub mod c19;
pub mod c20;
pub mod reader_props;

pub fn run(prop: &str, ctx: &mut Ctx) -> bool {
    match prop {
        "C01" => c01::run(ctx),
        "C02" => reader_props::run_c02(ctx),
        "C03" => c03::run(ctx),
        "C04" => c04::run(ctx),
        "C05" => reader_props::run_c05(ctx),
        "C06" => c06::run(ctx),
        "C07" => c07::run(ctx),
        "C08" => c08::run(ctx),
        "C09" => reader_props::run_c09(ctx),
        "C10" => c10::run(ctx),
        "C11" => c11::run(ctx),
        "C13" => reader_props::run_c13(ctx),
        "C14" => c14::run(ctx),
        "C15" => c15::run(ctx),
        "C16" => c16::run(ctx),
        "C12" => c12::run(ctx),
        "C17" => c17::run(ctx),
        "C19" => c19::run(ctx),
        "C18" => reader_props::run_c18(ctx),
        "C20" => c20::run(ctx),
        _ => return false,
    }
    true
}

/// Re-run the stored case of a replay file; a still-failing case is reported as a violation again.
pub fn replay(prop: &str, ctx: &mut Ctx, file: &J) {
    let case = file.get("case").cloned().unwrap_or(J::Null);
    match prop {
        "C01" => c01::replay(ctx, &case),
        "C03" => c03::replay(ctx, &case),
        "C04" => c04::replay(ctx, &case),
        "C06" => c06::replay(ctx, &case),
        "C07" => c07::replay(ctx, &case),
        "C08" => c08::replay(ctx, &case),
        "C10" => c10::replay(ctx, &case),
        "C11" => c11::replay(ctx, &case),
        "C14" => c14::replay(ctx, &case),
        "C15" => c15::replay(ctx, &case),
        "C16" => c16::replay(ctx, &case),
        "C12" => c12::replay(ctx, &case),
        "C17" => c17::replay(ctx, &case),
        "C19" => c19::replay(ctx, &case),
        "C20" => c20::replay(ctx, &case),
        "C02" | "C05" | "C09" | "C13" | "C18" => reader_props::replay(prop, ctx, &case),
        _ => {}
    }
}
