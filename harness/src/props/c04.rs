//! C04 — decoding result is independent of how the input bytes are delivered.
//!
//! Every file is decoded under many delivery schedules through (a) `StreamingDecoder::update`
//! (projected event trace, `info()`, image data per flush, error class) and (b) `Reader` behind a
//! piece-limiting `BufRead` (header, metadata, per-frame pixels or error class).  Oracle: all
//! schedules give the same canonical result (a relation between runs of the implementation).
//! Model: for builder-generated files the Lean framing model's single answer equals the streaming result.
use crate::canon::*;
use crate::corpus;
use crate::iowrap::PieceReader;
use crate::json::J;
use crate::model;
use crate::report::Ctx;
use crate::rng::{fnv64, Rng};
use crate::util::{guarded, hex, unhex};

/// run `StreamingDecoder::update` over the pieces; canonical `events | info | err`
pub fn run_streaming(file: &[u8], cuts: &[usize], opts: &[bool; 5]) -> String {
    run_streaming_route(file, cuts, opts, false)
}

/// the same; `via_setters`: the options are installed on a `StreamingDecoder::new()` through its public setters
/// (`set_ignore_adler32`, `set_ignore_crc`, `set_ignore_text_chunk`, `set_ignore_iccp_chunk`, `set_skip_ancillary_crc_failures`)
pub fn run_streaming_route(file: &[u8], cuts: &[usize], opts: &[bool; 5], via_setters: bool) -> String {
    let file = file.to_vec();
    let cuts = cuts.to_vec();
    let opts = *opts;
    match guarded(move || {
        let mut dec = if via_setters {
            match streaming_via_setters(&opts) {
                Some(d) => d,
                None => return "SETTER-REFUSED".to_string(),
            }
        } else {
            png::StreamingDecoder::new_with_options(decode_options(&opts))
        };
        let mut image_data: Vec<u8> = vec![];
        let mut flushed_at = 0usize;
        let mut evs: Vec<String> = vec![];
        let mut err = "ok".to_string();
        let mut bounds = vec![0usize];
        bounds.extend(cuts.iter().copied().filter(|&c| c > 0 && c < file.len()));
        bounds.push(file.len());
        bounds.dedup();
        let mut calls = 0usize;
        'outer: for w in bounds.windows(2) {
            let mut buf = &file[w[0]..w[1]];
            while !buf.is_empty() {
                calls += 1;
                if calls > crate::util::spin_budget(file.len()) {
                    // the decoder makes no progress (C07's business); never hang the harness on it
                    err = "SPIN".to_string();
                    break 'outer;
                }
                match dec.update(buf, &mut image_data) {
                    Ok((n, ev)) => {
                        if let Some(s) = event_canon(&ev, &image_data[flushed_at..]) {
                            evs.push(s);
                        }
                        if matches!(ev, png::Decoded::ImageDataFlushed) {
                            flushed_at = image_data.len();
                        }
                        buf = &buf[n..];
                    }
                    Err(e) => {
                        err = err_class(&e);
                        break 'outer;
                    }
                }
            }
        }
        let info = dec.info().map(info_canon).unwrap_or("noinfo".into());
        let _ = calls;
        format!("{} | {} | {}", evs.join(" "), info, err)
    }) {
        Ok(s) => s,
        Err(p) => format!("PANIC {}", p),
    }
}

/// decode through `Decoder`/`Reader::next_frame` behind a piece-limited reader; canonical per-frame results
pub fn run_reader(file: &[u8], cuts: &[usize], opts: &[bool; 5], transform: png::Transformations) -> String {
    run_reader_route(file, cuts, opts, transform, false)
}

/// the same; `via_setters` (requires `setters_representable(opts)`): the options are installed on a `Decoder::new(..)` through
/// the public `Decoder::ignore_checksums`, `set_ignore_text_chunk`, `set_ignore_iccp_chunk`
pub fn run_reader_route(file: &[u8], cuts: &[usize], opts: &[bool; 5], transform: png::Transformations, via_setters: bool) -> String {
    run_reader_route3(file, cuts, opts, transform, via_setters as u8)
}

/// ... route 2: through the public setters, called AFTER `Decoder::read_header_info()` has read the IHDR chunk (the switches are
/// documented to take effect for what is read afterwards; only `set_ignore_adler32` is tied to the start of decompression)
pub fn run_reader_route3(file: &[u8], cuts: &[usize], opts: &[bool; 5], transform: png::Transformations, route: u8) -> String {
    let file = file.to_vec();
    let cuts = cuts.to_vec();
    let opts = *opts;
    let via_setters = route >= 1;
    match guarded(move || {
        let rd = PieceReader::new(file, cuts);
        let mut dec = if via_setters && setters_representable(&opts) {
            let mut d = png::Decoder::new(rd);
            if route == 2 {
                if let Err(e) = d.read_header_info() {
                    return format!("read_info:{}", err_class(&e));
                }
            }
            apply_decoder_setters(&mut d, &opts);
            d
        } else {
            png::Decoder::new_with_options(rd, decode_options(&opts))
        };
        dec.set_transformations(transform);
        let mut out = String::new();
        let mut reader = match dec.read_info() {
            Ok(r) => r,
            Err(e) => return format!("read_info:{}", err_class(&e)),
        };
        out.push_str(&format!("hdr[{}] ", info_canon(reader.info())));
        let size = reader.output_buffer_size();
        if size > (1 << 28) {
            return out + "too-large-for-harness";
        }
        let mut buf = vec![0u8; size];
        let mut failed = false;
        for k in 0..40 {
            match reader.next_frame(&mut buf) {
                Ok(oi) => {
                    let fc = reader.info().frame_control.map(|f| f.sequence_number as i64).unwrap_or(-1);
                    out.push_str(&format!("f{}:ok({}x{},{},{:016x},fc{}) ", k, oi.width, oi.height, oi.line_size, fnv64(&buf[..oi.buffer_size()]), fc));
                    for b in buf.iter_mut() {
                        *b = 0;
                    }
                }
                Err(e) => {
                    out.push_str(&format!("f{}:err({}) ", k, err_class(&e)));
                    // `Parameter` here is the regular end-of-image report
                    failed = !matches!(e, png::DecodingError::Parameter(_));
                    break;
                }
            }
        }
        // what follows the first failure is C18's business (it must be an error), not compared here
        if failed {
            out.push_str("fin:skipped ");
        } else {
        match reader.finish() {
            Ok(()) => out.push_str("fin:ok "),
            Err(e) => out.push_str(&format!("fin:err({}) ", err_class(&e))),
        }
        }
        out.push_str(&format!("end[{}]", info_canon(reader.info())));
        out
    }) {
        Ok(s) => s,
        Err(p) => format!("PANIC {}", p),
    }
}

/// `read_info` + first frame + `finish` under a small limit; canonical outcome only
pub fn run_reader_limited(file: &[u8], cuts: &[usize], limit: usize) -> String {
    let file = file.to_vec();
    let cuts = cuts.to_vec();
    match guarded(move || {
        let rd = PieceReader::new(file, cuts);
        let mut dec = png::Decoder::new_with_limits(rd, png::Limits { bytes: limit });
        let _ = &mut dec;
        let mut reader = match dec.read_info() {
            Ok(r) => r,
            Err(e) => return format!("read_info:{}", err_class(&e)),
        };
        let size = reader.output_buffer_size();
        if size > (1 << 26) {
            return "too-large".to_string();
        }
        let mut buf = vec![0u8; size];
        let f = match reader.next_frame(&mut buf) {
            Ok(oi) => format!("ok({:016x})", fnv64(&buf[..oi.buffer_size()])),
            Err(e) => format!("err({})", err_class(&e)),
        };
        let fin = if f.starts_with("ok") { match reader.finish() { Ok(()) => "ok".to_string(), Err(e) => err_class(&e) } } else { "skipped".to_string() };
        format!("{} fin:{} {}", f, fin, info_canon(reader.info()).len())
    }) {
        Ok(s) => s,
        Err(p) => format!("PANIC {}", p),
    }
}

/// offsets of every 4-byte field boundary (length/type/CRC/sequence number) of a well-framed file
pub fn field_offsets(file: &[u8]) -> Vec<usize> {
    let mut v = vec![4, 8];
    let mut p = 8usize;
    while p + 12 <= file.len() {
        let len = u32::from_be_bytes([file[p], file[p + 1], file[p + 2], file[p + 3]]) as usize;
        v.push(p + 4);
        v.push(p + 8);
        if &file[p + 4..p + 8] == b"fdAT" {
            v.push(p + 12);
        }
        if p + 12 + len > file.len() {
            break;
        }
        v.push(p + 8 + len);
        v.push(p + 12 + len);
        p += 12 + len;
    }
    v
}

pub fn schedules(file: &[u8], rng: &mut Rng, every_cut_limit: usize, nrandom: usize) -> Vec<Vec<usize>> {
    let n = file.len();
    let mut s: Vec<Vec<usize>> = vec![vec![]];
    if n <= 20000 {
        s.push((1..n).collect()); // byte by byte
    }
    if n <= every_cut_limit {
        for c in 1..n {
            s.push(vec![c]);
        }
    }
    // cuts at -3..+3 around every field boundary
    let fo = field_offsets(file);
    let mut around: Vec<usize> = vec![];
    for &o in &fo {
        for d in -3i64..=3 {
            let c = o as i64 + d;
            if c > 0 && (c as usize) < n {
                around.push(c as usize);
            }
        }
    }
    around.sort();
    around.dedup();
    if !around.is_empty() {
        s.push(around.clone());
        for _ in 0..3 {
            let k = rng.usize(1, around.len().min(6));
            let mut c: Vec<usize> = (0..k).map(|_| *rng.pick(&around)).collect();
            c.sort();
            c.dedup();
            s.push(c);
        }
    }
    for _ in 0..nrandom {
        // geometric piece sizes
        let mean = *rng.pick(&[1usize, 2, 3, 7, 50, 1000, 33000]);
        let mut c = vec![];
        let mut p = 0usize;
        loop {
            p += 1 + rng.usize(0, 2 * mean);
            if p >= n {
                break;
            }
            c.push(p);
        }
        s.push(c);
    }
    s
}

fn cuts_str(c: &[usize]) -> String {
    if c.is_empty() { "-".into() } else { c.iter().map(|x| x.to_string()).collect::<Vec<_>>().join(",") }
}

fn case_json(file: &[u8], a: &[usize], b: &[usize], opts: &[bool; 5], what: &str) -> J {
    J::obj().set("file", J::s(&hex(file))).set("cuts_a", J::s(&cuts_str(a))).set("cuts_b", J::s(&cuts_str(b)))
        .set("opts", J::s(&opts_string(opts))).set("path", J::s(what))
}

fn parse_cuts(s: &str) -> Vec<usize> {
    if s == "-" { vec![] } else { s.split(',').filter_map(|x| x.parse().ok()).collect() }
}

/// first error class or "ok" of a canonical streaming result
fn stream_class(r: &str) -> &str {
    r.rsplit(" | ").next().unwrap_or("?")
}

pub fn check_file(ctx: &mut Ctx, f: &corpus::TestFile, rng: &mut Rng, every_cut_limit: usize, nrandom: usize, model_ans: Option<&str>) {
    let opts = DEFAULT_OPTS;
    let scheds = schedules(&f.bytes, rng, every_cut_limit, nrandom);
    let base_s = run_streaming(&f.bytes, &[], &opts);
    let base_r = run_reader(&f.bytes, &[], &opts, png::Transformations::IDENTITY);
    ctx.rep.count("source", &f.source);
    ctx.rep.count("streaming result", stream_class(&base_s));
    ctx.rep.count("schedules per file", &(match scheds.len() { 0..=9 => "<10", 10..=99 => "10-99", 100..=999 => "100-999", _ => ">=1000" }).to_string());
    for sc in &scheds {
        let nontrivial = !sc.is_empty() && f.bytes.len() > 8;
        ctx.rep.eval(nontrivial, fnv64(&f.bytes) ^ fnv64(cuts_str(sc).as_bytes()));
        let s = run_streaming(&f.bytes, sc, &opts);
        if s != base_s {
            let key = if s.starts_with("PANIC") || base_s.starts_with("PANIC") { "streaming/panic" } else if stream_class(&s) != stream_class(&base_s) { "streaming/error-differs" } else { "streaming/trace-differs" };
            ctx.rep.violation("oracle", key, &format!("StreamingDecoder results differ between two deliveries of the same bytes: `{}` vs `{}`", trunc(&base_s), trunc(&s)),
                case_json(&f.bytes, &[], sc, &opts, "streaming"));
        }
        // the Reader path is slower: every other schedule in the per-cut sweep
        if sc.len() != 1 || sc[0] % 3 == 0 {
            let r = run_reader(&f.bytes, sc, &opts, png::Transformations::IDENTITY);
            if r != base_r {
                let key = if r.starts_with("PANIC") || base_r.starts_with("PANIC") { "reader/panic" } else { "reader/result-differs" };
                ctx.rep.violation("oracle", key, &format!("Reader results differ between two deliveries of the same bytes: `{}` vs `{}`", trunc(&base_r), trunc(&r)),
                    case_json(&f.bytes, &[], sc, &opts, "reader"));
            }
        }
    }
    if let Some(ans) = model_ans {
        ctx.rep.model_compared += 1;
        // the model's answer ends in ` | <calls>`
        let m = ans.rsplitn(2, " | ").last().unwrap_or("");
        if !same_modulo_error_detail(m, &base_s) {
            if f.model_domain {
                ctx.rep.violation("model", &format!("framing/{}", f.source), &format!("framing model `{}` vs StreamingDecoder `{}`", trunc(m), trunc(&base_s)),
                    case_json(&f.bytes, &[], &[], &opts, "model"));
            } else {
                ctx.rep.model_gaps += 1;
                if std::env::var("VERIF_DEBUG").is_ok() {
                    eprintln!("GAP {} len {}\n  model {}\n  impl  {}\n  file {}", f.source, f.bytes.len(), trunc(m), trunc(&base_s), hex(&f.bytes[..f.bytes.len().min(3000)]));
                }
            }
        }
    }
}

/// model prints `format(<why>)`, the implementation's class is `format`
pub fn same_modulo_error_detail(model: &str, imp: &str) -> bool {
    let strip = |s: &str| -> String {
        match s.rfind(" | ") {
            Some(i) => {
                let (a, b) = s.split_at(i + 3);
                let b = if b.starts_with("format(") { "format" } else { b };
                format!("{}{}", a, b)
            }
            None => s.to_string(),
        }
    };
    strip(model) == strip(imp)
}

fn trunc(s: &str) -> String {
    crate::util::shorten(s, 200, 180)
}

pub fn run(ctx: &mut Ctx) {
    ctx.rep.rule = "files: reference-built stills and APNGs (valid; model domain), byte-mutated copies, the upstream fuzz corpus and tests/*.png (oracle domain); \
        schedules per file: whole, byte-by-byte, every single cut point (small files), all cuts at -3..+3 around every length/type/CRC/sequence-number field, random subsets of those, \
        random multi-cut schedules with geometric piece sizes (1 .. 33000); each (file, schedule) is one evaluation run through StreamingDecoder::update and (most) through Reader behind a piece-limited BufRead; \
        non-trivial = at least one cut; distinct = hash(file, schedule)".into();
    let mut rng = ctx.rng.fork(1);
    let files = corpus::mixed_files(&mut rng, ctx.n(150, 400), ctx.n(100, 300), ctx.n(300, 1416));
    let lines: Vec<String> = files.iter().map(|f| format!("frm run {} max {} -", opts_string(&DEFAULT_OPTS), hex(&f.bytes))).collect();
    let answers = model::ask(&lines);
    // large files: matches at the maximum deflate distance across window compactions; chunks beyond the 32 KiB buffer
    let mut big: Vec<corpus::TestFile> = vec![];
    {
        let mut r = rng.fork(4242);
        let rows8: Vec<Vec<u8>> = (0..8).map(|_| r.bytes(4095)).collect();
        let h = 70u32;
        let img = crate::refpng::Img { color: 0, depth: 8, w: 4095, h, pixels: (0..h as usize).flat_map(|y| rows8[y % 8].clone()).collect() };
        let (raw, _) = crate::refpng::scanlines(&img, false, &crate::refpng::Filters::Uniform(0), &mut r);
        let z = crate::refpng::fixed_huffman_zlib(&raw, 32768, 258);
        let cs = vec![crate::refpng::ihdr(4095, h, 8, 0, 0), crate::refpng::RawChunk::new(b"IDAT", z), crate::refpng::RawChunk::new(b"IEND", vec![])];
        big.push(corpus::TestFile { bytes: crate::refpng::serialize(&cs), source: "window-boundary".into(), model_domain: false });
        for len in [32768usize, 40_000, 70_000] {
            let small = crate::refpng::zlib_stream(&[0, 1, 2, 3], &crate::refpng::Deflater::Stored(10));
            let cs = vec![crate::refpng::ihdr(3, 1, 8, 0, 0), crate::refpng::RawChunk::new(b"eXIf", r.bytes(len)), crate::refpng::RawChunk::new(b"prVt", r.bytes(len + 1)),
                crate::refpng::RawChunk::new(b"IDAT", small), crate::refpng::RawChunk::new(b"IEND", vec![])];
            big.push(corpus::TestFile { bytes: crate::refpng::serialize(&cs), source: "big-chunks".into(), model_domain: false });
        }
    }
    for f in &big {
        let mut r = rng.fork(f.bytes.len() as u64);
        let base_s = run_streaming(&f.bytes, &[], &DEFAULT_OPTS);
        for k in 0..ctx.n(24, 200) {
            // random schedules with pieces from a few bytes to ~100 KiB
            let mean = *r.pick(&[3usize, 40, 700, 9000, 33000, 120_000]);
            let mut cuts = vec![];
            let mut p = 0usize;
            loop {
                p += 1 + r.usize(0, 2 * mean);
                if p >= f.bytes.len() || cuts.len() > 60_000 {
                    break;
                }
                cuts.push(p);
            }
            ctx.rep.eval(true, fnv64(&f.bytes) ^ k as u64);
            ctx.rep.count("source", &f.source);
            let s = run_streaming(&f.bytes, &cuts, &DEFAULT_OPTS);
            if s != base_s {
                ctx.rep.violation("oracle", "streaming/large-file-differs", &format!("StreamingDecoder results differ between two deliveries of the same bytes: `{}` vs `{}`", trunc(&base_s), trunc(&s)), case_json(&f.bytes[..f.bytes.len().min(400_000)], &[], &cuts[..cuts.len().min(2000)], &DEFAULT_OPTS, "streaming"));
            }
            // every few runs: one cut exactly where a chunk body fills the 32 KiB buffer (+-1)
            if k % 4 == 0 {
                let fo = field_offsets(&f.bytes);
                if let Some(&o) = fo.get(4 + 4 * (k / 4 % 2)) {
                    let c = o + 32768 + (k / 8) % 3 - 1;
                    if c < f.bytes.len() {
                        cuts = vec![c];
                    }
                }
            }
            // Reader under small limits: whether a chunk fits the budget must not depend on the delivery
            for limit in [40_000usize, 100_000] {
                let a = run_reader_limited(&f.bytes, &[], limit);
                let b = run_reader_limited(&f.bytes, &cuts, limit);
                if a != b {
                    ctx.rep.violation("oracle", "reader/limited-differs", &format!("Reader (Limits {{bytes: {}}}) results differ between two deliveries: `{}` vs `{}`", limit, trunc(&a), trunc(&b)), case_json(&f.bytes[..f.bytes.len().min(400_000)], &[], &cuts[..cuts.len().min(2000)], &DEFAULT_OPTS, "reader-limited"));
                }
            }
        }
    }
    let every_cut_limit = ctx.n(700, 6000);
    let nrandom = ctx.n(3, 10);
    for (i, f) in files.iter().enumerate() {
        let mut r = rng.fork(i as u64);
        check_file(ctx, f, &mut r, every_cut_limit, nrandom, Some(&answers[i]));
        if i < 2 {
            ctx.rep.sample(J::obj().set("source", J::s(&f.source)).set("bytes", J::i(f.bytes.len() as u64)).set("streaming_result", J::s(&trunc(&run_streaming(&f.bytes, &[], &DEFAULT_OPTS)))));
        }
    }
    let mut r = rng.fork(0x3c4);
    mixed_calls_part(ctx, &mut r);
}

/// highly compressible images whose raw size lies just above a power-of-two buffer size of the inflate window (32 KiB,
/// 128 KiB): with a large piece the inflater has taken in all compressed bytes while its output buffer is full, and the tail of
/// the frame (several rows) only comes out when the data sequence is finished (`finish_compressed_chunks`) - together with the
/// end-of-data event.  With small pieces that never happens.  (Defect D23 was found in this corner.)
pub fn flush_carrying_files(rng: &mut Rng) -> Vec<(Vec<u8>, u32)> {
    use crate::refpng::*;
    let mut out = vec![];
    for (w, h, color, depth) in [(1024u32, 32u32, 0u8, 8u8), (31, 1030, 0, 8), (15, 2050, 0, 8), (361, 363, 0, 8), (181, 181, 6, 8), (515, 16, 2, 16)] {
        let mut img = Img::random(rng, color, depth, w, h);
        for b in img.pixels.iter_mut() {
            *b = 0;
        }
        let still = Still { img, interlace: false, filters: Filters::Uniform(0), deflater: Deflater::Level(6), split: Split::One };
        let (cs, _) = still_chunks(&still, rng);
        out.push((serialize(&cs), h));
    }
    out
}

/// The same corner inside an ANIMATION: a highly compressible first frame (canvas size) whose last rows leave the inflater only
/// when its data sequence is finished, followed by a small second frame with other pixels.  (A `next_frame` that moves on while
/// rows of a NON-LAST frame are pending drops them and shifts every later frame: seeded change C13_7.)
pub fn flush_carrying_anims(rng: &mut Rng) -> Vec<(Vec<u8>, u32)> {
    use crate::refpng::*;
    let mut out = vec![];
    for (w, h, color, depth) in [(63u32, 518u32, 0u8, 8u8), (1024, 32, 0, 8), (31, 1030, 0, 8), (181, 181, 6, 8)] {
        let mut img = Img::random(rng, color, depth, w, h);
        for b in img.pixels.iter_mut() {
            *b = 0;
        }
        let first = AnimFrame { x: 0, y: 0, img, delay: (1, 10), dispose: 0, blend: 0, filters: Filters::Uniform(0), deflater: Deflater::Level(6), split: Split::One };
        let (fw, fh) = (rng.range(1, 9.min(w as u64)) as u32, rng.range(2, 9.min(h as u64)) as u32);
        let mut img2 = Img::random(rng, color, depth, fw, fh);
        for b in img2.pixels.iter_mut() {
            *b |= 0x81;
        }
        let second = AnimFrame { x: 0, y: 0, img: img2, delay: (1, 10), dispose: 0, blend: 0, filters: Filters::Random, deflater: Deflater::Level(6), split: Split::One };
        let a = Anim { color, depth, w, h, interlace: false, plays: 0, default_image: None, frames: vec![first, second] };
        let (cs, _) = anim_chunks(&a, rng);
        out.push((serialize(&cs), h));
    }
    out
}

/// The same corner with MORE image data than the header announces (tolerated by the decoder, like libpng: the surplus is
/// discarded): the raw size lies just above 32 / 64 / 128 KiB and 1 .. 40000 surplus zero bytes follow.  With the whole file in
/// one piece the output buffer of the inflater is exactly full when the last compressed byte has been taken in, what is
/// pending exceeds the room the announced size leaves, and `finish_compressed_chunks` has to hand data over INSIDE its
/// flush loop (zlib.rs 139-146) - a path no well-formed image reaches.  Fed in small pieces the same bytes never get there.
pub fn surplus_data_files(rng: &mut Rng) -> Vec<(Vec<u8>, u32)> {
    use crate::refpng::*;
    let mut out = vec![];
    for (k, (w, h, color, depth, extra)) in [(442u32, 296u32, 0u8, 8u8, 1usize), (99, 328, 0, 8, 300), (64, 256, 6, 8, 40_000), (799, 41, 0, 1, 7), (128, 255, 4, 8, 2000)].into_iter().enumerate() {
        let mut img = Img::random(rng, color, depth, w, h);
        let rb = img.row_bytes();
        for b in img.pixels[(k % 3) * rb..].iter_mut() {
            *b = 0;
        }
        let (mut raw, _) = scanlines(&img, false, &Filters::Uniform(0), rng);
        raw.extend(std::iter::repeat(0u8).take(extra));
        let z = zlib_stream(&raw, &Deflater::Level([6u32, 9, 1][k % 3]));
        out.push((serialize(&[ihdr(w, h, depth, color, 0), RawChunk::new(b"IDAT", z), RawChunk::new(b"IEND", vec![])]), h));
    }
    out
}

/// Reader-level call sequences that mix row calls and frame calls, under two deliveries: the traces (cut after the first
/// error) must be equal
fn mixed_calls_part(ctx: &mut Ctx, rng: &mut Rng) {
    use crate::rops::{self, Config, Op};
    let cfg = Config::default();
    let mut files = flush_carrying_files(rng);
    let surplus = surplus_data_files(rng);
    // the surplus-data files under the option sets that differ in the checksum switches, installed through the public setters
    // (`Decoder::ignore_checksums`): the complete Reader result must not depend on the delivery (the Adler-32 of these
    // streams is correct)
    for (file, _) in &surplus {
        let n = file.len();
        for opts in [DEFAULT_OPTS, [true, true, false, false, true], [false, false, false, false, true]] {
            let whole = run_reader_route(file, &[], &opts, png::Transformations::IDENTITY, true);
            for (name, cuts) in [("byte-wise", (1..n).collect::<Vec<usize>>()), ("7", (1..n).step_by(7).collect()), ("random", { let mut c: Vec<usize> = (0..5).map(|_| rng.usize(1, n - 1)).collect(); c.sort(); c })] {
                ctx.rep.eval(true, fnv64(file) ^ fnv64(name.as_bytes()) ^ fnv64(opts_string(&opts).as_bytes()));
                ctx.rep.count("surplus image data: options (Decoder setters)", &opts_string(&opts));
                let r = run_reader_route(file, &cuts, &opts, png::Transformations::IDENTITY, true);
                if r != whole {
                    let key = if r.starts_with("PANIC") || whole.starts_with("PANIC") { "reader/panic".to_string() } else { format!("reader/surplus-data-result-differs/adler-check-{}", if opts[0] { "off" } else { "on" }) };
                    ctx.rep.violation("oracle", &key, &format!("image with more data than announced, options {} through the Decoder setters: whole file `{}`, delivery {} `{}`", opts_string(&opts), trunc(&whole), name, trunc(&r)),
                        case_json(file, &[], &cuts[..cuts.len().min(3000)], &opts, "reader-setters"));
                }
            }
        }
    }
    files.extend(surplus);
    for f in crate::props::reader_props::small_valid_files(rng, ctx.n(6, 24)) {
        let h = png::Decoder::new(std::io::Cursor::new(&f.bytes[..])).read_info().map(|r| r.info().height).unwrap_or(1);
        files.push((f.bytes, h));
    }
    for (file, h) in &files {
        let mut seqs: Vec<Vec<Op>> = vec![];
        // rows, then a frame call while k rows are still undelivered; rows, then next_frame_info / finish
        for k in 0..4u32 {
            for tail in [vec![Op::NextFrame(0)], vec![Op::NextFrame(0), Op::NextFrame(0)], vec![Op::ReadRow, Op::NextFrame(0), Op::NextRow], vec![Op::NextFrameInfo], vec![Op::Finish]] {
                let mut v = vec![Op::ReadInfo];
                v.extend((0..h.saturating_sub(k)).map(|i| if i % 5 == 4 { Op::ReadRow } else { Op::NextRow }));
                v.extend(tail);
                seqs.push(v);
            }
        }
        for _ in 0..ctx.n(4, 20) {
            let n = rng.usize(1, 30);
            let mut v = vec![Op::ReadInfo];
            v.extend((0..n).map(|_| rng.pick(&[Op::NextFrame(0), Op::NextRow, Op::NextRow, Op::ReadRow, Op::NextFrameInfo]).clone()));
            seqs.push(v);
        }
        let n = file.len();
        let deliveries: Vec<Vec<usize>> = vec![(1..n).collect(), (1..n).step_by(4096).collect(), (1..n).step_by(7).collect(), { let mut c: Vec<usize> = (0..6).map(|_| rng.usize(1, n - 1)).collect(); c.sort(); c }];
        for ops in &seqs {
            let whole = rops::run_ops(file, n, ops, &cfg);
            for (di, cuts) in deliveries.iter().enumerate() {
                if di > 0 && h > &200 && ops.len() > 40 && di != 1 {
                    continue;
                }
                ctx.rep.eval(true, fnv64(file) ^ fnv64(rops::ops_string(ops).as_bytes()) ^ di as u64);
                ctx.rep.count("mixed calls delivery", ["byte-wise", "4096", "7", "random"][di]);
                let t = rops::run_ops_cuts(file, n, ops, &cfg, cuts);
                let cut_at = |toks: &Vec<String>| -> Vec<String> { let e = toks.iter().position(|x| x.starts_with("err(")).map(|p| p + 1).unwrap_or(toks.len()); toks[..e].to_vec() };
                let (a, b) = (cut_at(&whole.tokens), cut_at(&t.tokens));
                if whole.panicked || t.panicked || a != b {
                    let at = a.iter().zip(&b).position(|(x, y)| x != y).unwrap_or(a.len().min(b.len()));
                    // is it the one recorded situation (D24)?  All rows of the frame were delivered by row calls, the final `None` was
                    // not polled, and the next call is next_frame: whether the end of the frame's data had already been consumed
                    // with the last row depends on the delivery.  Test: with one more row poll in front of that call (it answers
                    // `none` under both deliveries) the two deliveries agree again.
                    let mut class = "reader/mixed-calls-differ";
                    if !whole.panicked && !t.panicked && at > 1 && matches!(ops.get(at), Some(Op::NextFrame(_))) && matches!(ops.get(at - 1), Some(Op::NextRow) | Some(Op::ReadRow)) {
                        let mut ops2 = ops[..at].to_vec();
                        ops2.push(Op::NextRow);
                        ops2.extend_from_slice(&ops[at..]);
                        let (w2, p2) = (rops::run_ops(file, n, &ops2, &cfg), rops::run_ops_cuts(file, n, &ops2, &cfg, cuts));
                        if !w2.panicked && !p2.panicked && w2.tokens.get(at).map(|x| x == "none").unwrap_or(false) && p2.tokens.get(at).map(|x| x == "none").unwrap_or(false) && cut_at(&w2.tokens) == cut_at(&p2.tokens) {
                            class = "reader/mixed-calls-differ/next_frame-after-all-rows-unpolled";
                        }
                    }
                    ctx.rep.violation("oracle", if whole.panicked || t.panicked { "reader/panic" } else { class },
                        &format!("{} rows image, calls [{}]: result {} is `{}` with the whole file in one piece and `{}` with delivery {}", h, trunc(&rops::ops_string(ops)), at,
                            a.get(at).map(|s| s.as_str()).unwrap_or("(none)"), b.get(at).map(|s| s.as_str()).unwrap_or("(none)"), ["byte-wise", "in 4096-byte pieces", "in 7-byte pieces", "random cuts"][di]),
                        J::obj().set("what", J::s("mixed")).set("file", J::s(&hex(file))).set("ops", J::s(&rops::ops_string(ops))).set("cuts", J::s(&cuts_str(&cuts[..cuts.len().min(3000)]))).set("delivery", J::i(di as u64)));
                }
            }
        }
    }
    // the call protocol over a lazy image-data source (Model/LazyReader.lean, Props/C04Lazy.lean)
    crate::props::c04_lazy::run_part(ctx);
}

pub fn replay(ctx: &mut Ctx, case: &J) {
    if case.get("what").and_then(|x| x.as_str()) == Some("lazy") {
        return crate::props::c04_lazy::replay(ctx, case);
    }
    let file = case.get("file").and_then(|f| f.as_str()).and_then(unhex).unwrap_or_default();
    let a = parse_cuts(case.get("cuts_a").and_then(|x| x.as_str()).unwrap_or("-"));
    let b = parse_cuts(case.get("cuts_b").and_then(|x| x.as_str()).unwrap_or("-"));
    let path = case.get("path").and_then(|x| x.as_str()).unwrap_or("streaming");
    ctx.rep.eval(true, fnv64(&file));
    if case.get("what").and_then(|x| x.as_str()) == Some("mixed") {
        use crate::rops::{self, Config};
        let ops = rops::parse_ops(case.get("ops").and_then(|x| x.as_str()).unwrap_or(""));
        let cuts = parse_cuts(case.get("cuts").and_then(|x| x.as_str()).unwrap_or("-"));
        let cfg = Config::default();
        let (a, b) = (rops::run_ops(&file, file.len(), &ops, &cfg), rops::run_ops_cuts(&file, file.len(), &ops, &cfg, &cuts));
        println!("whole: {}\npieces: {}", trunc(&a.text()), trunc(&b.text()));
        let cut_at = |toks: &Vec<String>| -> Vec<String> { let e = toks.iter().position(|x| x.starts_with("err(")).map(|p| p + 1).unwrap_or(toks.len()); toks[..e].to_vec() };
        if a.panicked || b.panicked || cut_at(&a.tokens) != cut_at(&b.tokens) {
            ctx.rep.violation("oracle", "reader/mixed-calls-differ", "the two deliveries give different results", case.clone());
        }
        return;
    }
    let mut opts = DEFAULT_OPTS;
    if path == "reader-setters" {
        for (i, ch) in case.get("opts").and_then(|x| x.as_str()).unwrap_or("10001").chars().enumerate().take(5) {
            opts[i] = ch == '1';
        }
    }
    match path {
        "reader-setters" => {
            let (ra, rb) = (run_reader_route(&file, &a, &opts, png::Transformations::IDENTITY, true), run_reader_route(&file, &b, &opts, png::Transformations::IDENTITY, true));
            println!("A: {}\nB: {}", trunc(&ra), trunc(&rb));
            if ra != rb {
                ctx.rep.violation("oracle", &format!("reader/surplus-data-result-differs/adler-check-{}", if opts[0] { "off" } else { "on" }), &format!("`{}` vs `{}`", trunc(&ra), trunc(&rb)), case.clone());
            }
        }
        "reader" => {
            let (ra, rb) = (run_reader(&file, &a, &opts, png::Transformations::IDENTITY), run_reader(&file, &b, &opts, png::Transformations::IDENTITY));
            if ra != rb {
                if std::env::var("VERIF_DEBUG").is_ok() {
                    eprintln!("A: {}\nB: {}", ra, rb);
                }
                ctx.rep.violation("oracle", "reader/result-differs", &format!("`{}` vs `{}`", trunc(&ra), trunc(&rb)), case.clone());
            }
        }
        "model" => {
            let ans = model::ask_one(&[format!("frm run {} max {} -", opts_string(&opts), hex(&file))]);
            let m = ans[0].rsplitn(2, " | ").last().unwrap_or("").to_string();
            let s = run_streaming(&file, &[], &opts);
            if !same_modulo_error_detail(&m, &s) {
                ctx.rep.violation("model", "framing/replay", &format!("framing model `{}` vs StreamingDecoder `{}`", trunc(&m), trunc(&s)), case.clone());
            }
        }
        _ => {
            let (sa, sb) = (run_streaming(&file, &a, &opts), run_streaming(&file, &b, &opts));
            if sa != sb {
                ctx.rep.violation("oracle", "streaming/trace-differs", &format!("`{}` vs `{}`", trunc(&sa), trunc(&sb)), case.clone());
            }
        }
    }
}
